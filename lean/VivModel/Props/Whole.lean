import VivModel.Model.Whole
import VivModel.Props.C02Bits
import VivModel.Props.C08
import VivModel.Props.C17
import VivModel.Props.C02
import VivModel.Props.C03
import VivModel.Props.C04
import VivModel.Props.C05
import VivModel.Lemmas.IndexMap
import VivModel.Props.C14
import VivModel.Props.C15
import VivModel.Props.C16
/-! WHOLE — theorems about the COMPOSED end-to-end model (`Model/Whole.lean`).

All statements are for every configuration, every state and – unless the statement is about numpy's block –
every block function `B`. No hypothesis on the configuration is hidden: where validity is needed it is the
explicit hypothesis `0 < cfg.step` / `cfg.keyBits ≤ 53`. -/
namespace Viv.Props.Whole
open Viv Viv.Whole

/-! ### what never changes about a simulant; what a step may do to the table -/

/-- the attributes fixed at creation are kept, and an untracked row is kept entirely -/
def Frozen (r r' : Row) : Prop :=
  r'.label = r.label ∧ r'.key = r.key ∧ r'.entrance = r.entrance ∧ r'.sex = r.sex ∧ (r.tracked = false → r' = r) ∧
    r'.age = r.age

theorem Frozen.refl (r : Row) : Frozen r r := ⟨rfl, rfl, rfl, rfl, fun _ => rfl, rfl⟩

theorem Frozen.trans {a b c : Row} (h1 : Frozen a b) (h2 : Frozen b c) : Frozen a c := by
  obtain ⟨l1, k1, e1, s1, u1, a1⟩ := h1
  obtain ⟨l2, k2, e2, s2, u2, a2⟩ := h2
  refine ⟨l2.trans l1, k2.trans k1, e2.trans e1, s2.trans s1, fun hu => ?_, a2.trans a1⟩
  have hb := u1 hu
  subst hb
  exact u2 hu

/-- `s'` extends `s`: every row of `s` is still there, at the same place, `Frozen` -/
def Ext (s s' : State) : Prop :=
  ∀ (i : Nat) (r : Row), s.rows[i]? = some r → ∃ r', s'.rows[i]? = some r' ∧ Frozen r r'

theorem Ext.refl (s : State) : Ext s s := fun _ r h => ⟨r, h, Frozen.refl r⟩

theorem Ext.trans {a b c : State} (h1 : Ext a b) (h2 : Ext b c) : Ext a c := by
  intro i r hr
  obtain ⟨r', hr', f1⟩ := h1 i r hr
  obtain ⟨r'', hr'', f2⟩ := h2 i r' hr'
  exact ⟨r'', hr'', f1.trans f2⟩

theorem Ext.length_le {a b : State} (h : Ext a b) : a.rows.length ≤ b.rows.length := by
  rcases Nat.lt_or_ge b.rows.length a.rows.length with hlt | hge
  · have : ∃ r, a.rows[b.rows.length]? = some r := ⟨a.rows[b.rows.length], by simp [hlt]⟩
    obtain ⟨r, hr⟩ := this
    obtain ⟨r', hr', _⟩ := h _ r hr
    have : b.rows[b.rows.length]? = none := List.getElem?_eq_none (Nat.le_refl _)
    rw [this] at hr'; cases hr'
  · exact hge

/-- every label is the row's position in the table (labels are `0, 1, 2, …` in creation order) -/
def Lab (s : State) : Prop := ∀ (i : Nat) (r : Row), s.rows[i]? = some r → r.label = i

theorem lab_labels (s : State) (h : Lab s) : s.rows.map (·.label) = List.range s.rows.length := by
  apply List.ext_getElem?
  intro i
  rw [List.getElem?_map]
  rcases Nat.lt_or_ge i s.rows.length with hlt | hge
  · rw [List.getElem?_range hlt]
    have : s.rows[i]? = some s.rows[i] := by simp [hlt]
    rw [this]; simp [h i _ this]
  · rw [List.getElem?_eq_none hge, List.getElem?_eq_none (by simpa using hge)]; rfl

/-! ### simulant creation -/

theorem filter_range_fresh (n k : Nat) :
    (List.range (n + k)).filter (fun l => !(List.range n).contains l) = List.range' n k := by
  induction k with
  | zero =>
    simp only [Nat.add_zero, List.range'_zero, List.filter_eq_nil_iff]
    intro a ha
    simp [List.mem_range.mp ha]
  | succ k ih =>
    rw [← Nat.add_assoc, List.range_succ, List.filter_append, ih, List.range'_concat]
    simp

/-- **creation hands out the next labels**: with labels `0 … n-1` in the table, `count` new simulants are
`n, …, n + count - 1` (`range(len + count)` minus the existing index) -/
theorem newLabels_fresh (s : State) (h : Lab s) (k : Nat) : newLabels s.rows k = List.range' s.rows.length k := by
  unfold newLabels
  rw [lab_labels s h]
  exact filter_range_fresh _ _

/-- the key the CRN-initialising stream gives to the `j`-th simulant of a creation at clock `t` from
creation site `site`: a function of seed, clock, site, block size, position in the batch – nothing else -/
def crnKey (B : Blk) (cfg : Config) (site : String) (t : Int) (j : Nat) : Nat :=
  keyOf cfg.keyBits
    ((B (seedStr cfg "wpop_crn" t (if cfg.akPerPhase then "key" ++ site else "key")) (blockSize cfg))[j]?.getD 0)

theorem getElem?_mkRows (clock : Int) (labels keys sexes sts ages : List Nat) (j : Nat) :
    (mkRows clock labels keys sexes sts ages)[j]? =
      (labels[j]?).map fun l => ⟨l, true, keys.getD j 0, clock, sexes.getD j 0, sts.getD j 0, none, ages.getD j 0⟩ := by
  unfold mkRows
  rw [List.getElem?_map, List.getElem?_zipIdx]
  cases labels[j]? <;> simp

theorem length_mkRows (clock : Int) (labels keys sexes sts ages : List Nat) :
    (mkRows clock labels keys sexes sts ages).length = labels.length := by
  simp [mkRows]

/-- the keys a creation computes are the positional draws `crnKey` -/
theorem crn_keys_eq (B : Blk) (cfg : Config) (site : String) (t : Int) (labels : List Nat) (kd : List Stream.Draw)
    (hkd : Stream.getDrawInit
      (RandomBlock.memoBlk (B (seedStr cfg "wpop_crn" t (if cfg.akPerPhase then "key" ++ site else "key")) (blockSize cfg)))
      (blockSize cfg) (seedStr cfg "wpop_crn" t (if cfg.akPerPhase then "key" ++ site else "key")) labels = .ok kd) :
    kd.map (fun d => keyOf cfg.keyBits d.2.2) = (List.range labels.length).map (crnKey B cfg site t) := by
  unfold Stream.getDrawInit at hkd
  split at hkd
  · cases hkd
    apply List.ext_getElem?
    intro j
    simp only [List.getElem?_map, List.getElem?_zipIdx, List.map_map]
    rcases Nat.lt_or_ge j labels.length with hlt | hge
    · rw [List.getElem?_range hlt]
      have : labels[j]? = some labels[j] := by simp [hlt]
      rw [this]
      simp [crnKey, RandomBlock.memoBlk]
    · rw [List.getElem?_eq_none hge, List.getElem?_eq_none (by simpa using hge)]
      rfl
  · cases hkd

/-- the batch a creation registers with the index map: (label, key tuple) per new simulant -/
def batchOf (B : Blk) (cfg : Config) (site : String) (t : Int) (labels : List Nat) : List (Int × IndexMap.Key) :=
  (labels.zip ((List.range labels.length).map (crnKey B cfg site t))).map
    fun lk => ((lk.1 : Int), keyTuple cfg t lk.2)

/-- **everything a creation does**: nothing for an empty batch; otherwise the index map is updated with the batch
(clock as salt), `sex` is chosen at the registered positions, and the new rows are appended -/
theorem create_full (B : Blk) (cfg : Config) (site : String) (k : Nat) (s s' : State)
    (h : create B cfg site k s = .ok s') :
    (newLabels s.rows k = [] ∧ s' = s) ∨
    ∃ (im : IndexMap.IMap) (sexes sts ages : List Nat),
      newLabels s.rows k ≠ [] ∧
      s.imap.update (IndexMap.hashPos (blockSize cfg)) cfg.fuel (batchOf B cfg site s.clock (newLabels s.rows k))
        (.int s.clock) = (im, .ok ()) ∧
      Stream.choiceStream (RandomBlock.memoBlk (B (seedStr cfg "wpop_sex" s.clock "sex") (blockSize cfg)))
        (blockSize cfg) (posOf im) (seedStr cfg "wpop_sex" s.clock "sex") 16 2 (sexWeights cfg)
        (newLabels s.rows k) = .ok sexes ∧
      s' = { s with imap := im, rows := (s.rows ++ mkRows s.clock (newLabels s.rows k)
              ((List.range (newLabels s.rows k).length).map (crnKey B cfg site s.clock)) sexes sts ages) } := by
  unfold create at h
  simp only at h
  split at h
  · rename_i hemp
    cases h
    exact Or.inl ⟨List.isEmpty_iff.mp hemp, rfl⟩
  · rename_i hne
    split at h
    · cases h
    · rename_i kd hkd
      have hk := crn_keys_eq B cfg site s.clock _ kd hkd
      rw [hk] at h
      split at h
      · cases h
      · rename_i im u himap
        split at h
        · cases h
        · split at h
          · cases h
          · rename_i sexes hsex _ sts hsts
            cases h
            cases u
            exact Or.inr ⟨im, sexes, sts, _, fun hnil => hne (by rw [hnil]; rfl), himap, hsex, rfl⟩

/-- **what a creation does to the table**: the clock and every existing row are untouched; the new rows are appended,
carry the new labels in order, are tracked, entered at the current clock, have not left, and their `key` is the
positional draw `crnKey` – whatever the existing population, the index map and every other parameter are. -/
theorem create_spec (B : Blk) (cfg : Config) (site : String) (k : Nat) (s s' : State)
    (h : create B cfg site k s = .ok s') :
    s'.clock = s.clock ∧ s'.res = s.res ∧ s'.pvals = s.pvals ∧ ∃ sexes sts ages : List Nat,
      s'.rows = s.rows ++ mkRows s.clock (newLabels s.rows k)
        ((List.range (newLabels s.rows k).length).map (crnKey B cfg site s.clock)) sexes sts ages := by
  rcases create_full B cfg site k s s' h with ⟨hnil, rfl⟩ | ⟨im, sexes, sts, ages, _, _, _, rfl⟩
  · exact ⟨rfl, rfl, rfl, [], [], [], by rw [hnil]; simp [mkRows]⟩
  · exact ⟨rfl, rfl, rfl, sexes, sts, ages, rfl⟩

/-! ### one listener call -/

/-- what one listener call may do to an existing row when the event time is `t`: nothing, a change of the machine's
state of a tracked simulant, or untracking a tracked simulant with `exit = t` -/
def Evolves (t : Int) (r r' : Row) : Prop :=
  r' = r ∨ (r.tracked = true ∧ ∃ x, r' = { r with st := x }) ∨
    (r.tracked = true ∧ r' = { r with tracked := false, exit := some t })

theorem Evolves.frozen {t : Int} {r r' : Row} (h : Evolves t r r') : Frozen r r' := by
  rcases h with h | ⟨ht, x, h⟩ | ⟨ht, h⟩
  · subst h; exact Frozen.refl _
  · subst h; exact ⟨rfl, rfl, rfl, rfl, fun hu => by simp [ht] at hu, rfl⟩
  · subst h; exact ⟨rfl, rfl, rfl, rfl, fun hu => by simp [ht] at hu, rfl⟩

/-- a row that a creation at state `s` appended at table position `i` -/
def Fresh (B : Blk) (cfg : Config) (s : State) (i : Nat) (r : Row) : Prop :=
  r.tracked = true ∧ r.exit = none ∧ r.entrance = s.clock ∧ (Lab s → r.label = i) ∧
    ∃ site j, r.key = crnKey B cfg site s.clock j

/-- the effect of one listener call at event time `t` -/
structure ActRel (B : Blk) (cfg : Config) (t : Int) (s s' : State) : Prop where
  clock : s'.clock = s.clock
  old : ∀ (i : Nat) (r : Row), s.rows[i]? = some r → ∃ r', s'.rows[i]? = some r' ∧ Evolves t r r'
  new : ∀ (i : Nat) (r' : Row), s'.rows[i]? = some r' → s.rows.length ≤ i → Fresh B cfg s i r'
  imap : s'.imap = s.imap ∨ ∃ (site : String) (labels : List Nat), labels ≠ [] ∧
    (Lab s → labels = List.range' s.rows.length (s'.rows.length - s.rows.length)) ∧
    s.imap.update (IndexMap.hashPos (blockSize cfg)) cfg.fuel (batchOf B cfg site s.clock labels) (.int s.clock) =
      (s'.imap, .ok ())

theorem ActRel.same (B : Blk) (cfg : Config) (t : Int) (s : State) : ActRel B cfg t s s :=
  ⟨rfl, fun _ r h => ⟨r, h, Or.inl rfl⟩, fun i r' h hi => (by rw [List.getElem?_eq_none hi] at h; cases h), Or.inl rfl⟩

theorem lt_of_getElem? {α : Type} {l : List α} {i : Nat} {a : α} (h : l[i]? = some a) : i < l.length := by
  rcases Nat.lt_or_ge i l.length with hlt | hge
  · exact hlt
  · rw [List.getElem?_eq_none hge] at h; cases h

/-- a creation -/
theorem create_rel (B : Blk) (cfg : Config) (t : Int) (site : String) (k : Nat) (s s' : State)
    (h : create B cfg site k s = .ok s') : ActRel B cfg t s s' := by
  obtain ⟨hc, _, _, sexes, sts, ages, hrows⟩ := create_spec B cfg site k s s' h
  refine ⟨hc, ?_, ?_, ?_⟩
  rotate_left 2
  · rcases create_full B cfg site k s s' h with ⟨_, rfl⟩ | ⟨im, sexes, sts, ages, hne, himap, _, rfl⟩
    · exact Or.inl rfl
    · refine Or.inr ⟨site, newLabels s.rows k, hne, fun hlab => ?_, himap⟩
      rw [newLabels_fresh s hlab]
      simp [length_mkRows]
  · intro i r hr
    exact ⟨r, by rw [hrows, List.getElem?_append_left (lt_of_getElem? hr)]; exact hr, Or.inl rfl⟩
  · intro i r hr hge
    rw [hrows, List.getElem?_append_right hge, getElem?_mkRows] at hr
    obtain ⟨l, hl, hr⟩ := Option.map_eq_some_iff.mp hr
    subst hr
    refine ⟨rfl, rfl, rfl, fun hlab => ?_, site, i - s.rows.length, ?_⟩
    · rw [newLabels_fresh s hlab] at hl
      have hj := lt_of_getElem? hl
      simp only [List.length_range'] at hj
      rw [List.getElem?_range' hj] at hl
      simp only [Option.some.injEq] at hl
      simp only; omega
    · have hj := lt_of_getElem? hl
      simp only [List.getD_eq_getElem?_getD, List.getElem?_map]
      rw [List.getElem?_range hj]
      rfl

/-- `WPop.births` -/
theorem births_rel (B : Blk) (cfg : Config) (t : Int) (ph : Nat) (s s' : State)
    (h : births B cfg ph s = .ok s') : ActRel B cfg t s s' := by
  unfold births at h
  simp only at h
  split at h
  · split at h
    · exact create_rel B cfg t _ _ s s' h
    · cases h; exact ActRel.same B cfg t s
  · cases h; exact ActRel.same B cfg t s

/-- `WMort.act`: nobody is added or removed; a tracked simulant may be untracked with `exit = event.time`;
the index map is untouched -/
theorem mort_rel (B : Blk) (cfg : Config) (evIdx : List Nat) (evTime : Int) (s s' : State)
    (h : mort B cfg evIdx evTime s = .ok s') :
    ActRel B cfg evTime s s' ∧ s'.rows.length = s.rows.length ∧ s'.imap = s.imap ∧ s'.res = s.res := by
  unfold mort at h
  simp only at h
  split at h
  · cases h; exact ⟨ActRel.same B cfg _ s, rfl, rfl, rfl⟩
  · split at h
    · cases h
    · split at h
      · cases h
      · cases h
        refine ⟨⟨rfl, ?_, ?_, Or.inl rfl⟩, by simp, rfl, rfl⟩
        · intro i r hr
          simp only [List.getElem?_map, hr, Option.map_some]
          refine ⟨_, rfl, ?_⟩
          split
          · rename_i hc
            refine Or.inr (Or.inr ⟨?_, rfl⟩)
            simp only [live, Bool.and_eq_true] at hc
            exact hc.1.1
          · exact Or.inl rfl
        · intro i r' hr' hge
          rw [List.getElem?_eq_none (by simpa using hge)] at hr'
          cases hr'

/-- `ResultsManager.gather_results`: the table, the index map and the clock are not touched – only the results -/
theorem observe_rel (B : Blk) (cfg : Config) (t : Int) (ph : Nat) (evIdx : List Nat) (evTime : Int) (s s' : State)
    (h : observe cfg ph evIdx evTime s = .ok s') :
    ActRel B cfg t s s' ∧ s'.rows = s.rows ∧ s'.imap = s.imap ∧ s'.clock = s.clock ∧ s'.pvals = s.pvals := by
  unfold observe at h
  split at h
  · cases h
    exact ⟨⟨rfl, fun _ r hr => ⟨r, hr, Or.inl rfl⟩,
      fun i r' hr' hi => (by rw [List.getElem?_eq_none hi] at hr'; cases hr'), Or.inl rfl⟩, rfl, rfl, rfl, rfl⟩
  · cases h

/-- `WDisease.act` through the C17 model (`transition_frame`, `transition_untracked_untouched`): only the `state`
cell of tracked simulants can change; nobody is added; the index map is untouched -/
theorem disease_rel (B : Blk) (cfg : Config) (t : Int) (evIdx : List Nat) (s s' : State)
    (h : disease B cfg evIdx s = .ok s') :
    ActRel B cfg t s s' ∧ s'.rows.length = s.rows.length ∧ s'.imap = s.imap ∧ s'.res = s.res ∧ s'.pvals = s.pvals := by
  unfold disease at h
  simp only at h
  split at h
  · cases h; exact ⟨ActRel.same B cfg _ s, rfl, rfl, rfl, rfl⟩
  · split at h
    · cases h
    · split at h
      · cases h
      · rename_i tab htab
        cases h
        have hlen := (Viv.Props.C17.transition_frame _ _ _ _ _ htab).1
        have hlen' : tab.length = s.rows.length := by simpa using hlen
        refine ⟨⟨rfl, ?_, ?_, Or.inl rfl⟩, by simp [hlen'], rfl, rfl, rfl⟩
        · intro i r hr
          have hi := lt_of_getElem? hr
          have htb : tab[i]? = some tab[i] := by simp [hlen', hi]
          simp only [List.getElem?_zipWith, hr, htb]
          refine ⟨_, rfl, ?_⟩
          by_cases hu : r.tracked = true
          · exact Or.inr (Or.inl ⟨hu, _, rfl⟩)
          · left
            have hu' : r.tracked = false := by simpa using hu
            have := Viv.Props.C17.transition_untracked_untouched _ _ _ _ _ i
              { st := r.st, other := 0, tracked := r.tracked } htab (by rw [List.getElem?_map, hr]; rfl) hu'
            rw [htb] at this
            simp only [Option.some.injEq] at this
            rw [this]
        · intro i r' hr' hge
          rw [List.getElem?_eq_none (by simp [hlen']; exact hge)] at hr'
          cases hr'

/-- **every listener call** -/
theorem act_rel (B : Blk) (cfg : Config) (ph : Nat) (evIdx : List Nat) (evTime : Int) (who : Nat) (s s' : State)
    (h : act B cfg ph evIdx evTime who s = .ok s') : ActRel B cfg evTime s s' := by
  unfold act at h
  split at h
  · exact births_rel B cfg evTime ph s s' h
  · split at h
    · exact (mort_rel B cfg evIdx evTime s s' h).1
    · split at h
      · exact (observe_rel B cfg evTime ph evIdx evTime s s' h).1
      · exact (disease_rel B cfg evTime evIdx s s' h).1

/-! ### lifting an invariant of listener calls to events, steps and runs -/

/-- `I` is kept by every listener call whose event time is `clock + step` -/
def Kept (B : Blk) (cfg : Config) (I : State → Prop) : Prop :=
  ∀ s s', I s → ActRel B cfg (s.clock + cfg.step) s s' → I s'

theorem runListeners_inv (B : Blk) (cfg : Config) (I : State → Prop) (hI : Kept B cfg I) (ph : Nat)
    (evIdx : List Nat) (t : Int) :
    ∀ (rs : List Ev.Reg) (s s' : State), I s → s.clock + cfg.step = t →
      runListeners B cfg ph evIdx t rs s = .ok s' → I s' ∧ s'.clock = s.clock := by
  intro rs
  induction rs with
  | nil => intro s s' hi _ h; cases h; exact ⟨hi, rfl⟩
  | cons r rs ih =>
    intro s s' hi ht h
    unfold runListeners at h
    split at h
    · rename_i s1 h1
      have hr := act_rel B cfg ph evIdx t r.2 s s1 h1
      have i1 : I s1 := hI s s1 hi (by rw [ht]; exact hr)
      obtain ⟨i2, c2⟩ := ih s1 s' i1 (by rw [hr.clock]; exact ht) h
      exact ⟨i2, c2.trans hr.clock⟩
    · cases h

theorem runPhases_inv (B : Blk) (cfg : Config) (I : State → Prop) (hI : Kept B cfg I) :
    ∀ (phs : List Nat) (s s' : State), I s → runPhases B cfg phs s = .ok s' → I s' ∧ s'.clock = s.clock := by
  intro phs
  induction phs with
  | nil => intro s s' hi h; cases h; exact ⟨hi, rfl⟩
  | cons ph phs ih =>
    intro s s' hi h
    unfold runPhases at h
    split at h
    · rename_i s1 h1
      obtain ⟨i1, c1⟩ := runListeners_inv B cfg I hI ph _ _ _ s s1 hi rfl h1
      obtain ⟨i2, c2⟩ := ih s1 s' i1 h
      exact ⟨i2, c2.trans c1⟩
    · cases h

/-- one `step()` = the listener calls of the four events (each keeps `I`), then the clock advances -/
theorem step_inv (B : Blk) (cfg : Config) (I : State → Prop) (hI : Kept B cfg I) (s s' : State) (hi : I s)
    (h : stepWhole B cfg s = .ok s') :
    ∃ s1, I s1 ∧ s1.clock = s.clock ∧ s' = { s1 with clock := s1.clock + cfg.step } := by
  unfold stepWhole at h
  split at h
  · rename_i s1 h1
    cases h
    obtain ⟨i1, c1⟩ := runPhases_inv B cfg I hI _ s s1 hi h1
    exact ⟨s1, i1, c1, rfl⟩
  · cases h

/-- **the clock**: one step advances it by exactly one step size -/
theorem step_clock (B : Blk) (cfg : Config) (s s' : State) (h : stepWhole B cfg s = .ok s') :
    s'.clock = s.clock + cfg.step := by
  obtain ⟨s1, _, c1, rfl⟩ := step_inv B cfg (fun _ => True) (fun _ _ _ _ => trivial) s s' trivial h
  simp [c1]

/-- an invariant that does not look at the clock is kept by steps -/
theorem step_inv_rows (B : Blk) (cfg : Config) (I : State → Prop) (hI : Kept B cfg I)
    (hclk : ∀ (s : State) (c : Int), I s → I { s with clock := c }) (s s' : State) (hi : I s)
    (h : stepWhole B cfg s = .ok s') : I s' := by
  obtain ⟨s1, i1, _, rfl⟩ := step_inv B cfg I hI s s' hi h
  exact hclk _ _ i1

theorem iter_inv_rows (B : Blk) (cfg : Config) (I : State → Prop) (hI : Kept B cfg I)
    (hclk : ∀ (s : State) (c : Int), I s → I { s with clock := c }) :
    ∀ (n : Nat) (s s' : State), I s → iterWhole B cfg n s = .ok s' → I s' := by
  intro n
  induction n with
  | zero => intro s s' hi h; cases h; exact hi
  | succ n ih =>
    intro s s' hi h
    unfold iterWhole at h
    split at h
    · rename_i s1 h1
      exact ih s1 s' (step_inv_rows B cfg I hI hclk s s1 hi h1) h
    · cases h

theorem iter_clock (B : Blk) (cfg : Config) :
    ∀ (n : Nat) (s s' : State), iterWhole B cfg n s = .ok s' → s'.clock = s.clock + n * cfg.step := by
  intro n
  induction n with
  | zero => intro s s' h; cases h; simp
  | succ n ih =>
    intro s s' h
    unfold iterWhole at h
    split at h
    · rename_i s1 h1
      rw [ih s1 s' h, step_clock B cfg s s1 h1, Int.add_assoc]
      congr 1
      rw [Int.natCast_succ, Int.add_mul, Int.one_mul, Int.add_comm]
    · cases h

/-! ### the invariants -/

/-- every row sits at the position of its label, and its `key` is a positional draw of the CRN-initialising
stream at its entrance time (from some creation site, at some position of that creation's batch) -/
def Good (B : Blk) (cfg : Config) (s : State) : Prop :=
  ∀ (i : Nat) (r : Row), s.rows[i]? = some r → r.label = i ∧ ∃ site j, r.key = crnKey B cfg site r.entrance j

theorem good_lab {B : Blk} {cfg : Config} {s : State} (h : Good B cfg s) : Lab s := fun i r hr => (h i r hr).1

theorem good_kept (B : Blk) (cfg : Config) : Kept B cfg (Good B cfg) := by
  intro s s' hg hr i r' hr'
  rcases Nat.lt_or_ge i s.rows.length with hlt | hge
  · have hri : s.rows[i]? = some s.rows[i] := by simp [hlt]
    obtain ⟨r'', hr'', hev⟩ := hr.old i _ hri
    rw [hr'] at hr''; cases hr''
    obtain ⟨l, k, e, _, _⟩ := hev.frozen
    obtain ⟨hl, site, j, hk⟩ := hg i _ hri
    exact ⟨l.trans hl, site, j, by rw [k, e]; exact hk⟩
  · obtain ⟨_, _, he, hl, site, j, hk⟩ := hr.new i r' hr' hge
    exact ⟨hl (good_lab hg), site, j, by rw [he]; exact hk⟩

theorem good_clock (B : Blk) (cfg : Config) (s : State) (c : Int) (h : Good B cfg s) :
    Good B cfg { s with clock := c } := h

/-- `s'` extends a fixed earlier state -/
theorem ext_kept (B : Blk) (cfg : Config) (s0 : State) : Kept B cfg (Ext s0) := by
  intro s s' he hr i r hri
  obtain ⟨r1, h1, f1⟩ := he i r hri
  obtain ⟨r2, h2, e2⟩ := hr.old i r1 h1
  exact ⟨r2, h2, f1.trans e2.frozen⟩

theorem good_initState (B : Blk) (cfg : Config) : Good B cfg (initState cfg) := by
  intro i r hr
  simp [initState] at hr

/-- the initial population satisfies the invariant; the clock is at the start time -/
theorem initPop_good (B : Blk) (cfg : Config) (s : State) (h : initPopB B cfg = .ok s) :
    Good B cfg s ∧ s.clock = cfg.start := by
  unfold initPopB at h
  split at h
  · rename_i s0 h0
    cases h
    have hr := create_rel B cfg ((initState cfg).clock + cfg.step) _ _ _ s0 h0
    refine ⟨good_kept B cfg _ s0 (good_initState B cfg) hr, ?_⟩
    simp only [hr.clock, initState]
    omega
  · cases h

/-! ### run = iterated step; interrupt and resume -/

/-- **running `n + m` steps = running `n` steps, then `m` more** (interrupt / resume at any step boundary;
an error in the first part is the error of the whole) -/
theorem iter_add (B : Blk) (cfg : Config) (n m : Nat) :
    ∀ s : State, iterWhole B cfg (n + m) s = (iterWhole B cfg n s).bind (iterWhole B cfg m) := by
  induction n with
  | zero => intro s; rw [Nat.zero_add]; rfl
  | succ n ih =>
    intro s
    rw [Nat.succ_add]
    show iterWhole B cfg (n + m + 1) s = (iterWhole B cfg (n + 1) s).bind (iterWhole B cfg m)
    unfold iterWhole
    cases stepWhole B cfg s with
    | ok s' => exact ih s'
    | error e => rfl

/-- resuming from the state reached after `n` steps gives what the uninterrupted run gives -/
theorem resume_at_any_boundary (B : Blk) (cfg : Config) (n m : Nat) (s s1 : State)
    (h : iterWhole B cfg n s = .ok s1) : iterWhole B cfg (n + m) s = iterWhole B cfg m s1 := by
  rw [iter_add, h]; rfl

theorem ceil_zero (a h : Int) (hh : 0 < h) (ha : a ≤ 0) : (Ev.ceilDiv a h).toNat = 0 := by
  unfold Ev.ceilDiv
  have : (a + h - 1) / h < 1 := Int.ediv_lt_of_lt_mul hh (by omega)
  omega

theorem ceil_succ (a h : Int) (hh : 0 < h) (ha : 0 < a) :
    (Ev.ceilDiv a h).toNat = (Ev.ceilDiv (a - h) h).toNat + 1 := by
  unfold Ev.ceilDiv
  have e : a + h - 1 = (a - h + h - 1) + 1 * h := by omega
  rw [e, Int.add_mul_ediv_right _ _ (by omega)]
  have : 0 ≤ (a - h + h - 1) / h := Int.ediv_nonneg (by omega) (by omega)
  omega

/-- **`run()` = `step()` iterated**: for a positive step size the `while clock < stop` loop (with enough fuel) is
exactly `⌈(stop - clock) / step⌉` single steps – for every configuration and every state, errors included. -/
theorem runWhole_eq_iter (B : Blk) (cfg : Config) (hstep : 0 < cfg.step) :
    ∀ (fuel : Nat) (s : State), (Ev.ceilDiv (cfg.stop - s.clock) cfg.step).toNat ≤ fuel →
      runWholeB B cfg fuel s = iterWhole B cfg (Ev.ceilDiv (cfg.stop - s.clock) cfg.step).toNat s := by
  intro fuel
  induction fuel with
  | zero =>
    intro s hf
    have : (Ev.ceilDiv (cfg.stop - s.clock) cfg.step).toNat = 0 := by omega
    rw [this]; rfl
  | succ fuel ih =>
    intro s hf
    unfold runWholeB
    split
    · rename_i hlt
      have hs := ceil_succ (cfg.stop - s.clock) cfg.step hstep (by omega)
      rw [hs]
      show _ = match stepWhole B cfg s with
        | .ok s' => iterWhole B cfg _ s'
        | .error e => .error e
      cases hst : stepWhole B cfg s with
      | error e => rfl
      | ok s' =>
        simp only
        have hc := step_clock B cfg s s' hst
        have e : cfg.stop - s'.clock = cfg.stop - s.clock - cfg.step := by rw [hc]; omega
        rw [← e]
        apply ih
        rw [e]; omega
    · rename_i hge
      rw [ceil_zero _ _ hstep (by omega)]; rfl

/-- … and the number of steps is the one C08 proves for the clock alone: the first `n` with `stop ≤ clock + n·step` -/
theorem run_steps_first (cfg : Config) (s : State) (hstep : 0 < cfg.step) (hs : s.clock < cfg.stop) :
    (∀ k : Nat, k < (Ev.ceilDiv (cfg.stop - s.clock) cfg.step).toNat → s.clock + k * cfg.step < cfg.stop) ∧
      cfg.stop ≤ s.clock + (Ev.ceilDiv (cfg.stop - s.clock) cfg.step).toNat * cfg.step :=
  Viv.Props.C08.ceil_is_first s.clock cfg.stop cfg.step hstep hs

/-- the four events of the model are the states of the `main_loop` phase as `engine.py` declares them (regenerated
from the source on every run), in that order; ten priority buckets -/
theorem phases_are_declared : Ctx.phaseStates "main_loop" = PHASES ∧ Gen.nBuckets = 10 := by decide

/-! ### labels -/

/-- **labels over a whole run are `0 … n-1`**: after the initial creation and any number of steps (births in any
channel, in any listener order) the table's labels are consecutive from 0 in table order -/
theorem labels_fresh (B : Blk) (cfg : Config) (n : Nat) (s0 s : State) (h0 : initPopB B cfg = .ok s0)
    (h : iterWhole B cfg n s0 = .ok s) : s.rows.map (·.label) = List.range s.rows.length :=
  lab_labels s (good_lab (iter_inv_rows B cfg _ (good_kept B cfg) (good_clock B cfg) n s0 s (initPop_good B cfg s0 h0).1 h))

/-- **no label is ever reused and no row ever disappears**: continuing from any reachable state, every earlier row
is still at its place with its label, and every row added later carries a label that was not in the table –
untracked simulants included -/
theorem labels_never_reused (B : Blk) (cfg : Config) (n m : Nat) (s0 s1 s2 : State) (h0 : initPopB B cfg = .ok s0)
    (h1 : iterWhole B cfg n s0 = .ok s1) (h2 : iterWhole B cfg m s1 = .ok s2) :
    s1.rows.length ≤ s2.rows.length ∧
    (∀ (i : Nat) (r : Row), s1.rows[i]? = some r → ∃ r', s2.rows[i]? = some r' ∧ r'.label = r.label) ∧
    (∀ (i : Nat) (r : Row), s2.rows[i]? = some r → s1.rows.length ≤ i → r.label ∉ s1.rows.map (·.label)) := by
  have g1 := iter_inv_rows B cfg _ (good_kept B cfg) (good_clock B cfg) n s0 s1 (initPop_good B cfg s0 h0).1 h1
  have g2 := iter_inv_rows B cfg _ (good_kept B cfg) (good_clock B cfg) m s1 s2 g1 h2
  have hext : Ext s1 s2 := iter_inv_rows B cfg _ (ext_kept B cfg s1) (fun _ _ h => h) m s1 s2 (Ext.refl s1) h2
  refine ⟨hext.length_le, fun i r hr => ?_, fun i r hr hge => ?_⟩
  · obtain ⟨r', hr', f⟩ := hext i r hr
    exact ⟨r', hr', f.1⟩
  · rw [lab_labels s1 (good_lab g1), (g2 i r hr).1, List.mem_range]
    omega

/-! ### untracked simulants -/

/-- **an untracked simulant stays untracked – and entirely unchanged – for the rest of the run**: nothing in the
composition (mortality, the machine through its tracked-only view, births) touches its row again -/
theorem untracked_stay (B : Blk) (cfg : Config) (n : Nat) (s s' : State) (h : iterWhole B cfg n s = .ok s')
    (i : Nat) (r : Row) (hr : s.rows[i]? = some r) (hu : r.tracked = false) : s'.rows[i]? = some r := by
  have hext : Ext s s' := iter_inv_rows B cfg _ (ext_kept B cfg s) (fun _ _ h => h) n s s' (Ext.refl s) h
  obtain ⟨r', hr', f⟩ := hext i r hr
  rw [hr', f.2.2.2.2.1 hu]

/-- the attributes fixed at creation (label, key, entrance, sex) never change -/
theorem creation_attributes_fixed (B : Blk) (cfg : Config) (n : Nat) (s s' : State)
    (h : iterWhole B cfg n s = .ok s') (i : Nat) (r : Row) (hr : s.rows[i]? = some r) :
    ∃ r', s'.rows[i]? = some r' ∧ r'.label = r.label ∧ r'.key = r.key ∧ r'.entrance = r.entrance ∧ r'.sex = r.sex := by
  have hext : Ext s s' := iter_inv_rows B cfg _ (ext_kept B cfg s) (fun _ _ h => h) n s s' (Ext.refl s) h
  obtain ⟨r', hr', f⟩ := hext i r hr
  exact ⟨r', hr', f.1, f.2.1, f.2.2.1, f.2.2.2.1⟩

/-! ### draws are in range -/

/-- every number the model reads from numpy's block is below 2^53 (`numerator_lt`: bit-level theorem about the
SHA-1 + MT19937 model), i.e. every draw lies in [0, 1) -/
theorem draws_in_range (ks : String) (size p : Nat) : (RandomBlock.blockOf ks size)[p]?.getD 0 < 2 ^ 53 :=
  Viv.Props.C02Bits.numerator_lt (Sha1.getHash ks) size p

theorem keyOf_lt (bits d : Nat) (hb : bits ≤ 53) (hd : d < 2 ^ 53) : keyOf bits d < 2 ^ bits := by
  unfold keyOf
  rw [Nat.div_lt_iff_lt_mul (Nat.pow_pos (by decide)), ← Nat.pow_add]
  have : bits + (53 - bits) = 53 := by omega
  rw [this]; exact hd

/-- **every `key` of a whole run is in range**: with the real block, after any number of steps every simulant's key
is below `2^keyBits` (a `keyBits`-bit integer / a float in [0, 1)) -/
theorem keys_in_range (cfg : Config) (hb : cfg.keyBits ≤ 53) (n : Nat) (s0 s : State) (h0 : initPop cfg = .ok s0)
    (h : iterWhole RandomBlock.blockOf cfg n s0 = .ok s) : ∀ r ∈ s.rows, r.key < 2 ^ cfg.keyBits := by
  intro r hr
  obtain ⟨i, hi⟩ := List.mem_iff_getElem?.mp hr
  have g := iter_inv_rows _ cfg _ (good_kept _ cfg) (good_clock _ cfg) n s0 s (initPop_good _ cfg s0 h0).1 h
  obtain ⟨_, site, j, hk⟩ := g i r hi
  rw [hk]
  exact keyOf_lt _ _ hb (draws_in_range _ _ _)

/-- the block the model reads through `memoBlk` is `realBlk` (C02's `getDraw_memo`): the draws of the whole
simulation are `Stream.getDraw realBlk` of `joinKey decisionPoint (toString clock) additionalKey seed` -/
theorem draws_eq_real (size : Nat) (pos : Nat → Option Nat) (ks : String) (req : List Nat) :
    Stream.getDraw (RandomBlock.memoBlk (RandomBlock.blockOf ks size)) size pos ks req =
      Stream.getDraw RandomBlock.realBlk size pos ks req :=
  Viv.Props.C02Bits.getDraw_memo size pos ks req

/-! ### common random numbers: the CRN attributes of the initial population -/

/-- **the initial population in closed form**: `population_size` rows with labels `0 …`, tracked, created at
`start - step` (the fencepost), and simulant `i`'s key is the `i`-th positional draw of the CRN-initialising stream
at that time – a function of (seed, start - step, block size, key bits, i) and of nothing else -/
theorem initial_population (B : Blk) (cfg : Config) (s0 : State) (h0 : initPopB B cfg = .ok s0) :
    s0.rows.length = cfg.pop ∧ ∀ i, i < cfg.pop → ∃ r, s0.rows[i]? = some r ∧ r.label = i ∧ r.tracked = true ∧
      r.exit = none ∧ r.entrance = cfg.start - cfg.step ∧ r.key = crnKey B cfg "init" (cfg.start - cfg.step) i := by
  unfold initPopB at h0
  split at h0
  · rename_i s1 h1
    cases h0
    obtain ⟨_, _, _, sexes, sts, ages, hrows⟩ := create_spec B cfg _ _ _ s1 h1
    have hl : newLabels (initState cfg).rows cfg.pop = List.range' 0 cfg.pop :=
      newLabels_fresh (initState cfg) (good_lab (good_initState B cfg)) cfg.pop
    rw [hl] at hrows
    simp only [initState, List.nil_append, List.length_range'] at hrows
    refine ⟨by simp [hrows, length_mkRows], fun i hi => ?_⟩
    simp only [hrows, getElem?_mkRows, List.getElem?_range' hi, Option.map_some]
    refine ⟨_, rfl, by simp, rfl, rfl, rfl, ?_⟩
    simp only [List.getD_eq_getElem?_getD, List.getElem?_map, List.getElem?_range hi]
    rfl
  · cases h0

/-- … and it stays so for the whole run: after ANY number of steps, under ANY births schedule, mortality, machine,
listener order and priorities, simulant `i < population_size` still has exactly that key and entrance time -/
theorem initial_keys_closed_form (B : Blk) (cfg : Config) (n : Nat) (s0 s : State) (h0 : initPopB B cfg = .ok s0)
    (h : iterWhole B cfg n s0 = .ok s) (i : Nat) (hi : i < cfg.pop) :
    ∃ r, s.rows[i]? = some r ∧ r.label = i ∧ r.entrance = cfg.start - cfg.step ∧
      r.key = crnKey B cfg "init" (cfg.start - cfg.step) i := by
  obtain ⟨r0, hr0, hl, _, _, he, hk⟩ := (initial_population B cfg s0 h0).2 i hi
  obtain ⟨r, hr, l, k, e, _⟩ := creation_attributes_fixed B cfg n s0 s h i r0 hr0
  exact ⟨r, hr, l.trans hl, e.trans he, k.trans hk⟩

/-- **the CRN attributes of the initial population do not depend on the scenario.** Two simulations – any block
function – that agree on seed, start, step size, key bits, the additional-key convention and the block size
(`max(map_size, 10·population_size)`), and may differ in EVERYTHING else (births schedule in every channel, mortality
table, machine, initial-state weights, sex ratio, component order, listener priorities and channels, key columns,
int / float key, number of steps taken): every simulant of the initial population has the same `key` and the same
`entrance` in both, after any numbers of steps. -/
theorem initial_keys_independent_of_births (B : Blk) (c1 c2 : Config) (hseed : c1.seed = c2.seed)
    (hstart : c1.start = c2.start) (hstep : c1.step = c2.step) (hbits : c1.keyBits = c2.keyBits)
    (hak : c1.akPerPhase = c2.akPerPhase) (hsize : blockSize c1 = blockSize c2)
    (n1 n2 : Nat) (a0 a b0 b : State)
    (ha0 : initPopB B c1 = .ok a0) (ha : iterWhole B c1 n1 a0 = .ok a)
    (hb0 : initPopB B c2 = .ok b0) (hb : iterWhole B c2 n2 b0 = .ok b)
    (i : Nat) (h1 : i < c1.pop) (h2 : i < c2.pop) :
    ∃ ra rb, a.rows[i]? = some ra ∧ b.rows[i]? = some rb ∧ ra.key = rb.key ∧ ra.entrance = rb.entrance ∧
      ra.label = rb.label := by
  obtain ⟨ra, hra, la, ea, ka⟩ := initial_keys_closed_form B c1 n1 a0 a ha0 ha i h1
  obtain ⟨rb, hrb, lb, eb, kb⟩ := initial_keys_closed_form B c2 n2 b0 b hb0 hb i h2
  refine ⟨ra, rb, hra, hrb, ?_, by rw [ea, eb, hstart, hstep], by rw [la, lb]⟩
  rw [ka, kb]
  simp only [crnKey, seedStr, hseed, hstart, hstep, hbits, hak, hsize]

/-- with numpy's block the block size does not matter either (`numerator_prefix_stable`): the key of simulant `i` of
the initial population is the same for every map size and every population size that contains `i` -/
theorem initial_keys_independent_of_size (c1 c2 : Config) (hseed : c1.seed = c2.seed)
    (hstart : c1.start = c2.start) (hstep : c1.step = c2.step) (hbits : c1.keyBits = c2.keyBits)
    (hak : c1.akPerPhase = c2.akPerPhase)
    (n1 n2 : Nat) (a0 a b0 b : State)
    (ha0 : initPop c1 = .ok a0) (ha : iterWhole RandomBlock.blockOf c1 n1 a0 = .ok a)
    (hb0 : initPop c2 = .ok b0) (hb : iterWhole RandomBlock.blockOf c2 n2 b0 = .ok b)
    (i : Nat) (h1 : i < c1.pop) (h2 : i < c2.pop) :
    ∃ ra rb, a.rows[i]? = some ra ∧ b.rows[i]? = some rb ∧ ra.key = rb.key ∧ ra.entrance = rb.entrance := by
  obtain ⟨ra, hra, _, ea, ka⟩ := initial_keys_closed_form _ c1 n1 a0 a ha0 ha i h1
  obtain ⟨rb, hrb, _, eb, kb⟩ := initial_keys_closed_form _ c2 n2 b0 b hb0 hb i h2
  refine ⟨ra, rb, hra, hrb, ?_, by rw [ea, eb, hstart, hstep]⟩
  rw [ka, kb]
  simp only [crnKey, seedStr, hseed, hstart, hstep, hbits, hak]
  congr 1
  have s1 : i < blockSize c1 := by unfold blockSize; omega
  have s2 : i < blockSize c2 := by unfold blockSize; omega
  exact Viv.Props.C02Bits.numerator_prefix_stable _ _ _ i s1 s2

/-- **a newborn's key is positional too**: whatever the population, the index map and the other parameters are, the
`j`-th simulant of a creation at clock `t` from creation site `site` gets `crnKey … site t j` and `entrance = t`.
(Hence two creation sites that share the additional key at one clock time hand out IDENTICAL keys – the model, like
the code, then refuses the registration with `RandomnessError` when `key` is a key column.) -/
theorem newborn_key_positional (B : Blk) (cfg : Config) (site : String) (k : Nat) (s s' : State)
    (h : create B cfg site k s = .ok s') (hl : Lab s) (j : Nat) (hj : j < k) :
    ∃ r, s'.rows[s.rows.length + j]? = some r ∧ r.label = s.rows.length + j ∧ r.entrance = s.clock ∧
      r.key = crnKey B cfg site s.clock j ∧ r.tracked = true := by
  obtain ⟨_, _, _, sexes, sts, ages, hrows⟩ := create_spec B cfg site k s s' h
  rw [newLabels_fresh s hl] at hrows
  simp only [List.length_range'] at hrows
  rw [hrows, List.getElem?_append_right (by omega), getElem?_mkRows]
  have : s.rows.length + j - s.rows.length = j := by omega
  rw [this, List.getElem?_range' hj]
  refine ⟨_, rfl, by simp, rfl, ?_, rfl⟩
  simp only [List.getD_eq_getElem?_getD, List.getElem?_map, List.getElem?_range hj]
  rfl

/-! ### entrance and exit times: the composition of clock, event time and creation time -/

/-- inside a step: nobody entered after the clock; tracked ⇔ no exit time; who left did so strictly after entering
and not after the current event time -/
def TimedIn (cfg : Config) (s : State) : Prop :=
  ∀ (i : Nat) (r : Row), s.rows[i]? = some r → r.entrance ≤ s.clock ∧
    ((r.tracked = true ∧ r.exit = none) ∨
      (r.tracked = false ∧ ∃ t, r.exit = some t ∧ r.entrance < t ∧ t ≤ s.clock + cfg.step))

/-- at a step boundary -/
def TimedAt (s : State) : Prop :=
  ∀ (i : Nat) (r : Row), s.rows[i]? = some r → r.entrance < s.clock ∧
    ((r.tracked = true ∧ r.exit = none) ∨ (r.tracked = false ∧ ∃ t, r.exit = some t ∧ r.entrance < t ∧ t ≤ s.clock))

theorem timedIn_kept (B : Blk) (cfg : Config) (hstep : 0 < cfg.step) : Kept B cfg (TimedIn cfg) := by
  intro s s' ht hr i r' hr'
  rw [hr.clock]
  rcases Nat.lt_or_ge i s.rows.length with hlt | hge
  · have hri : s.rows[i]? = some s.rows[i] := by simp [hlt]
    obtain ⟨r'', hr'', hev⟩ := hr.old i _ hri
    rw [hr'] at hr''; cases hr''
    obtain ⟨he, hx⟩ := ht i _ hri
    rcases hev with h | ⟨_, x, h⟩ | ⟨htr, h⟩
    · rw [h]; exact ⟨he, hx⟩
    · rw [h]; exact ⟨he, hx⟩
    · rw [h]
      refine ⟨he, Or.inr ⟨rfl, _, rfl, ?_, Int.le_refl _⟩⟩
      show s.rows[i].entrance < s.clock + cfg.step
      omega
  · obtain ⟨htr, hex, hen, _, _⟩ := hr.new i r' hr' hge
    exact ⟨by rw [hen]; exact Int.le_refl _, Or.inl ⟨htr, hex⟩⟩

/-- **entrance / exit times over a step**: at every step boundary everybody entered strictly before the clock, a
simulant is tracked exactly when it has no exit time, and who left did so strictly after entering and not after the
clock (event time = clock + step against creation time = clock: a simulant born and untracked in the same step has
`entrance < exit`) -/
theorem step_timed (B : Blk) (cfg : Config) (hstep : 0 < cfg.step) (s s' : State) (ht : TimedAt s)
    (h : stepWhole B cfg s = .ok s') : TimedAt s' := by
  have hin : TimedIn cfg s := by
    intro i r hr
    obtain ⟨he, hx⟩ := ht i r hr
    refine ⟨by omega, ?_⟩
    rcases hx with hx | ⟨hu, t, h1, h2, h3⟩
    · exact Or.inl hx
    · exact Or.inr ⟨hu, t, h1, h2, by omega⟩
  obtain ⟨s1, h1, _, rfl⟩ := step_inv B cfg _ (timedIn_kept B cfg hstep) s s' hin h
  intro i r hr
  obtain ⟨he, hx⟩ := h1 i r hr
  exact ⟨by show r.entrance < s1.clock + cfg.step; omega, hx⟩

theorem initPop_timed (B : Blk) (cfg : Config) (hstep : 0 < cfg.step) (s0 : State) (h0 : initPopB B cfg = .ok s0) :
    TimedAt s0 := by
  obtain ⟨hlen, hrows⟩ := initial_population B cfg s0 h0
  have hc := (initPop_good B cfg s0 h0).2
  intro i r hr
  have hi : i < cfg.pop := by rw [← hlen]; exact lt_of_getElem? hr
  obtain ⟨r', hr', _, htr, hex, hen, _⟩ := hrows i hi
  rw [hr] at hr'; cases hr'
  exact ⟨by rw [hen, hc]; omega, Or.inl ⟨htr, hex⟩⟩

/-- over a whole run -/
theorem exit_after_entrance (B : Blk) (cfg : Config) (hstep : 0 < cfg.step) (n : Nat) (s0 s : State)
    (h0 : initPopB B cfg = .ok s0) (h : iterWhole B cfg n s0 = .ok s) : TimedAt s := by
  have key : ∀ (n : Nat) (a b : State), TimedAt a → iterWhole B cfg n a = .ok b → TimedAt b := by
    intro n
    induction n with
    | zero => intro a b ha hab; cases hab; exact ha
    | succ n ih =>
      intro a b ha hab
      unfold iterWhole at hab
      split at hab
      · rename_i a1 h1
        exact ih a1 b (step_timed B cfg hstep a a1 ha h1) hab
      · cases hab
  exact key n s0 s (initPop_timed B cfg hstep s0 h0) h

/-- **the exit time is the event time of the step**: whoever is untracked after a step either was untracked
before it (and is unchanged) or carries `exit = ` the new clock `= clock + step` – for simulants born during that
very step as well -/
theorem exit_is_event_time (B : Blk) (cfg : Config) (s s' : State) (h : stepWhole B cfg s = .ok s')
    (i : Nat) (r' : Row) (hr' : s'.rows[i]? = some r') (hu : r'.tracked = false) :
    (s.rows[i]? = some r') ∨ r'.exit = some s'.clock := by
  let I : State → Prop := fun x => x.clock = s.clock ∧
    ∀ (i : Nat) (r' : Row), x.rows[i]? = some r' → r'.tracked = false →
      (s.rows[i]? = some r') ∨ r'.exit = some (s.clock + cfg.step)
  have hk : Kept B cfg I := by
    intro x x' ⟨hc, hx⟩ hr
    refine ⟨hr.clock.trans hc, fun i r' hr' hu => ?_⟩
    rcases Nat.lt_or_ge i x.rows.length with hlt | hge
    · have hri : x.rows[i]? = some x.rows[i] := by simp [hlt]
      obtain ⟨r'', hr'', hev⟩ := hr.old i _ hri
      rw [hr'] at hr''; cases hr''
      rcases hev with h | ⟨htr, y, h⟩ | ⟨htr, h⟩
      · rw [h] at hu ⊢; exact hx i _ hri hu
      · rw [h] at hu; simp [htr] at hu
      · right; rw [h, hc]
    · obtain ⟨htr, _⟩ := hr.new i r' hr' hge
      rw [htr] at hu; cases hu
  obtain ⟨s1, ⟨hc1, h1⟩, _, rfl⟩ := step_inv B cfg I hk s s' ⟨rfl, fun i r' hr' hu => Or.inl hr'⟩ h
  rcases h1 i r' hr' hu with h | h
  · exact Or.inl h
  · right; rw [h]; show _ = some (s1.clock + cfg.step); rw [hc1]

/-! ### the index map over a whole run; common random numbers for every simulant -/

/-- the index map of a run: block size and CRN flag as configured; C03's invariant (keys distinct, positions
distinct and inside the block); every registered simulant is a row of the table, registered once -/
def MapInv (cfg : Config) (s : State) : Prop :=
  s.imap.size = blockSize cfg ∧ s.imap.useCrn = !cfg.keyCols.isEmpty ∧ Viv.Props.C03.IMapInv s.imap ∧
  ∀ m, s.imap.map = some m →
    (m.map (·.sim)).Nodup ∧ ∀ e ∈ m, ∃ i : Nat, e.sim = (i : Int) ∧ i < s.rows.length

theorem imap_update_ok_cases (h : IndexMap.Key → IndexMap.Salt → Nat) (fuel : Nat) (im im' : IndexMap.IMap)
    (batch : List (Int × IndexMap.Key)) (t : IndexMap.Salt) (e : im.update h fuel batch t = (im', .ok ())) :
    im' = im ∨ ∃ m', (batch.isEmpty || !im.useCrn) = false ∧
      IndexMap.update h fuel (im.map.getD []) batch t = .ok m' ∧ im' = { im with map := some m' } := by
  unfold IndexMap.IMap.update at e
  split at e
  · simp only [Prod.mk.injEq] at e; exact Or.inl e.1.symm
  · rename_i hc
    split at e
    · rename_i m' hx
      simp only [Prod.mk.injEq] at e
      exact Or.inr ⟨m', by simpa using hc, hx, e.1.symm⟩
    · simp only [Prod.mk.injEq] at e
      cases e.2

theorem batchOf_sims (B : Blk) (cfg : Config) (site : String) (t : Int) (labels : List Nat) :
    (batchOf B cfg site t labels).map (·.1) = labels.map fun (l : Nat) => (l : Int) := by
  unfold batchOf
  rw [List.map_map]
  have : ((fun x : Int × IndexMap.Key => x.1) ∘ fun lk : Nat × Nat => ((lk.1 : Int), keyTuple cfg t lk.2)) =
      (fun l : Nat => (l : Int)) ∘ Prod.fst := rfl
  rw [this, ← List.map_map, List.map_fst_zip (by simp)]

theorem getElem?_batchOf (B : Blk) (cfg : Config) (site : String) (t : Int) (labels : List Nat) (j l : Nat)
    (hl : labels[j]? = some l) :
    (batchOf B cfg site t labels)[j]? = some ((l : Int), keyTuple cfg t (crnKey B cfg site t j)) := by
  unfold batchOf
  have hj := lt_of_getElem? hl
  have hz : (labels.zip ((List.range labels.length).map (crnKey B cfg site t)))[j]? =
      some (l, crnKey B cfg site t j) := by
    rw [List.getElem?_zip_eq_some]
    exact ⟨hl, by simp [List.getElem?_range hj]⟩
  rw [List.getElem?_map, hz]
  rfl

theorem mem_batchOf (B : Blk) (cfg : Config) (site : String) (t : Int) (labels : List Nat)
    (x : Int × IndexMap.Key) (hx : x ∈ batchOf B cfg site t labels) :
    ∃ (j l : Nat), labels[j]? = some l ∧ x = ((l : Int), keyTuple cfg t (crnKey B cfg site t j)) := by
  obtain ⟨j, hj⟩ := List.mem_iff_getElem?.mp hx
  have hjl : j < labels.length := by
    have := lt_of_getElem? hj
    simpa [batchOf] using this
  have hl : labels[j]? = some labels[j] := by simp [hjl]
  rw [getElem?_batchOf B cfg site t labels j _ hl] at hj
  exact ⟨j, _, hl, (Option.some.inj hj).symm⟩

theorem ActRel.length_le {B : Blk} {cfg : Config} {t : Int} {s s' : State} (hr : ActRel B cfg t s s') :
    s.rows.length ≤ s'.rows.length :=
  Ext.length_le (a := s) (b := s') fun i r h => let ⟨r', h', e⟩ := hr.old i r h; ⟨r', h', e.frozen⟩

/-- **the index map's invariant is kept by every listener call** (C03's `update_inv` composed with the creation of
fresh labels): at every point of a run where a listener starts, the map is injective, in range, and holds exactly
one row per registered simulant -/
theorem mapInv_kept (B : Blk) (cfg : Config) (hsize : 0 < blockSize cfg) :
    Kept B cfg (fun s => Good B cfg s ∧ MapInv cfg s) := by
  intro s s' ⟨hg, hsz, hcrn, hI, hsims⟩ hr
  refine ⟨good_kept B cfg s s' hg hr, ?_⟩
  have hlen := hr.length_le
  have same : s'.imap = s.imap → MapInv cfg s' := by
    intro heq
    unfold MapInv
    rw [heq]
    refine ⟨hsz, hcrn, hI, fun m hm => ⟨(hsims m hm).1, fun e he => ?_⟩⟩
    obtain ⟨i, h1, h2⟩ := (hsims m hm).2 e he
    exact ⟨i, h1, by omega⟩
  rcases hr.imap with heq | ⟨site, labels, _, hlab, hupd⟩
  · exact same heq
  · rcases imap_update_ok_cases _ _ _ _ _ _ hupd with heq | ⟨m', _, hx, heq⟩
    · exact same heq
    · have hl := hlab (good_lab hg)
      have hold : Viv.Props.C03.Inv (blockSize cfg) (s.imap.map.getD []) := by
        rw [← hsz]
        cases hm : s.imap.map with
        | none => exact Viv.Props.C03.inv_nil _
        | some m => exact hI m hm
      have hI' := Viv.Props.C03.update_inv (IndexMap.hashPos (blockSize cfg)) (blockSize cfg) cfg.fuel
        (fun k x => Viv.Props.C03.hashPos_lt _ k x hsize) _ _ _ m' hold hx
      obtain ⟨res, newE, _, _, hperm, hrows, _⟩ :=
        IndexMap.update_ok_spec _ cfg.fuel _ _ _ m' hold.2.1 hx
      have hnew : newE.map (·.sim) = labels.map fun (l : Nat) => (l : Int) := by
        rw [← batchOf_sims B cfg site s.clock labels, ← hrows, List.map_map]
        rfl
      have holdsims : ((s.imap.map.getD []).map (·.sim)).Nodup ∧
          ∀ e ∈ s.imap.map.getD [], ∃ i : Nat, e.sim = (i : Int) ∧ i < s.rows.length := by
        cases hm : s.imap.map with
        | none => simp
        | some m => exact hsims m hm
      unfold MapInv
      rw [heq]
      refine ⟨hsz, hcrn, ?_, ?_⟩
      · intro m hm
        simp only [Option.some.injEq] at hm
        subst hm
        rw [hsz]; exact hI'
      · intro m hm
        simp only [Option.some.injEq] at hm
        subst hm
        have hps := hperm.map (·.sim)
        rw [List.map_append, hnew, hl] at hps
        constructor
        · rw [hps.nodup_iff, List.nodup_append]
          refine ⟨holdsims.1, ?_, ?_⟩
          · rw [List.nodup_iff_pairwise_ne, List.pairwise_map]
            exact (List.pairwise_lt_range' (s := s.rows.length) (n := s'.rows.length - s.rows.length) 1).imp
              (fun {a b} hab heq => by have : a = b := Int.ofNat.inj heq; omega)
          · intro a ha b hb hab
            obtain ⟨e, he, rfl⟩ := List.mem_map.mp ha
            obtain ⟨i, hi1, hi2⟩ := holdsims.2 e he
            obtain ⟨l, hl1, rfl⟩ := List.mem_map.mp hb
            rw [List.mem_range'_1] at hl1
            rw [hi1] at hab
            have : i = l := Int.ofNat.inj hab
            omega
        · intro e he
          have : e.sim ∈ m'.map (·.sim) := List.mem_map_of_mem (f := (·.sim)) he
          rw [hps.mem_iff, List.mem_append] at this
          rcases this with h1 | h1
          · obtain ⟨e0, he0, heq0⟩ := List.mem_map.mp h1
            obtain ⟨i, hi1, hi2⟩ := holdsims.2 e0 he0
            exact ⟨i, by rw [← heq0]; exact hi1, by omega⟩
          · obtain ⟨l, hl1, hl2⟩ := List.mem_map.mp h1
            rw [List.mem_range'_1] at hl1
            exact ⟨l, hl2.symm, by omega⟩

theorem mapInv_initState (cfg : Config) : MapInv cfg (initState cfg) := by
  refine ⟨rfl, rfl, ?_, ?_⟩
  · intro m hm; simp [initState] at hm
  · intro m hm; simp [initState] at hm

/-- the invariants at every state a listener call starts from, over a whole run -/
theorem run_mapInv (B : Blk) (cfg : Config) (hsize : 0 < blockSize cfg) (n : Nat) (s0 s : State)
    (h0 : initPopB B cfg = .ok s0) (h : iterWhole B cfg n s0 = .ok s) : Good B cfg s ∧ MapInv cfg s := by
  have hclk : ∀ (x : State) (c : Int), (Good B cfg x ∧ MapInv cfg x) → (Good B cfg { x with clock := c } ∧ MapInv cfg { x with clock := c }) :=
    fun _ _ h => h
  apply iter_inv_rows B cfg _ (mapInv_kept B cfg hsize) hclk n s0 s _ h
  unfold initPopB at h0
  split at h0
  · rename_i s1 h1
    cases h0
    have hr := create_rel B cfg ((initState cfg).clock + cfg.step) _ _ _ s1 h1
    exact hclk _ _ (mapInv_kept B cfg hsize _ s1 ⟨good_initState B cfg, mapInv_initState cfg⟩ hr)
  · cases h0

/-- **positions are injective, in range and stable over a whole run** (C03 at the level of the simulation): with key
columns configured, after the initial creation and any number of steps no two registered simulants share a position
of the random block and every position is inside the block -/
theorem run_positions_injective (B : Blk) (cfg : Config) (hsize : 0 < blockSize cfg) (n : Nat) (s0 s : State)
    (h0 : initPopB B cfg = .ok s0) (h : iterWhole B cfg n s0 = .ok s) (m : List IndexMap.Entry)
    (hm : s.imap.map = some m) :
    (m.map (·.pos)).Nodup ∧ (m.map (·.key)).Nodup ∧ (m.map (·.sim)).Nodup ∧ ∀ e ∈ m, e.pos < blockSize cfg := by
  obtain ⟨_, hsz, _, hI, hsims⟩ := run_mapInv B cfg hsize n s0 s h0 h
  obtain ⟨h1, h2, h3⟩ := hI m hm
  exact ⟨h2, h1, (hsims m hm).1, fun e he => by rw [← hsz]; exact h3 e he⟩

/-- one weight row for everybody: `choice` decides simulant by simulant, from its own draw at its own position -/
theorem choiceStream_oneD (blk : String → Nat → Nat → Nat) (size : Nat) (pos : Nat → Option Nat) (ks : String)
    (a b : Nat) (labels sexes : List Nat)
    (h : Stream.choiceStream blk size pos ks 16 2 (.oneD [.val a, .val b]) labels = .ok sexes)
    (j l : Nat) (hl : labels[j]? = some l) :
    ∃ p, pos l = some p ∧ sexes[j]? = some (Stream.choiceIdx [a, b] (blk ks size p) (2 ^ 53)) := by
  unfold Stream.choiceStream at h
  split at h
  · cases h
  · rename_i ds hds
    have hpw := (Viv.Props.C02.getDraw_pointwise blk size pos ks labels ds).mp hds
    have hdj : (labels.map (Viv.Props.C02.drawOf blk size pos ks))[j]? = (ds.map some)[j]? := by rw [hpw]
    rw [List.getElem?_map, hl, List.getElem?_map] at hdj
    simp only [Option.map_some, Viv.Props.C02.drawOf] at hdj
    cases hp : pos l with
    | none =>
      rw [hp] at hdj
      cases hd : ds[j]? with
      | none => simp [hd] at hdj
      | some d => simp [hd] at hdj
    | some p =>
      rw [hp] at hdj
      refine ⟨p, rfl, ?_⟩
      cases hd : ds[j]? with
      | none => simp [hd] at hdj
      | some d =>
        simp only [hd, Option.map_some, Option.some.injEq] at hdj
        obtain ⟨rows, hrows, hidx⟩ := Viv.Props.C05.choice_pointwise 16 2 _ _ _ sexes h
        have hrows' : rows = List.replicate ds.length [a, b] := by
          simp only [Stream.normalizeShape, List.length_map, List.map_replicate] at hrows
          unfold Stream.alignRows at hrows
          simp only [List.length_replicate, ↓reduceIte] at hrows
          cases hrows
          simp [Stream.spell, Stream.rowSum, Stream.Cell.num]
        rw [hidx, hrows', List.getElem?_zipWith, List.getElem?_replicate, List.getElem?_map, hd]
        have hj : j < ds.length := lt_of_getElem? hd
        simp only [hj, ↓reduceIte, Option.map_some]
        rw [← hdj]

set_option maxRecDepth 20000 in
/-- **Common random numbers for a newborn (and for the initial population).** In ANY state a listener call can start
from (any population, any earlier registrations), a creation at clock `t` from site `site`: if the first hashed
position `p₀` of the `j`-th new simulant's key tuple is used neither by an earlier simulant nor by another key of the
same batch, the simulant is registered at `p₀` and its `sex` is decided by the draw at `p₀` of the block of
`wpop_sex_<t>_sex_<seed>`: a function of (seed, block size, clock, key tuple, sex ratio) and of NOTHING else –
not of the labels, the batch, the other simulants, births, mortality, machine, order or priorities. -/
theorem newborn_sex_crn (B : Blk) (cfg : Config) (hsize : 0 < blockSize cfg) (site : String) (k : Nat) (s s' : State)
    (hg : Good B cfg s) (hm : MapInv cfg s) (hcrn : cfg.keyCols ≠ [])
    (h : create B cfg site k s = .ok s') (j : Nat) (hj : j < k)
    (hfree : ∀ m, s.imap.map = some m →
      IndexMap.hashPos (blockSize cfg) (keyTuple cfg s.clock (crnKey B cfg site s.clock j)) (.int s.clock) ∉ m.map (·.pos))
    (hunshared : ∀ j', j' < k →
      keyTuple cfg s.clock (crnKey B cfg site s.clock j') ≠ keyTuple cfg s.clock (crnKey B cfg site s.clock j) →
      IndexMap.hashPos (blockSize cfg) (keyTuple cfg s.clock (crnKey B cfg site s.clock j')) (.int s.clock) ≠
        IndexMap.hashPos (blockSize cfg) (keyTuple cfg s.clock (crnKey B cfg site s.clock j)) (.int s.clock)) :
    posOf s'.imap (s.rows.length + j) =
      some (IndexMap.hashPos (blockSize cfg) (keyTuple cfg s.clock (crnKey B cfg site s.clock j)) (.int s.clock)) ∧
    ∃ r, s'.rows[s.rows.length + j]? = some r ∧
      r.sex = Stream.choiceIdx [cfg.sexW, 16 - cfg.sexW]
        ((B (seedStr cfg "wpop_sex" s.clock "sex") (blockSize cfg))[IndexMap.hashPos (blockSize cfg)
          (keyTuple cfg s.clock (crnKey B cfg site s.clock j)) (.int s.clock)]?.getD 0) (2 ^ 53) := by
  obtain ⟨hsz, huse, hI, hsims⟩ := hm
  have hlab := good_lab hg
  have hlabels : newLabels s.rows k = List.range' s.rows.length k := newLabels_fresh s hlab k
  rcases create_full B cfg site k s s' h with ⟨hnil, _⟩ | ⟨im, sexes, sts, ages, hne, himap, hsex, rfl⟩
  · rw [hlabels] at hnil
    have : (List.range' s.rows.length k).length = 0 := by rw [hnil]; rfl
    simp at this; omega
  · rw [hlabels] at himap hsex
    simp only [hlabels, List.length_range']
    have hlj : (List.range' s.rows.length k)[j]? = some (s.rows.length + j) := by
      rw [List.getElem?_range' hj]; simp
    -- the update really happened
    have huc : s.imap.useCrn = true := by
      rw [huse]
      cases hk : cfg.keyCols with
      | nil => exact absurd hk hcrn
      | cons a as => rfl
    rcases imap_update_ok_cases _ _ _ _ _ _ himap with heq | ⟨m', _, hx, heq⟩
    · -- impossible: the batch is not empty and CRN is in use
      exfalso
      unfold IndexMap.IMap.update at himap
      have hbne : (batchOf B cfg site s.clock (List.range' s.rows.length k)).isEmpty = false := by
        have := getElem?_batchOf B cfg site s.clock _ j _ hlj
        cases hb : batchOf B cfg site s.clock (List.range' s.rows.length k) with
        | nil => rw [hb] at this; simp at this
        | cons a as => rfl
      simp only [hbne, huc, Bool.not_true, Bool.or_self, Bool.false_eq_true, ↓reduceIte] at himap
      split at himap
      · rename_i m'' hx''
        simp only [Prod.mk.injEq] at himap
        have := himap.1
        rw [heq] at this
        -- the map would have to be unchanged although it now holds the new simulant
        have hold : Viv.Props.C03.Inv (blockSize cfg) (s.imap.map.getD []) := by
          rw [← hsz]
          cases hmm : s.imap.map with
          | none => exact Viv.Props.C03.inv_nil _
          | some m => exact hI m hmm
        have hreg := (Viv.Props.C03.update_registers_batch _ cfg.fuel _ _ _ m'' hold.2.1 hx'').2.2
          (((s.rows.length + j : Nat) : Int), keyTuple cfg s.clock (crnKey B cfg site s.clock j))
          (List.mem_iff_getElem?.mpr ⟨j, getElem?_batchOf B cfg site s.clock _ j _ hlj⟩)
        obtain ⟨p, hp⟩ := hreg
        have hmap : s.imap.map = some m'' := by rw [← this]
        obtain ⟨i, hi1, hi2⟩ := (hsims m'' hmap).2 _ hp
        simp only at hi1
        have : s.rows.length + j = i := Int.ofNat.inj hi1
        omega
      · simp only [Prod.mk.injEq] at himap
        cases himap.2
    · have hold : Viv.Props.C03.Inv (blockSize cfg) (s.imap.map.getD []) := by
        rw [← hsz]
        cases hmm : s.imap.map with
        | none => exact Viv.Props.C03.inv_nil _
        | some m => exact hI m hmm
      -- C04: the key keeps its first hash
      have hin : (((s.rows.length + j : Nat) : Int), keyTuple cfg s.clock (crnKey B cfg site s.clock j)) ∈
          batchOf B cfg site s.clock (List.range' s.rows.length k) :=
        List.mem_iff_getElem?.mpr ⟨j, getElem?_batchOf B cfg site s.clock _ j _ hlj⟩
      have hfree' : IndexMap.hashPos (blockSize cfg) (keyTuple cfg s.clock (crnKey B cfg site s.clock j)) (.int s.clock) ∉
          (s.imap.map.getD []).map (·.pos) := by
        cases hmm : s.imap.map with
        | none => simp
        | some m => exact hfree m hmm
      have hmem := Viv.Props.C04.noncolliding_keeps_hash _ cfg.fuel _ _ _ _ _ m' hold.2.1 hin hfree'
        (by
          intro r hr hne'
          obtain ⟨j', l, hl', rfl⟩ := mem_batchOf B cfg site s.clock _ r hr
          have hj' : j' < k := by have := lt_of_getElem? hl'; simpa using this
          exact hunshared j' hj' hne') hx
      -- sims are distinct in the new map (the invariant is kept by this very creation)
      have hkept := mapInv_kept B cfg hsize s _ ⟨hg, hsz, huse, hI, hsims⟩
        (create_rel B cfg (s.clock + cfg.step) site k s _ h)
      have hsims' := (hkept.2.2.2.2 m' (by rw [heq])).1
      have hpos : posOf im (s.rows.length + j) = some (IndexMap.hashPos (blockSize cfg)
          (keyTuple cfg s.clock (crnKey B cfg site s.clock j)) (.int s.clock)) := by
        unfold posOf
        rw [heq]
        simp only [huc, ↓reduceIte]
        exact IndexMap.posOfSim_of_mem m' hsims' _ hmem
      refine ⟨hpos, ?_⟩
      obtain ⟨p, hp, hsx⟩ := choiceStream_oneD _ _ _ _ _ _ _ sexes hsex j _ hlj
      rw [hpos] at hp
      cases hp
      rw [List.getElem?_append_right (by omega), getElem?_mkRows]
      have : s.rows.length + j - s.rows.length = j := by omega
      rw [this, hlj]
      refine ⟨_, rfl, ?_⟩
      have e : ∀ (arr : Array Nat) (ks : String) (sz q : Nat), RandomBlock.memoBlk arr ks sz q = arr[q]?.getD 0 :=
        fun _ _ _ _ => rfl
      show sexes.getD j 0 = _
      rw [List.getD_eq_getElem?_getD, hsx, e]
      exact Option.getD_some

/-- **Two whole simulations side by side.** Two configurations that agree on what identifies the randomness (seed, block
size, key columns and their representation, key bits, sex ratio) and are otherwise ARBITRARY (births in any channel,
mortality, machine, order, priorities, population size); in each, any state a listener call can start from (any
history), at the same clock time; in each a creation (any site, any batch size) in which some simulant gets the same
`key` value. If in both simulations that key's first hashed position is free and unshared (the documented exception
of the property), the two simulants – whatever their labels – sit at the same position of the random block and have
the same `sex`. -/
theorem crn_sex_pair (B : Blk) (c1 c2 : Config) (hsize : 0 < blockSize c1)
    (hseed : c1.seed = c2.seed) (hbs : blockSize c1 = blockSize c2) (hkc : c1.keyCols = c2.keyCols)
    (hkf : c1.keyFloat = c2.keyFloat) (hkb : c1.keyBits = c2.keyBits) (hsw : c1.sexW = c2.sexW)
    (hcrn : c1.keyCols ≠ [])
    (site1 site2 : String) (k1 k2 : Nat) (a a' b b' : State)
    (hga : Good B c1 a) (hma : MapInv c1 a) (hgb : Good B c2 b) (hmb : MapInv c2 b) (hclock : a.clock = b.clock)
    (ha : create B c1 site1 k1 a = .ok a') (hb : create B c2 site2 k2 b = .ok b')
    (j1 j2 : Nat) (hj1 : j1 < k1) (hj2 : j2 < k2)
    (hsame : crnKey B c1 site1 a.clock j1 = crnKey B c2 site2 b.clock j2)
    (hfree1 : ∀ m, a.imap.map = some m →
      IndexMap.hashPos (blockSize c1) (keyTuple c1 a.clock (crnKey B c1 site1 a.clock j1)) (.int a.clock) ∉ m.map (·.pos))
    (hfree2 : ∀ m, b.imap.map = some m →
      IndexMap.hashPos (blockSize c2) (keyTuple c2 b.clock (crnKey B c2 site2 b.clock j2)) (.int b.clock) ∉ m.map (·.pos))
    (hun1 : ∀ j', j' < k1 →
      keyTuple c1 a.clock (crnKey B c1 site1 a.clock j') ≠ keyTuple c1 a.clock (crnKey B c1 site1 a.clock j1) →
      IndexMap.hashPos (blockSize c1) (keyTuple c1 a.clock (crnKey B c1 site1 a.clock j')) (.int a.clock) ≠
        IndexMap.hashPos (blockSize c1) (keyTuple c1 a.clock (crnKey B c1 site1 a.clock j1)) (.int a.clock))
    (hun2 : ∀ j', j' < k2 →
      keyTuple c2 b.clock (crnKey B c2 site2 b.clock j') ≠ keyTuple c2 b.clock (crnKey B c2 site2 b.clock j2) →
      IndexMap.hashPos (blockSize c2) (keyTuple c2 b.clock (crnKey B c2 site2 b.clock j')) (.int b.clock) ≠
        IndexMap.hashPos (blockSize c2) (keyTuple c2 b.clock (crnKey B c2 site2 b.clock j2)) (.int b.clock)) :
    posOf a'.imap (a.rows.length + j1) = posOf b'.imap (b.rows.length + j2) ∧
    ∃ ra rb, a'.rows[a.rows.length + j1]? = some ra ∧ b'.rows[b.rows.length + j2]? = some rb ∧
      ra.sex = rb.sex ∧ ra.key = rb.key ∧ ra.entrance = rb.entrance := by
  obtain ⟨p1, ra, hra, hsa⟩ := newborn_sex_crn B c1 hsize site1 k1 a a' hga hma hcrn ha j1 hj1 hfree1 hun1
  obtain ⟨p2, rb, hrb, hsb⟩ := newborn_sex_crn B c2 (hbs ▸ hsize) site2 k2 b b' hgb hmb (hkc ▸ hcrn) hb j2 hj2 hfree2 hun2
  obtain ⟨ra', hra', _, hea, hka, _⟩ := newborn_key_positional B c1 site1 k1 a a' ha (good_lab hga) j1 hj1
  obtain ⟨rb', hrb', _, heb, hkb', _⟩ := newborn_key_positional B c2 site2 k2 b b' hb (good_lab hgb) j2 hj2
  rw [hra] at hra'; cases hra'
  rw [hrb] at hrb'; cases hrb'
  have hsame' := hsame
  rw [hclock] at hsame'
  have hkt : keyTuple c1 a.clock (crnKey B c1 site1 a.clock j1) = keyTuple c2 b.clock (crnKey B c2 site2 b.clock j2) := by
    simp only [keyTuple, keyVal, hkc, hkf, hkb, hclock, hsame']
  refine ⟨by rw [p1, p2, hkt, hbs, hclock], ra, rb, hra, hrb, ?_, by rw [hka, hkb', hsame], by rw [hea, heb, hclock]⟩
  rw [hsa, hsb, hkt, hbs, hclock, hsw]
  simp only [seedStr, hseed]

/-! ### the states a listener call can start from -/

/-- the states of a run of `cfg` at the granularity of listener calls: the state before the initial creation, whatever
a listener call (or the initial creation) leaves when started in such a state at event time `clock + step`, and the
same with the clock moved (`step_forward`) -/
inductive Reach (B : Blk) (cfg : Config) : State → Prop
  | init : Reach B cfg (initState cfg)
  | act (s s' : State) : Reach B cfg s → ActRel B cfg (s.clock + cfg.step) s s' → Reach B cfg s'
  | tick (s : State) (c : Int) : Reach B cfg s → Reach B cfg { s with clock := c }

/-- every such state satisfies the invariants the CRN theorems (`newborn_sex_crn`, `crn_sex_pair`) ask for -/
theorem reach_inv (B : Blk) (cfg : Config) (hsize : 0 < blockSize cfg) (s : State) (h : Reach B cfg s) :
    Good B cfg s ∧ MapInv cfg s := by
  induction h with
  | init => exact ⟨good_initState B cfg, mapInv_initState cfg⟩
  | act s s' _ hr ih => exact mapInv_kept B cfg hsize s s' ih hr
  | tick s c _ ih => exact ih

theorem reach_kept (B : Blk) (cfg : Config) : Kept B cfg (Reach B cfg) := fun s s' h hr => Reach.act s s' h hr

/-- the state after the initial creation and after every step of a run is such a state … -/
theorem run_reach (B : Blk) (cfg : Config) (n : Nat) (s0 s : State) (h0 : initPopB B cfg = .ok s0)
    (h : iterWhole B cfg n s0 = .ok s) : Reach B cfg s := by
  apply iter_inv_rows B cfg _ (reach_kept B cfg) (fun x c hx => Reach.tick x c hx) n s0 s _ h
  unfold initPopB at h0
  split at h0
  · rename_i s1 h1
    cases h0
    exact Reach.tick _ _ (Reach.act _ s1 Reach.init (create_rel B cfg _ _ _ _ s1 h1))
  · cases h0

theorem runListeners_append (B : Blk) (cfg : Config) (ph : Nat) (evIdx : List Nat) (t : Int) :
    ∀ (pre post : List Ev.Reg) (s s' : State), runListeners B cfg ph evIdx t (pre ++ post) s = .ok s' →
      ∃ mid, runListeners B cfg ph evIdx t pre s = .ok mid ∧ runListeners B cfg ph evIdx t post mid = .ok s' := by
  intro pre
  induction pre with
  | nil => intro post s s' h; exact ⟨s, rfl, h⟩
  | cons r pre ih =>
    intro post s s' h
    rw [List.cons_append] at h
    unfold runListeners at h
    split at h
    · rename_i s1 h1
      obtain ⟨mid, hm1, hm2⟩ := ih post s1 s' h
      refine ⟨mid, ?_, hm2⟩
      show runListeners B cfg ph evIdx t (r :: pre) s = .ok mid
      unfold runListeners
      rw [h1]
      exact hm1
    · cases h

/-- … and so is the state EVERY listener call of an event starts from: if an event is emitted in such a state, then
for every split of its listeners into those already called and those still to call, the state in between is one too
(same clock) – in particular the state in which a births listener calls the creator -/
theorem listener_starts_reach (B : Blk) (cfg : Config) (ph : Nat) (s s' : State) (hs : Reach B cfg s)
    (h : emit B cfg ph s = .ok s') (pre post : List Ev.Reg)
    (hsplit : Ev.emitOrder Gen.nBuckets (regs cfg ph) = pre ++ post) :
    ∃ mid, Reach B cfg mid ∧ mid.clock = s.clock ∧
      runListeners B cfg ph (s.rows.map (·.label)) (s.clock + cfg.step) post mid = .ok s' := by
  unfold emit at h
  rw [hsplit] at h
  obtain ⟨mid, hm1, hm2⟩ := runListeners_append B cfg ph _ _ pre post s s' h
  obtain ⟨hr, hc⟩ := runListeners_inv B cfg _ (reach_kept B cfg) ph _ _ pre s mid hs rfl hm1
  exact ⟨mid, hr, hc, hm2⟩

/-! ### the size of the population in closed form -/

/-- the schedule entry `births[(clock - start) // step][channel]` (0 outside the schedule) -/
def birthsAt (cfg : Config) (clock : Int) (ph : Nat) : Nat :=
  if 0 ≤ (clock - cfg.start) / cfg.step then
    match cfg.births[((clock - cfg.start) / cfg.step).toNat]? with
    | some row => row.getD ph 0
    | none => 0
  else 0

theorem births_length (B : Blk) (cfg : Config) (ph : Nat) (s s' : State) (hl : Lab s)
    (h : births B cfg ph s = .ok s') : s'.rows.length = s.rows.length + birthsAt cfg s.clock ph := by
  unfold births at h
  unfold birthsAt
  simp only at h
  split at h
  · rename_i hsn
    simp only [hsn, ↓reduceIte]
    split at h
    · rename_i row hrow
      rw [hrow]
      obtain ⟨_, _, _, _, _, _, hrows⟩ := create_spec B cfg _ _ s s' h
      rw [hrows, List.length_append, length_mkRows, newLabels_fresh s hl, List.length_range']
    · rename_i hnone
      cases h
      rw [hnone]; rfl
  · rename_i hsn
    cases h
    simp [hsn]

theorem act_length (B : Blk) (cfg : Config) (ph : Nat) (evIdx : List Nat) (evTime : Int) (who : Nat) (s s' : State)
    (hl : Lab s) (h : act B cfg ph evIdx evTime who s = .ok s') :
    s'.rows.length = s.rows.length + (if who = 0 then birthsAt cfg s.clock ph else 0) := by
  unfold act at h
  split at h
  · rename_i hw
    simp only [hw, ↓reduceIte]
    exact births_length B cfg ph s s' hl h
  · rename_i hw
    simp only [hw, ↓reduceIte, Nat.add_zero]
    split at h
    · exact (mort_rel B cfg evIdx evTime s s' h).2.1
    · split at h
      · rw [(observe_rel B cfg evTime ph evIdx evTime s s' h).2.1]
      · exact (disease_rel B cfg evTime evIdx s s' h).2.1

theorem runListeners_length (B : Blk) (cfg : Config) (ph : Nat) (evIdx : List Nat) (t : Int) :
    ∀ (rs : List Ev.Reg) (s s' : State), Good B cfg s → s.clock + cfg.step = t →
      runListeners B cfg ph evIdx t rs s = .ok s' →
      s'.rows.length = s.rows.length + rs.countP (fun r => r.2 == 0) * birthsAt cfg s.clock ph := by
  intro rs
  induction rs with
  | nil => intro s s' _ _ h; cases h; simp
  | cons r rs ih =>
    intro s s' hg ht h
    unfold runListeners at h
    split at h
    · rename_i s1 h1
      have hr := act_rel B cfg ph evIdx t r.2 s s1 h1
      have g1 : Good B cfg s1 := good_kept B cfg s s1 hg (by rw [ht]; exact hr)
      have l1 := act_length B cfg ph evIdx t r.2 s s1 (good_lab hg) h1
      rw [ih s1 s' g1 (by rw [hr.clock]; exact ht) h, l1, hr.clock, List.countP_cons]
      by_cases hw : r.2 = 0
      · simp only [hw, ↓reduceIte, beq_self_eq_true, Nat.add_mul, Nat.one_mul]; omega
      · have : (r.2 == 0) = false := by simpa using hw
        simp only [hw, ↓reduceIte, this, Bool.false_eq_true, Nat.add_zero]
    · cases h

/-- how many of the registrations on a channel are WPop's births listener: once per occurrence of WPop in the
component list -/
theorem regs_births_count (cfg : Config) (ph : Nat) :
    (regs cfg ph).countP (fun r => r.2 == 0) = cfg.order.count 0 := by
  unfold regs
  rw [List.countP_cons_of_neg (by simp)]
  induction cfg.order with
  | nil => rfl
  | cons c cs ih =>
    rw [List.flatMap_cons, List.countP_append, ih, List.count_cons]
    rw [Nat.add_comm]
    congr 1
    by_cases h0 : c = 0
    · simp [h0]
    · by_cases h1 : c = 1
      · by_cases hm : cfg.mortPhase = ph <;> simp [h1, hm]
      · by_cases h2 : c = 2
        · by_cases hd : cfg.disPhase = ph <;> simp [h2, hd]
        · simp [h0, h1, h2]

/-- every listener's priority is one of the channel's buckets (what `register_listener` requires) -/
def PriosOk (cfg : Config) : Prop :=
  (∀ ph, cfg.birthPrio.getD ph 5 < Gen.nBuckets) ∧ cfg.mortPrio < Gen.nBuckets ∧ cfg.disPrio < Gen.nBuckets

theorem regs_prio_lt (cfg : Config) (hp : PriosOk cfg) (ph : Nat) : ∀ r ∈ regs cfg ph, r.1 < Gen.nBuckets := by
  intro r hr
  unfold regs at hr
  rw [List.mem_cons] at hr
  rcases hr with hr | hr
  · rw [hr]; decide
  rw [List.mem_flatMap] at hr
  obtain ⟨c, _, hc⟩ := hr
  split at hc
  · simp only [List.mem_singleton] at hc; rw [hc]; exact hp.1 ph
  · split at hc
    · split at hc
      · simp only [List.mem_singleton] at hc; rw [hc]; exact hp.2.1
      · cases hc
    · split at hc
      · split at hc
        · simp only [List.mem_singleton] at hc; rw [hc]; exact hp.2.2
        · cases hc
      · cases hc

/-- one event: every registered listener is called exactly once (C08's `emit_perm`), so the table grows by the
schedule entry of this channel once per births listener -/
theorem emit_length (B : Blk) (cfg : Config) (hp : PriosOk cfg) (ph : Nat) (s s' : State) (hg : Good B cfg s)
    (h : emit B cfg ph s = .ok s') :
    s'.rows.length = s.rows.length + cfg.order.count 0 * birthsAt cfg s.clock ph := by
  unfold emit at h
  rw [runListeners_length B cfg ph _ _ _ s s' hg rfl h,
    (Viv.Props.C08.emit_perm Gen.nBuckets (regs cfg ph) (regs_prio_lt cfg hp ph)).countP_eq, regs_births_count]

/-- the simulants the schedule creates during the step that starts at `clock` -/
def scheduledAt (cfg : Config) (clock : Int) : Nat :=
  birthsAt cfg clock 0 + birthsAt cfg clock 1 + birthsAt cfg clock 2 + birthsAt cfg clock 3

theorem runPhases_length (B : Blk) (cfg : Config) (hp : PriosOk cfg) :
    ∀ (phs : List Nat) (s s' : State), Good B cfg s → runPhases B cfg phs s = .ok s' →
      s'.rows.length = s.rows.length + cfg.order.count 0 * (phs.map (birthsAt cfg s.clock)).sum := by
  intro phs
  induction phs with
  | nil => intro s s' _ h; cases h; simp
  | cons ph phs ih =>
    intro s s' hg h
    unfold runPhases at h
    split at h
    · rename_i s1 h1
      have k1 := runListeners_inv B cfg _ (good_kept B cfg) ph _ _ _ s s1 hg rfl h1
      rw [ih s1 s' k1.1 h, emit_length B cfg hp ph s s1 hg h1, k1.2, List.map_cons, List.sum_cons, Nat.mul_add]
      omega
    · cases h

/-- **one step creates exactly what the schedule says** (times the number of WPop components – 1 in a valid
configuration): every channel is emitted once, every listener called once, every creation hands out exactly `count`
labels -/
theorem step_length (B : Blk) (cfg : Config) (hp : PriosOk cfg) (s s' : State) (hg : Good B cfg s)
    (h : stepWhole B cfg s = .ok s') :
    s'.rows.length = s.rows.length + cfg.order.count 0 * scheduledAt cfg s.clock := by
  unfold stepWhole at h
  split at h
  · rename_i s4 h4
    cases h
    have := runPhases_length B cfg hp _ s s4 hg h4
    simp only [List.map_cons, List.map_nil, List.sum_cons, List.sum_nil, Nat.add_zero] at this
    unfold scheduledAt
    show s4.rows.length = _
    rw [this]
    simp only [Nat.add_assoc]
  · cases h

/-- **the size of the population after `n` steps, in closed form**: `population_size` plus what the schedule says
for the steps starting at `start, start + step, …` – for every successful run of a configuration with one WPop
component and legal priorities. Nothing else (mortality, the machine, the index map, collisions) changes the number
of rows; untracked simulants stay in the table. -/
theorem population_size_closed_form (B : Blk) (cfg : Config) (hp : PriosOk cfg) (hone : cfg.order.count 0 = 1)
    (n : Nat) (s0 s : State) (h0 : initPopB B cfg = .ok s0) (h : iterWhole B cfg n s0 = .ok s) :
    s.rows.length = cfg.pop + ((List.range n).map fun (k : Nat) => scheduledAt cfg (cfg.start + (k : Int) * cfg.step)).sum := by
  have key : ∀ (n : Nat) (a b : State), Good B cfg a → iterWhole B cfg n a = .ok b →
      b.rows.length = a.rows.length + ((List.range n).map fun (k : Nat) => scheduledAt cfg (a.clock + (k : Int) * cfg.step)).sum := by
    intro n
    induction n with
    | zero => intro a b _ hab; cases hab; simp
    | succ n ih =>
      intro a b ha hab
      unfold iterWhole at hab
      split at hab
      · rename_i a1 h1
        have g1 := step_inv_rows B cfg _ (good_kept B cfg) (good_clock B cfg) a a1 ha h1
        rw [ih a1 b g1 hab, step_length B cfg hp a a1 ha h1, hone, step_clock B cfg a a1 h1, Nat.one_mul,
          List.range_succ_eq_map, List.map_cons, List.sum_cons, List.map_map]
        simp only [Int.natCast_zero, Int.zero_mul, Int.add_zero, Nat.add_assoc]
        congr 3
        apply List.map_congr_left
        intro k _
        simp only [Function.comp]
        congr 1
        rw [Int.add_assoc]
        congr 1
        rw [Nat.succ_eq_add_one, Int.natCast_add, Int.add_mul, Int.natCast_one, Int.one_mul, Int.add_comm]
      · cases hab
  obtain ⟨hg, hc⟩ := initPop_good B cfg s0 h0
  rw [key n s0 s hg h, (initial_population B cfg s0 h0).1, hc]

/-- for a positive step size the step that starts at `start + k·step` is step number `k` of the schedule -/
theorem birthsAt_step (cfg : Config) (hstep : 0 < cfg.step) (k ph : Nat) :
    birthsAt cfg (cfg.start + (k : Int) * cfg.step) ph = ((cfg.births[k]?).getD []).getD ph 0 := by
  unfold birthsAt
  have e : (cfg.start + (k : Int) * cfg.step - cfg.start) / cfg.step = (k : Int) := by
    have : cfg.start + (k : Int) * cfg.step - cfg.start = (k : Int) * cfg.step := by omega
    rw [this, Int.mul_ediv_cancel _ (by omega)]
  rw [e]
  simp only [Int.natCast_nonneg, ↓reduceIte, Int.toNat_natCast]
  cases cfg.births[k]? <;> simp

/-! ### the value pipeline of the mortality probability -/

/-- the cells the table holds for a simulant with the attributes `q`, looked up ON ITS OWN -/
def ownCells (t : Lookup.Table) (q : Lookup.Req) : Lookup.Cells :=
  if t.np = 0 then ((Lookup.groupRows t.rows q.keys).head?).map (·.vals)
  else Lookup.interpOne (Lookup.groupRows t.rows q.keys) t.np q.xs

/-- the source value of simulant `l`: the value cell of its own attributes over the table's denominator -/
def srcValue (p : PipeSpec) (t : Lookup.Table) (rows : List Row) (l : Nat) : Rat :=
  ((((ownCells t (reqOf p rows l)).getD []).getD 0 0 : Int) : Rat) / (p.den : Nat)

/-- the modifiers in REGISTRATION order: the components `WMod k` in the order of their setup -/
def regMods (cfg : Config) (p : PipeSpec) : List ModSpec :=
  (cfg.order.filter fun c => decide (4 ≤ c ∧ c < 7)).map fun c => modSpecOf p (c - 4)

/-- post(modifiers in registration order(source(own row))) for simulant `l` -/
def ownValue (cfg : Config) (p : PipeSpec) (t : Lookup.Table) (rows : List Row) (l : Nat) : Rat :=
  if p.union then Pipeline.union (srcValue p t rows l :: (regMods cfg p).map fun m => modW m rows l)
  else (regMods cfg p).foldl (fun x m => modOne m (modW m rows l) x) (srcValue p t rows l)

theorem reqOf_label (p : PipeSpec) (rows : List Row) (l : Nat) : (reqOf p rows l).label = l := by
  unfold reqOf; split <;> rfl

theorem req_consistent (p : PipeSpec) (rows : List Row) (idx : List Nat) :
    Viv.Props.C15.Consistent (idx.map (reqOf p rows)) := by
  intro r hr r' hr' hl
  obtain ⟨l, _, rfl⟩ := List.mem_map.mp hr
  obtain ⟨l', _, rfl⟩ := List.mem_map.mp hr'
  rw [reqOf_label, reqOf_label] at hl
  rw [hl]

/-- C15 at the level of the simulation: an accepted call of the table returns, for every requested simulant, the cells
of its own attributes – whoever else is requested -/
theorem table_call_pointwise (p : PipeSpec) (t : Lookup.Table) (rows : List Row) (idx : List Nat)
    (res : List (Nat × Lookup.Cells)) (hy : t.yearAt = none) (h : t.call 0 0 (idx.map (reqOf p rows)) = .ok res) :
    res = idx.map fun l => (l, ownCells t (reqOf p rows l)) := by
  unfold Lookup.Table.call at h
  have hc := req_consistent p rows idx
  by_cases hnp : t.np = 0
  · rw [if_pos hnp] at h
    rw [Viv.Props.C15.categorical_eq] at h
    cases hf : (Viv.Props.C15.reqKeys (idx.map (reqOf p rows))).findSome? t.catCheck with
    | some e => rw [hf] at h; cases h
    | none =>
      rw [hf] at h
      have hfill := Viv.Props.C15.fill_all (fun k _ => ((Lookup.groupRows t.rows k).head?).map (·.vals)) _ hc
      cases h
      show (Viv.Props.C15.reqKeys (idx.map (reqOf p rows))).foldl (t.catFill _) _ = _
      have : (t.catFill (idx.map (reqOf p rows))) =
          Viv.Props.C15.fillWith (fun k _ => ((Lookup.groupRows t.rows k).head?).map (·.vals)) (idx.map (reqOf p rows)) := rfl
      rw [this, hfill, List.map_map]
      apply List.map_congr_left
      intro l _
      simp [ownCells, hnp, reqOf_label]
  · rw [if_neg hnp] at h
    have hid : (idx.map (reqOf p rows)).map (Lookup.setYear t.yearAt (Lookup.yearParam 0 0)) = idx.map (reqOf p rows) := by
      rw [hy]; simp [Lookup.setYear]
    rw [hid] at h
    rw [Viv.Props.C15.lookup_pointwise t _ res hc h, List.map_map]
    apply List.map_congr_left
    intro l _
    simp [ownCells, hnp, reqOf_label]


theorem build_yearAt (nk np : Nat) (rows : List Lookup.Row) (ex : Bool) (ya : Option Nat) (t : Lookup.Table)
    (h : Lookup.build nk np rows ex ya = .ok t) : t.yearAt = ya ∧ t.np = np ∧ t.rows = rows ∧ t.extrapolate = ex := by
  unfold Lookup.build at h
  simp only [bind, Except.bind, pure, Except.pure] at h
  repeat' (split at h)
  all_goals first | (cases h; exact ⟨rfl, rfl, rfl, rfl⟩) | cases h

theorem mkTable_yearAt (p : PipeSpec) (t : Lookup.Table) (h : mkTable p = .ok t) : t.yearAt = none :=
  (build_yearAt _ _ _ _ _ t h).1

/-- `LookupTable.__call__` as the pipeline's source sees it: a Series over the requested index, in request order,
whose entry for simulant `l` is the value of `l`'s own row -/
theorem lookupSeries_pointwise (p : PipeSpec) (t : Lookup.Table) (rows : List Row) (idx : List Nat)
    (ser : Pipeline.Series) (hy : t.yearAt = none) (h : lookupSeries p t rows idx = .ok ser) :
    ser = idx.map fun l => (l, srcValue p t rows l) := by
  unfold lookupSeries at h
  split at h
  · cases h
  · rename_i res hres
    have hp := table_call_pointwise p t rows idx res hy hres
    split at h
    · cases h
      subst hp
      rw [List.map_map]
      rfl
    · cases h


/-- the modifiers of the pipeline are those of the `WMod` components, in the order of the components' setup (C14
`modsFor`: call order, whichever component made the call) -/
theorem modsFor_replaceOps (cfg : Config) (p : PipeSpec) (t : Lookup.Table) (rows : List Row) :
    Viv.Props.C14.modsFor PIPE (replaceOps cfg p t rows) = (regMods cfg p).map fun m => modFn m rows := by
  unfold replaceOps regMods
  induction cfg.order with
  | nil => rfl
  | cons c cs ih =>
    rw [List.flatMap_cons, Viv.Props.C14.modsFor_append, ih]
    by_cases h1 : c = 1
    · subst h1; simp [Viv.Props.C14.modsFor]
    · by_cases h4 : 4 ≤ c ∧ c < 7
      · simp [h1, h4, Viv.Props.C14.modsFor]
      · simp [h1, h4, Viv.Props.C14.modsFor]

theorem prodsFor_replaceOps (cfg : Config) (p : PipeSpec) (t : Lookup.Table) (rows : List Row) :
    Viv.Props.C14.prodsFor PIPE (replaceOps cfg p t rows) =
      (cfg.order.filter fun c => decide (c = 1)).map fun _ =>
        ({ source := srcItem p t rows, combiner := Pipeline.replaceCombiner, post := none } :
          Pipeline.Config Id (List Nat) Pipeline.Item (List Nat → Pipeline.Item → Id Pipeline.Item)) := by
  unfold replaceOps
  induction cfg.order with
  | nil => rfl
  | cons c cs ih =>
    rw [List.flatMap_cons, Viv.Props.C14.prodsFor_append, ih]
    by_cases h1 : c = 1
    · subst h1; simp [Viv.Props.C14.prodsFor]
    · by_cases h4 : 4 ≤ c ∧ c < 7
      · simp [h1, h4, Viv.Props.C14.prodsFor]
      · simp [h1, h4, Viv.Props.C14.prodsFor]

/-- the modifiers applied in order to a Series act simulant by simulant -/
theorem foldl_modFn (ms : List ModSpec) (rows : List Row) (idx : List Nat) (ser : Pipeline.Series) :
    (ms.map fun m => modFn m rows).foldl (fun (v : Pipeline.Item) f => f idx v) (.se ser) =
      .se (ser.map fun e => (e.1, ms.foldl (fun x m => modOne m (modW m rows e.1) x) e.2)) := by
  induction ms generalizing ser with
  | nil => simp
  | cons m ms ih =>
    rw [List.map_cons, List.foldl_cons]
    have : modFn m rows idx (.se ser) = .se (ser.map fun e => (e.1, modOne m (modW m rows e.1) e.2)) := rfl
    rw [this, ih, List.map_map]
    rfl


theorem srcItem_ok (p : PipeSpec) (t : Lookup.Table) (rows : List Row) (idx : List Nat) (ser : Pipeline.Series)
    (h : lookupSeries p t rows idx = .ok ser) : srcItem p t rows idx = .se ser := by
  unfold srcItem; rw [h]

/-- **the value of the pipeline under the replace combiner** (C14 `built_pipeline` + `call_replace`, C15
`lookup_pointwise`): for every simulant of the request, the modifiers of the `WMod` components applied in the order
of their registration to the value of the simulant's own table row -/
theorem mortValue_replace (cfg : Config) (p : PipeSpec) (t : Lookup.Table) (rows : List Row) (idx : List Nat)
    (ser : Pipeline.Series) (hy : t.yearAt = none) (hu : p.union = false)
    (h : mortValue cfg p t rows idx = .ok ser) :
    ser = idx.map fun l => (l, (regMods cfg p).foldl (fun x m => modOne m (modW m rows l) x) (srcValue p t rows l)) := by
  unfold mortValue at h
  split at h
  · cases h
  · rename_i src hsrc
    rw [hu] at h
    simp only [Bool.false_eq_true, if_false] at h
    rw [Viv.Props.C14.built_pipeline, modsFor_replaceOps, prodsFor_replaceOps] at h
    cases hf : cfg.order.filter (fun c => decide (c = 1)) with
    | nil =>
      rw [hf] at h
      simp [Pipeline.Pipeline.call] at h
    | cons c cs =>
      rw [hf] at h
      simp only [List.map_cons, List.head?_cons] at h
      have hcall := Viv.Props.C14.call_replace (srcItem p t rows) ((regMods cfg p).map fun m => modFn m rows) none idx false
      unfold Viv.Props.C14.pureReplace at hcall
      rw [hcall] at h
      rw [srcItem_ok p t rows idx src hsrc] at h
      erw [foldl_modFn] at h
      simp only [Viv.Props.C14.postValue, pure] at h
      cases h
      rw [lookupSeries_pointwise p t rows idx src hy hsrc, List.map_map]
      rfl


theorem modsFor_unionOps (cfg : Config) (p : PipeSpec) (t : Lookup.Table) (rows : List Row) :
    Viv.Props.C14.modsFor PIPE (unionOps cfg p t rows) = (regMods cfg p).map fun m => contribFn m rows := by
  unfold unionOps regMods
  induction cfg.order with
  | nil => rfl
  | cons c cs ih =>
    rw [List.flatMap_cons, Viv.Props.C14.modsFor_append, ih]
    by_cases h1 : c = 1
    · subst h1; simp [Viv.Props.C14.modsFor]
    · by_cases h4 : 4 ≤ c ∧ c < 7
      · simp [h1, h4, Viv.Props.C14.modsFor]
      · simp [h1, h4, Viv.Props.C14.modsFor]

theorem prodsFor_unionOps (cfg : Config) (p : PipeSpec) (t : Lookup.Table) (rows : List Row) :
    Viv.Props.C14.prodsFor PIPE (unionOps cfg p t rows) =
      (cfg.order.filter fun c => decide (c = 1)).map fun _ =>
        ({ source := fun idx => [srcItem p t rows idx], combiner := Pipeline.listCombiner, post := some unionPost } :
          Pipeline.Config Id (List Nat) (List Pipeline.Item) (List Nat → Id Pipeline.Item)) := by
  unfold unionOps
  induction cfg.order with
  | nil => rfl
  | cons c cs ih =>
    rw [List.flatMap_cons, Viv.Props.C14.prodsFor_append, ih]
    by_cases h1 : c = 1
    · subst h1; simp [Viv.Props.C14.prodsFor]
    · by_cases h4 : 4 ≤ c ∧ c < 7
      · simp [h1, h4, Viv.Props.C14.prodsFor]
      · simp [h1, h4, Viv.Props.C14.prodsFor]

/-- **the value of the pipeline under the list combiner with `union_post_processor`** (C14 `built_pipeline`,
`foldlM_id_list`, `union_series`; C15 `lookup_pointwise`): for every simulant of the request the union
`1 − Π(1 − pₖ)` of the value of its own table row and the contributions of the `WMod` components -/
theorem mortValue_union (cfg : Config) (p : PipeSpec) (t : Lookup.Table) (rows : List Row) (idx : List Nat)
    (ser : Pipeline.Series) (hy : t.yearAt = none) (hu : p.union = true)
    (h : mortValue cfg p t rows idx = .ok ser) :
    ser = idx.map fun l => (l, Pipeline.union (srcValue p t rows l :: (regMods cfg p).map fun m => modW m rows l)) := by
  unfold mortValue at h
  split at h
  · cases h
  · rename_i src hsrc
    rw [hu] at h
    simp only [if_true] at h
    rw [Viv.Props.C14.built_pipeline, modsFor_unionOps, prodsFor_unionOps] at h
    cases hf : cfg.order.filter (fun c => decide (c = 1)) with
    | nil =>
      rw [hf] at h
      simp [Pipeline.Pipeline.call] at h
    | cons c cs =>
      rw [hf] at h
      simp only [List.map_cons, List.head?_cons, Pipeline.Pipeline.call] at h
      have hfold := Viv.Props.C14.foldlM_id_list ((regMods cfg p).map fun m => contribFn m rows) idx [srcItem p t rows idx]
      erw [Viv.Props.C14.id_bind, hfold] at h
      have hsrc' := lookupSeries_pointwise p t rows idx src hy hsrc
      have hitems : ([srcItem p t rows idx] ++ ((regMods cfg p).map fun m => contribFn m rows).map (· idx)) =
          ((srcValue p t rows) :: (regMods cfg p).map fun m => modW m rows).map (Viv.Props.C14.ser idx) := by
        rw [srcItem_ok p t rows idx src hsrc, hsrc']
        simp [Viv.Props.C14.ser, contribFn, List.map_map, Function.comp_def]
      have hun := Viv.Props.C14.union_series idx (srcValue p t rows) ((regMods cfg p).map fun m => modW m rows)
      simp only [pure_bind, unionPost] at h
      erw [hitems, hun] at h
      simp only [Viv.Props.C14.ser] at h
      cases h
      apply List.map_congr_left
      intro l _
      simp [List.map_map, Function.comp_def]


/-- **the probability used for simulant `l` = post(modifiers in registration order(source(`l`'s own table row)))**,
pointwise: whoever else is requested, whatever the order of the request -/
theorem mort_value_pointwise (cfg : Config) (p : PipeSpec) (t : Lookup.Table) (rows : List Row) (idx : List Nat)
    (ser : Pipeline.Series) (ht : mkTable p = .ok t) (h : mortValue cfg p t rows idx = .ok ser) :
    ser = idx.map fun l => (l, ownValue cfg p t rows l) := by
  have hy := mkTable_yearAt p t ht
  unfold ownValue
  cases hu : p.union with
  | true => simpa using mortValue_union cfg p t rows idx ser hy hu h
  | false => simpa using mortValue_replace cfg p t rows idx ser hy hu h

/-- the request's order and composition do not matter: a simulant requested in two accepted calls on the same table
and the same state table receives the same value in both -/
theorem mort_value_independent_of_request (cfg : Config) (p : PipeSpec) (t : Lookup.Table) (rows : List Row)
    (idx idx' : List Nat) (ser ser' : Pipeline.Series) (ht : mkTable p = .ok t)
    (h : mortValue cfg p t rows idx = .ok ser) (h' : mortValue cfg p t rows idx' = .ok ser')
    (l : Nat) (hl : l ∈ idx) (hl' : l ∈ idx') : ∃ v, (l, v) ∈ ser ∧ (l, v) ∈ ser' := by
  refine ⟨ownValue cfg p t rows l, ?_, ?_⟩
  · rw [mort_value_pointwise cfg p t rows idx ser ht h]; exact List.mem_map.mpr ⟨l, hl, rfl⟩
  · rw [mort_value_pointwise cfg p t rows idx' ser' ht h']; exact List.mem_map.mpr ⟨l, hl', rfl⟩

/-- **the source is the simulant's OWN row** (C15 `interp_eq_spec`): on a well-formed interpolated table the cells
behind `srcValue` are those of a data row whose key cells are the simulant's own sex / state names and whose bin
covers its own `age` (nearest edge bin outside the covered range) – and no other row does -/
theorem source_is_own_row (p : PipeSpec) (t : Lookup.Table) (rows : List Row) (l : Nat) (hnp : t.np ≠ 0)
    (hwf : Viv.Props.C15.WF (Lookup.groupRows t.rows (reqOf p rows l).keys) t.np)
    (hx : (reqOf p rows l).xs.length = t.np) :
    ∃ row ∈ t.rows, row.keys = (reqOf p rows l).keys ∧ ownCells t (reqOf p rows l) = some row.vals ∧
      (∀ q, q < t.np → Viv.Props.C15.Covers (Lookup.groupRows t.rows (reqOf p rows l).keys) row q ((reqOf p rows l).xs.getD q 0)) ∧
      (∀ row' ∈ t.rows, row'.keys = (reqOf p rows l).keys →
        (∀ q, q < t.np → Viv.Props.C15.Covers (Lookup.groupRows t.rows (reqOf p rows l).keys) row' q ((reqOf p rows l).xs.getD q 0)) →
        row' = row) := by
  obtain ⟨row, h1, h2, h3, h4⟩ := Viv.Props.C15.interp_eq_spec _ _ hwf (reqOf p rows l).xs hx
  have hm := List.mem_filter.mp h2
  refine ⟨row, hm.1, by simpa using hm.2, ?_, h3, ?_⟩
  · simp [ownCells, hnp, Lookup.interpOne, h1]
  · intro row' hr' hk' hcov
    exact h4 row' (List.mem_filter.mpr ⟨hr', by simp [hk']⟩) hcov

/-- … and for a categorical table: the one data row whose key cells are the simulant's own -/
theorem source_is_own_row_categorical (p : PipeSpec) (t : Lookup.Table) (rows : List Row) (l : Nat) (hnp : t.np = 0)
    (row : Lookup.Row) (hone : Lookup.groupRows t.rows (reqOf p rows l).keys = [row]) :
    row ∈ t.rows ∧ row.keys = (reqOf p rows l).keys ∧ ownCells t (reqOf p rows l) = some row.vals := by
  have hm : row ∈ Lookup.groupRows t.rows (reqOf p rows l).keys := by rw [hone]; exact List.mem_singleton.mpr rfl
  have hm' := List.mem_filter.mp hm
  exact ⟨hm'.1, by simpa using hm'.2, by simp [ownCells, hnp, hone]⟩

/-- the key cells of a request are the simulant's own sex and state names, in the table's key-column order, and its
parameter value is its own age -/
theorem reqOf_own (p : PipeSpec) (rows : List Row) (l : Nat) (r : Row) (hr : rowOf rows l = some r) :
    (reqOf p rows l).keys = p.keys.map (fun k => if k = 0 then sexName r.sex else stateName r.st) ∧
    (reqOf p rows l).xs = (if p.edges.isEmpty then [] else [(r.age : Int)]) := by
  unfold reqOf; rw [hr]; exact ⟨rfl, rfl⟩

/-- with labels `0 … n-1` in table order the row read for label `l` is row `l` -/
theorem rowOf_lab (s : State) (hl : Lab s) (l : Nat) (r : Row) (hr : s.rows[l]? = some r) : rowOf s.rows l = some r := by
  unfold rowOf
  have hlen := lt_of_getElem? hr
  rw [List.find?_eq_some_iff_getElem]
  refine ⟨by simp [hl l r hr], l, hlen, ?_, ?_⟩
  · rw [List.getElem?_eq_getElem hlen] at hr; exact Option.some.inj hr
  · intro j hj
    have hj' : j < s.rows.length := by omega
    have := hl j s.rows[j] (by simp [hj'])
    simp [this]; omega


/-- **the mortality filter uses the pipeline's value, and only tracked simulants are asked.** With a pipeline
configured, a successful `WMort.act` on an event with at least one tracked simulant: the request handed to the
pipeline is exactly the tracked simulants of the event index (untracked simulants are not asked), the value logged
for each is `ownValue` – post(modifiers in registration order(source(own row))) – and the thresholds
`filter_for_probability` compares the common draws with are exactly those values (`probNat`, denominator `PDEN`) -/
theorem mort_uses_pipeline_value (B : Blk) (cfg : Config) (evIdx : List Nat) (evTime : Int) (s s' : State)
    (p : PipeSpec) (t : Lookup.Table) (hp : cfg.pipe = some p) (ht : mkTable p = .ok t)
    (hne : (s.rows.filter (live evIdx)).isEmpty = false) (h : mort B cfg evIdx evTime s = .ok s') :
    s'.pvals = (s.rows.filter (live evIdx)).map (fun r => (r.label, ownValue cfg p t s.rows r.label)) ∧
    (∀ e ∈ s'.pvals, ∃ r ∈ s.rows, r.label = e.1 ∧ r.tracked = true ∧ evIdx.contains r.label = true) ∧
    ∃ dead, Stream.filterStream (RandomBlock.memoBlk (B (seedStr cfg "wmort" s.clock "None") (blockSize cfg)))
        (blockSize cfg) (posOf s.imap) (seedStr cfg "wmort" s.clock "None") PDEN
        ((s.rows.filter (live evIdx)).map (·.label))
        (.list ((s.rows.filter (live evIdx)).map fun r => probNat (ownValue cfg p t s.rows r.label))) = .ok dead ∧
      s'.rows = s.rows.map fun r =>
        if live evIdx r && dead.contains r.label then { r with tracked := false, exit := some evTime } else r := by
  unfold mort at h
  simp only [hne, Bool.false_eq_true, if_false] at h
  unfold mortProbs at h
  simp only [hp, ht] at h
  split at h
  · cases h
  · rename_i scale ps log hm
    split at hm
    · cases hm
    · rename_i ser hser
      simp only [Except.ok.injEq, Prod.mk.injEq] at hm
      obtain ⟨rfl, rfl, rfl⟩ := hm
      have hpw := mort_value_pointwise cfg p t s.rows _ ser ht hser
      split at h
      · cases h
      · rename_i dead hdead
        cases h
        have hlog : ser = (s.rows.filter (live evIdx)).map (fun r => (r.label, ownValue cfg p t s.rows r.label)) := by
          rw [hpw, List.map_map]; rfl
        refine ⟨hlog, ?_, dead, ?_, rfl⟩
        · intro e he
          rw [hlog] at he
          obtain ⟨r, hr, rfl⟩ := List.mem_map.mp he
          have := List.mem_filter.mp hr
          simp only [live, Bool.and_eq_true] at this
          exact ⟨r, this.1, rfl, this.2.1, this.2.2⟩
        · rw [← hdead, hlog, List.map_map]
          rfl

/-- the comparison the filter makes IS `draw / 2^53 < value`: for a value `a / PDEN` (every value of a valid
configuration is one) the threshold is `a · 2^53` over the common denominator `PDEN · 2^53` -/
theorem probNat_exact (a : Nat) : probNat ((a : Rat) / (PDEN : Nat)) = a * 2 ^ 53 := by
  unfold probNat
  have hP : ((PDEN : Nat) : Rat) ≠ 0 := by
    unfold PDEN; decide
  have h1 : (a : Rat) / (PDEN : Nat) * ((PDEN * 2 ^ 53 : Nat) : Rat) = (((a * 2 ^ 53 : Nat) : Int) : Rat) := by
    rw [Rat.natCast_mul, Rat.div_def, Rat.mul_assoc, ← Rat.mul_assoc (((PDEN : Nat) : Rat)⁻¹), Rat.inv_mul_cancel _ hP, Rat.one_mul]
    rw [Rat.intCast_natCast, Rat.natCast_mul]
  rw [h1, Rat.floor_intCast]
  exact Int.toNat_natCast _

theorem keep_iff (d a : Nat) :
    Stream.keep (d * PDEN) (probNat ((a : Rat) / (PDEN : Nat))) = true ↔ d * PDEN < a * 2 ^ 53 := by
  rw [probNat_exact]; simp [Stream.keep]

/-! ### stratified results over a whole run -/

/-- an event as the results context sees it (C16): phase, time, the prepared population with the mappers' outputs,
the filters' / aggregators' / `to_observe` outputs per observation -/
abbrev REvent := String × Int × List Results.RawRow × List Results.ObsInput

/-- the event the results manager's listener hands to `gatherEvent` when it is called in state `s` -/
def gatherEv (cfg : Config) (ph : Nat) (evIdx : List Nat) (evTime : Int) (s : State) : REvent :=
  (PHASES.getD ph "", evTime, rawRows cfg evIdx s.rows, obsInputs cfg evTime s.rows)

/-- the results events of the listener calls of one event, in call order -/
def traceListeners (B : Blk) (cfg : Config) (ph : Nat) (evIdx : List Nat) (evTime : Int) :
    List Ev.Reg → State → List REvent
  | [], _ => []
  | r :: rs, s =>
    match act B cfg ph evIdx evTime r.2 s with
    | .ok s' => (if r.2 = 3 then [gatherEv cfg ph evIdx evTime s] else []) ++ traceListeners B cfg ph evIdx evTime rs s'
    | .error _ => []

def tracePhases (B : Blk) (cfg : Config) : List Nat → State → List REvent
  | [], _ => []
  | ph :: phs, s =>
    match emit B cfg ph s with
    | .ok s' => traceListeners B cfg ph (s.rows.map (·.label)) (s.clock + cfg.step)
                  (Ev.emitOrder Gen.nBuckets (regs cfg ph)) s ++ tracePhases B cfg phs s'
    | .error _ => []

/-- the results events of `n` steps from `s` (of the steps that complete) -/
def traceIter (B : Blk) (cfg : Config) : Nat → State → List REvent
  | 0, _ => []
  | n + 1, s =>
    match stepWhole B cfg s with
    | .ok s' => tracePhases B cfg [0, 1, 2, 3] s ++ traceIter B cfg n s'
    | .error _ => []

theorem runSim_append (c : Results.Ctx) (a b : List REvent) :
    Results.runSim c (a ++ b) = (Results.runSim c a).bind fun c' => Results.runSim c' b := by
  induction a generalizing c with
  | nil => rfl
  | cons e a ih =>
    obtain ⟨ph, t, rows, inputs⟩ := e
    simp only [List.cons_append, Results.runSim]
    cases Results.gatherEvent c ph t rows inputs with
    | error e => rfl
    | ok c1 => exact ih c1

theorem births_res (B : Blk) (cfg : Config) (ph : Nat) (s s' : State) (h : births B cfg ph s = .ok s') :
    s'.res = s.res := by
  unfold births at h
  simp only at h
  split at h
  · split at h
    · exact (create_spec B cfg _ _ s s' h).2.1
    · cases h; rfl
  · cases h; rfl

/-- **what a listener call does to the results**: the results manager's listener replaces them by
`gatherEvent` of the event as it is at that moment; no other listener touches them -/
theorem act_results (B : Blk) (cfg : Config) (ph : Nat) (evIdx : List Nat) (evTime : Int) (who : Nat) (s s' : State)
    (h : act B cfg ph evIdx evTime who s = .ok s') :
    Results.runSim s.res (if who = 3 then [gatherEv cfg ph evIdx evTime s] else []) = .ok s'.res := by
  unfold act at h
  split at h
  · rename_i hw
    simp only [hw, show ¬ (0 = 3) by decide, if_false, Results.runSim]
    rw [births_res B cfg ph s s' h]
  · split at h
    · rename_i _ hw
      simp only [hw, show ¬ (1 = 3) by decide, if_false, Results.runSim]
      rw [(mort_rel B cfg evIdx evTime s s' h).2.2.2]
    · split at h
      · rename_i _ _ hw
        simp only [hw, if_true, Results.runSim, gatherEv]
        unfold observe at h
        split at h
        · rename_i c hc
          cases h
          rw [hc]; rfl
        · cases h
      · rename_i _ _ hw
        simp only [hw, if_false, Results.runSim]
        rw [(disease_rel B cfg evTime evIdx s s' h).2.2.2.1]

theorem runListeners_results (B : Blk) (cfg : Config) (ph : Nat) (evIdx : List Nat) (t : Int) :
    ∀ (rs : List Ev.Reg) (s s' : State), runListeners B cfg ph evIdx t rs s = .ok s' →
      Results.runSim s.res (traceListeners B cfg ph evIdx t rs s) = .ok s'.res := by
  intro rs
  induction rs with
  | nil => intro s s' h; cases h; rfl
  | cons r rs ih =>
    intro s s' h
    unfold runListeners at h
    split at h
    · rename_i s1 h1
      unfold traceListeners
      rw [h1]
      simp only
      rw [runSim_append, act_results B cfg ph evIdx t r.2 s s1 h1]
      exact ih s1 s' h
    · cases h


theorem runPhases_results (B : Blk) (cfg : Config) :
    ∀ (phs : List Nat) (s s' : State), runPhases B cfg phs s = .ok s' →
      Results.runSim s.res (tracePhases B cfg phs s) = .ok s'.res := by
  intro phs
  induction phs with
  | nil => intro s s' h; cases h; rfl
  | cons ph phs ih =>
    intro s s' h
    unfold runPhases at h
    split at h
    · rename_i s1 h1
      unfold tracePhases
      rw [h1]
      simp only
      have h1' := h1
      unfold emit at h1'
      rw [runSim_append, runListeners_results B cfg ph _ _ _ s s1 h1']
      exact ih s1 s' h
    · cases h

theorem step_results (B : Blk) (cfg : Config) (s s' : State) (h : stepWhole B cfg s = .ok s') :
    Results.runSim s.res (tracePhases B cfg [0, 1, 2, 3] s) = .ok s'.res := by
  unfold stepWhole at h
  split at h
  · rename_i s1 h1
    cases h
    exact runPhases_results B cfg _ s s1 h1
  · cases h

/-- **the results after `n` steps are the C16 context run over the events of those steps**: `_raw_results` after
`n` steps = `runSim` of the results before them over the `gatherEvent` calls the steps made, in order -/
theorem iter_results (B : Blk) (cfg : Config) :
    ∀ (n : Nat) (s s' : State), iterWhole B cfg n s = .ok s' →
      Results.runSim s.res (traceIter B cfg n s) = .ok s'.res := by
  intro n
  induction n with
  | zero => intro s s' h; cases h; rfl
  | succ n ih =>
    intro s s' h
    unfold iterWhole at h
    split at h
    · rename_i s1 h1
      unfold traceIter
      rw [h1]
      simp only
      rw [runSim_append, step_results B cfg s s1 h1]
      exact ih s1 s' h
    · cases h

theorem traceIter_succ (B : Blk) (cfg : Config) (n : Nat) (s : State) :
    traceIter B cfg (n + 1) s = match stepWhole B cfg s with
      | .ok s' => tracePhases B cfg [0, 1, 2, 3] s ++ traceIter B cfg n s'
      | .error _ => [] := rfl

/-- the events of `n + m` steps are those of the first `n` followed by those of the next `m` -/
theorem traceIter_add (B : Blk) (cfg : Config) (m : Nat) :
    ∀ (n : Nat) (s s1 : State), iterWhole B cfg n s = .ok s1 →
      traceIter B cfg (n + m) s = traceIter B cfg n s ++ traceIter B cfg m s1 := by
  intro n
  induction n with
  | zero => intro s s1 h; cases h; simp [traceIter]
  | succ n ih =>
    intro s s1 h
    unfold iterWhole at h
    split at h
    · rename_i s' h1
      rw [Nat.succ_add]
      show traceIter B cfg (n + m + 1) s = traceIter B cfg (n + 1) s ++ _
      rw [traceIter_succ, traceIter_succ, h1]
      simp only
      rw [ih s' s1 h, List.append_assoc]
    · cases h

/-- **results are additive / resume**: running `n + m` steps gives the results of running `n` steps and then `m`
steps from the state reached – the complete state, results included (`resume_at_any_boundary`) – and the results after
the `n + m` steps are the context after the first `n` run over the events of the last `m` -/
theorem results_resume (B : Blk) (cfg : Config) (n m : Nat) (s s1 s2 : State)
    (h1 : iterWhole B cfg n s = .ok s1) (h2 : iterWhole B cfg m s1 = .ok s2) :
    iterWhole B cfg (n + m) s = .ok s2 ∧
    traceIter B cfg (n + m) s = traceIter B cfg n s ++ traceIter B cfg m s1 ∧
    Results.runSim s.res (traceIter B cfg n s) = .ok s1.res ∧
    Results.runSim s1.res (traceIter B cfg m s1) = .ok s2.res ∧
    Results.runSim s.res (traceIter B cfg (n + m) s) = .ok s2.res := by
  have h12 : iterWhole B cfg (n + m) s = .ok s2 := by rw [resume_at_any_boundary B cfg n m s s1 h1]; exact h2
  exact ⟨h12, traceIter_add B cfg m n s s1 h1, iter_results B cfg n s s1 h1, iter_results B cfg m s1 s2 h2,
    iter_results B cfg (n + m) s s2 h12⟩


theorem foldlM_inv {α β ε : Type} (f : β → α → Except ε β) (I : β → Prop)
    (hI : ∀ b a b', I b → f b a = .ok b' → I b') :
    ∀ (l : List α) (b b' : β), I b → l.foldlM f b = .ok b' → I b' := by
  intro l
  induction l with
  | nil => intro b b' hb h; simp only [List.foldlM_nil, pure, Except.pure] at h; cases h; exact hb
  | cons a l ih =>
    intro b b' hb h
    rw [List.foldlM_cons] at h
    cases hf : f b a with
    | error e => rw [hf] at h; simp [bind, Except.bind] at h
    | ok b1 =>
      rw [hf] at h
      exact ih b1 b' (hI b a b1 hb hf) h

/-- what setup leaves in the results context: distinct categories per stratification, distinct observation names,
adding observations only -/
theorem preRes_spec (cfg : Config) (c0 : Results.Ctx) (h : preRes cfg = .ok c0) :
    (∀ st ∈ c0.strats, st.cats.Nodup) ∧ (c0.obs.map (·.name)).Nodup ∧ (∀ o ∈ c0.obs, o.kind = .adding) := by
  unfold preRes at h
  split at h
  · cases h
  · rename_i strats hs
    have hcats : ∀ st ∈ strats, st.cats.Nodup := by
      unfold preStrats at hs
      exact foldlM_inv _ (fun ss => ∀ st ∈ ss, st.cats.Nodup)
        (fun ss sp ss' hss hreg => Viv.Props.C16.registered_cats_nodup [] ss ss' _ _ _ _ hss hreg) _ [] strats
        (fun _ hst => by cases hst) hs
    have := foldlM_inv _ (fun (c : Results.Ctx) => c.strats = strats ∧ (c.obs.map (·.name)).Nodup ∧ ∀ o ∈ c.obs, o.kind = .adding)
      (fun c (o : ObsSpec) c' hc hreg => by
        obtain ⟨h1, h2, h3⟩ := hc
        have hnd := Viv.Props.C16.registerObservation_names_nodup c c' _ _ _ _ _ true h2 hreg
        unfold Results.registerObservation at hreg
        split at hreg
        · cases hreg
        split at hreg
        · cases hreg
        · cases hreg
          refine ⟨h1, hnd, ?_⟩
          intro o' ho'
          rcases List.mem_append.mp ho' with ho' | ho'
          · exact h3 o' ho'
          · simp at ho'; subst ho'; rfl)
      _ _ c0 ⟨rfl, by simp, fun _ ho => by cases ho⟩ h
    exact ⟨by rw [this.1]; exact hcats, this.2.1, this.2.2⟩

/-- the results context a run starts with -/
theorem initPop_res (B : Blk) (cfg : Config) (c : Results.Ctx) (hc : initRes cfg = .ok c) (s0 : State)
    (h0 : initPopB B cfg = .ok s0) : s0.res = c := by
  unfold initPopB at h0
  split at h0
  · rename_i s1 h1
    cases h0
    show s1.res = c
    rw [(create_spec B cfg _ _ _ s1 h1).2.1]
    simp [initState, hc]
  · cases h0


/-- **the reported results of a whole run in closed form** (C16 `simulation_result` composed with the engine): after
the initial creation and `n` steps, every observation's table has one row per combination of its non-excluded
categories and the value of stratum `k` is the sum, over the `gatherEvent` calls of the `n` steps in order, of what
that event contributes to `k` – results after `n` steps = Σ over the events of the steps -/
theorem run_results_closed_form (B : Blk) (cfg : Config) (c0 c : Results.Ctx) (hpre : preRes cfg = .ok c0)
    (hpost : Results.postSetup c0 = .ok c) (n : Nat) (s0 s : State) (h0 : initPopB B cfg = .ok s0)
    (h : iterWhole B cfg n s0 = .ok s) (o : Results.Obs) (ho : o ∈ c0.obs) :
    Results.getAssoc o.name s.res.adding =
      some ((Results.product (Results.levelsOf c0.strats o.strats)).map fun k =>
        (k, (((traceIter B cfg n s0).map (Viv.Props.C16.eventFor c0.strats o)).map (Viv.Props.C16.eventTerm k)).sum)) := by
  obtain ⟨_, hnd, hadd⟩ := preRes_spec cfg c0 hpre
  have hc : initRes cfg = .ok c := by unfold initRes; rw [hpre]; exact hpost
  have hrun := iter_results B cfg n s0 s h
  rw [initPop_res B cfg c hc s0 h0] at hrun
  exact Viv.Props.C16.simulation_result c0 c s.res _ hpost hrun hnd o ho (hadd o ho)

/-- what one event adds to the total of an observation: the aggregate over its eligible simulants, when observed -/
def eventTotal (ss : List Results.Strat) (o : Results.Obs) (ev : REvent) : Int :=
  if (Viv.Props.C16.eventFor ss o ev).1 then Results.eligibleSum (Viv.Props.C16.eventFor ss o ev).2 else 0

theorem eventFor_valid (ss : List Results.Strat) (o : Results.Obs) (ev : REvent) :
    ∀ r ∈ (Viv.Props.C16.eventFor ss o ev).2, r.eligible = true → r.key ∈ Results.product (Results.levelsOf ss o.strats) := by
  obtain ⟨ph, t, rows, inputs⟩ := ev
  unfold Viv.Props.C16.eventFor
  simp only
  split
  · split
    · rename_i i _
      simp only
      unfold Viv.Props.C16.mappedOf
      cases hs : Results.stratifyAll ss rows with
      | ok mapped => exact Viv.Props.C16.mkRows_valid ss rows mapped hs o.strats i.passes i.vals
      | error e =>
        intro r hr
        simp [Results.mkRows] at hr
    · intro r hr; cases hr
  · intro r hr; cases hr

/-- C16 `simulation_result` + `total_conservation` for any sequence of events of the context -/
theorem ctx_results_conservation (c0 c c' : Results.Ctx) (evs : List REvent)
    (hcats : ∀ st ∈ c0.strats, st.cats.Nodup) (hnd : (c0.obs.map (·.name)).Nodup)
    (hpost : Results.postSetup c0 = .ok c) (hrun : Results.runSim c evs = .ok c') (o : Results.Obs) (ho : o ∈ c0.obs)
    (hk : o.kind = .adding) :
    ∃ tab, Results.getAssoc o.name c'.adding = some tab ∧
      (tab.map (·.2)).sum = (evs.map (eventTotal c0.strats o)).sum := by
  refine ⟨_, Viv.Props.C16.simulation_result c0 c c' evs hpost hrun hnd o ho hk, ?_⟩
  have hl := Viv.Props.C16.levelsOf_nodup c0.strats hcats o.strats
  have := Viv.Props.C16.total_conservation _ hl (evs.map (Viv.Props.C16.eventFor c0.strats o))
    (by
      intro e he
      obtain ⟨ev, _, rfl⟩ := List.mem_map.mp he
      exact eventFor_valid c0.strats o ev)
  rw [Viv.Props.C16.result_is_sum_of_increments] at this
  rw [this, List.map_map]
  rfl

/-- **conservation over a whole run** (C16 `total_conservation`): after `n` steps the values an observation reports
over all its strata add up to the aggregate over the eligible simulants of all its observed events -/
theorem run_results_conservation (B : Blk) (cfg : Config) (c0 c : Results.Ctx) (hpre : preRes cfg = .ok c0)
    (hpost : Results.postSetup c0 = .ok c) (n : Nat) (s0 s : State) (h0 : initPopB B cfg = .ok s0)
    (h : iterWhole B cfg n s0 = .ok s) (o : Results.Obs) (ho : o ∈ c0.obs) :
    ∃ tab, Results.getAssoc o.name s.res.adding = some tab ∧
      (tab.map (·.2)).sum = ((traceIter B cfg n s0).map (eventTotal c0.strats o)).sum := by
  obtain ⟨hcats, hnd, hadd⟩ := preRes_spec cfg c0 hpre
  have hc : initRes cfg = .ok c := by unfold initRes; rw [hpre]; exact hpost
  have hrun := iter_results B cfg n s0 s h
  rw [initPop_res B cfg c hc s0 h0] at hrun
  exact ctx_results_conservation c0 c s.res _ hcats hnd hpost hrun o ho (hadd o ho)

/-- **after EVERY observation event of a whole run**: split the events of the `n` steps anywhere, `pre ++ ev :: post`;
the context after `pre` and the context after `ev` exist, and for every observation the total over its strata grows
across `ev` by exactly the aggregate over the simulants eligible at that event (0 when the event is not observed) -/
theorem every_event_conserves (B : Blk) (cfg : Config) (c0 c : Results.Ctx) (hpre : preRes cfg = .ok c0)
    (hpost : Results.postSetup c0 = .ok c) (n : Nat) (s0 s : State) (h0 : initPopB B cfg = .ok s0)
    (h : iterWhole B cfg n s0 = .ok s) (pre post : List REvent) (ev : REvent)
    (hsplit : traceIter B cfg n s0 = pre ++ ev :: post) (o : Results.Obs) (ho : o ∈ c0.obs) :
    ∃ c1 c2 t1 t2, Results.runSim c pre = .ok c1 ∧ Results.gatherEvent c1 ev.1 ev.2.1 ev.2.2.1 ev.2.2.2 = .ok c2 ∧
      Results.getAssoc o.name c1.adding = some t1 ∧ Results.getAssoc o.name c2.adding = some t2 ∧
      (t2.map (·.2)).sum = (t1.map (·.2)).sum + eventTotal c0.strats o ev := by
  obtain ⟨hcats, hnd, hadd⟩ := preRes_spec cfg c0 hpre
  have hc : initRes cfg = .ok c := by unfold initRes; rw [hpre]; exact hpost
  have hrun := iter_results B cfg n s0 s h
  rw [initPop_res B cfg c hc s0 h0, hsplit, runSim_append] at hrun
  cases h1 : Results.runSim c pre with
  | error e => rw [h1] at hrun; cases hrun
  | ok c1 =>
    rw [h1] at hrun
    simp only [Except.bind] at hrun
    obtain ⟨ph, t, rows, inputs⟩ := ev
    simp only [Results.runSim] at hrun
    cases h2 : Results.gatherEvent c1 ph t rows inputs with
    | error e => rw [h2] at hrun; cases hrun
    | ok c2 =>
      have h12 : Results.runSim c (pre ++ [(ph, t, rows, inputs)]) = .ok c2 := by
        rw [runSim_append, h1]
        simp only [Except.bind, Results.runSim, h2]
        rfl
      obtain ⟨t1, ht1, hs1⟩ := ctx_results_conservation c0 c c1 pre hcats hnd hpost h1 o ho (hadd o ho)
      obtain ⟨t2, ht2, hs2⟩ := ctx_results_conservation c0 c c2 _ hcats hnd hpost h12 o ho (hadd o ho)
      refine ⟨c1, c2, t1, t2, rfl, h2, ht1, ht2, ?_⟩
      rw [hs2, hs1, List.map_append, List.sum_append]
      simp


/-! #### the eligible simulants of an event, in the simulation's own terms -/

/-- the stratified categories of ONE simulant, from its own attributes alone (`[]` when it is not in the event) -/
def ownMapped (cfg : Config) (ss : List Results.Strat) (evIdx : List Nat) (r : Row) : List (String × Option String) :=
  if evIdx.contains r.label then
    (match Results.stratifyRow ss ((regStrats cfg).map fun sp => rawCat sp r) with | .ok m => m | .error _ => [])
  else []

/-- eligible at an event: in `event.index`, passing the observation's filter, in no excluded category of the
observation's stratifications – decided by the simulant's own row -/
def rowEligible (cfg : Config) (ss : List Results.Strat) (names : List String) (f : Nat) (evIdx : List Nat) (r : Row) : Bool :=
  evIdx.contains r.label && passesFilter f r && (Results.catsFor names (ownMapped cfg ss evIdx r)).all Option.isSome

/-- `stratifyAll` is row by row -/
theorem stratifyAll_eq (ss : List Results.Strat) :
    ∀ (rows : List Results.RawRow) (mapped : List (List (String × Option String))),
      Results.stratifyAll ss rows = .ok mapped →
      mapped = rows.map fun r => if r.inEvent then
        (match Results.stratifyRow ss r.raw with | .ok m => m | .error _ => []) else [] := by
  intro rows
  induction rows with
  | nil => intro mapped h; simp [Results.stratifyAll] at h; exact h.symm ▸ rfl
  | cons r rows ih =>
    intro mapped h
    unfold Results.stratifyAll at h
    cases h2 : Results.stratifyAll ss rows with
    | error e =>
      by_cases h0 : r.inEvent = true
      · cases h1 : Results.stratifyRow ss r.raw <;> simp [h0, h1, h2, bind, Except.bind] at h
      · simp [h0, h2, bind, Except.bind, pure, Except.pure] at h
    | ok rest =>
      have ih' := ih rest h2
      by_cases h0 : r.inEvent = true
      · cases h1 : Results.stratifyRow ss r.raw with
        | error e1 => simp [h0, h1, bind, Except.bind] at h
        | ok m0 =>
          simp only [h0, h1, h2, if_true, bind, Except.bind, pure, Except.pure] at h
          cases h
          simp [h0, h1, ← ih']
      · simp only [h0, h2, bind, Except.bind, pure, Except.pure] at h
        cases h
        simp [h0, ← ih']

theorem stratifyAll_rawRows (cfg : Config) (ss : List Results.Strat) (evIdx : List Nat)
    (rows : List Row) (mapped : List (List (String × Option String)))
    (h : Results.stratifyAll ss (rawRows cfg evIdx rows) = .ok mapped) : mapped = rows.map (ownMapped cfg ss evIdx) := by
  rw [stratifyAll_eq ss _ mapped h]
  unfold rawRows
  rw [List.map_map]
  rfl

theorem mkRows_map (names : List String) (rows : List Row) (f1 : Row → Results.RawRow)
    (f2 : Row → List (String × Option String)) (f3 : Row → Bool) (f4 : Row → Int) :
    Results.mkRows names (rows.map f1) (rows.map f2) (rows.map f3) (rows.map f4) =
      rows.map fun r => { inEvent := (f1 r).inEvent, passes := f3 r, cats := Results.catsFor names (f2 r), val := f4 r } := by
  unfold Results.mkRows
  induction rows with
  | nil => rfl
  | cons r rows ih => simp only [List.map_cons, List.zip_cons_cons, ih]

/-- the rows C16's row layer receives for an observation at an event are, simulant by simulant, the simulant's own
membership of the event, its own filter outcome, its own categories and its own summand -/
theorem event_rows_own_terms (cfg : Config) (ss : List Results.Strat) (names : List String) (f a : Nat)
    (evIdx : List Nat) (rows : List Row) (mapped : List (List (String × Option String)))
    (h : Results.stratifyAll ss (rawRows cfg evIdx rows) = .ok mapped) :
    Results.eligibleSum (Results.mkRows names (rawRows cfg evIdx rows) mapped (rows.map (passesFilter f)) (rows.map (aggVal a))) =
      ((rows.filter (rowEligible cfg ss names f evIdx)).map (aggVal a)).sum := by
  rw [stratifyAll_rawRows cfg ss evIdx rows mapped h]
  unfold rawRows
  rw [mkRows_map]
  unfold Results.eligibleSum
  rw [List.filter_map, List.map_map]
  rfl


theorem no_one_in_event (cfg : Config) (evIdx : List Nat) (rows : List Row)
    (h : ((rawRows cfg evIdx rows).filter (·.inEvent)).isEmpty = true) : ∀ r ∈ rows, evIdx.contains r.label = false := by
  intro r hr
  have h0 := List.isEmpty_iff.mp h
  unfold rawRows at h0
  rw [List.filter_map, List.map_eq_nil_iff, List.filter_eq_nil_iff] at h0
  simpa using h0 r hr

theorem find?_obsInputs (cfg : Config) (evTime : Int) (rows : List Row) (name : String) :
    (obsInputs cfg evTime rows).find? (fun i => i.name = name) =
      ((regObs cfg).find? (fun os => os.name = name)).map fun o =>
        ({ name := o.name, toObserve := decide (((evTime - cfg.start) / cfg.step) % (o.every : Int) = 0),
           passes := rows.map (passesFilter o.filter), vals := rows.map (aggVal o.agg), payloads := [] } : Results.ObsInput) := by
  unfold obsInputs
  induction regObs cfg with
  | nil => rfl
  | cons o os ih =>
    simp only [List.map_cons, List.find?_cons]
    by_cases hn : o.name = name
    · simp [hn]
    · simp [hn, ih]

/-- **what one observation event adds, in the simulation's own terms.** The results manager's listener is called
in state `s` during channel `ph` (event index `evIdx`, event time `evTime`); `o` is an observation of that channel,
`os` its specification. If the mappers' outputs are all categories (otherwise the event raises), the event's
contribution to the observation's total is – when `to_observe` holds – the sum of the aggregator's summands over the
rows of the state table that are in the event index, pass the filter and sit in no excluded category; untracked
simulants count unless the filter drops them. -/
theorem event_total_own_terms (cfg : Config) (ss : List Results.Strat) (o : Results.Obs) (os : ObsSpec) (ph : Nat)
    (evIdx : List Nat) (evTime : Int) (s : State) (mapped : List (List (String × Option String)))
    (hph : PHASES.getD ph "" = o.phase) (hos : (regObs cfg).find? (fun os => os.name = o.name) = some os)
    (hstrat : Results.stratifyAll ss (rawRows cfg evIdx s.rows) = .ok mapped) :
    eventTotal ss o (gatherEv cfg ph evIdx evTime s) =
      if ((evTime - cfg.start) / cfg.step) % (os.every : Int) = 0 then
        ((s.rows.filter (rowEligible cfg ss o.strats os.filter evIdx)).map (aggVal os.agg)).sum
      else 0 := by
  unfold eventTotal Viv.Props.C16.eventFor gatherEv
  simp only [hph, true_and]
  cases hE : ((rawRows cfg evIdx s.rows).filter (·.inEvent)).isEmpty with
  | true =>
    -- nobody is in the event: nothing is added, and nobody is eligible
    have hnone : s.rows.filter (rowEligible cfg ss o.strats os.filter evIdx) = [] := by
      rw [List.filter_eq_nil_iff]
      intro r hr
      have hno := no_one_in_event cfg evIdx s.rows hE r hr
      unfold rowEligible
      rw [hno]; simp
    simp [hnone]
  | false =>
    simp only [if_true]
    rw [find?_obsInputs, hos]
    simp only [Option.map_some, Viv.Props.C16.mappedOf, hstrat]
    rw [event_rows_own_terms cfg ss o.strats os.filter os.agg evIdx s.rows mapped hstrat]
    simp

/-- … and for a counting observation (`aggregator = len`) that is the NUMBER of eligible simulants -/
theorem event_count_own_terms (cfg : Config) (ss : List Results.Strat) (o : Results.Obs) (os : ObsSpec) (ph : Nat)
    (evIdx : List Nat) (evTime : Int) (s : State) (mapped : List (List (String × Option String)))
    (hph : PHASES.getD ph "" = o.phase) (hos : (regObs cfg).find? (fun os => os.name = o.name) = some os)
    (hstrat : Results.stratifyAll ss (rawRows cfg evIdx s.rows) = .ok mapped) (hcount : os.agg = 0) :
    eventTotal ss o (gatherEv cfg ph evIdx evTime s) =
      if ((evTime - cfg.start) / cfg.step) % (os.every : Int) = 0 then
        ((s.rows.filter (rowEligible cfg ss o.strats os.filter evIdx)).length : Int)
      else 0 := by
  rw [event_total_own_terms cfg ss o os ph evIdx evTime s mapped hph hos hstrat]
  split
  · rw [← Viv.Results.sum_ones]
    congr 1
    apply List.map_congr_left
    intro r _
    simp [aggVal, hcount]
  · rfl


theorem mem_traceListeners (B : Blk) (cfg : Config) (ph : Nat) (evIdx : List Nat) (t : Int) (ev : REvent) :
    ∀ (rs : List Ev.Reg) (s : State), Reach B cfg s → s.clock + cfg.step = t →
      ev ∈ traceListeners B cfg ph evIdx t rs s →
      ∃ s', Reach B cfg s' ∧ s'.clock = s.clock ∧ ev = gatherEv cfg ph evIdx t s' := by
  intro rs
  induction rs with
  | nil => intro s _ _ h; cases h
  | cons r rs ih =>
    intro s hs ht h
    unfold traceListeners at h
    split at h
    · rename_i s1 h1
      rcases List.mem_append.mp h with h | h
      · split at h
        · exact ⟨s, hs, rfl, List.mem_singleton.mp h⟩
        · cases h
      · have hr := act_rel B cfg ph evIdx t r.2 s s1 h1
        obtain ⟨s', h1', h2', h3'⟩ := ih s1 (Reach.act s s1 hs (by rw [ht]; exact hr)) (by rw [hr.clock]; exact ht) h
        exact ⟨s', h1', h2'.trans hr.clock, h3'⟩
    · cases h

theorem mem_tracePhases (B : Blk) (cfg : Config) (ev : REvent) :
    ∀ (phs : List Nat) (s : State), Reach B cfg s → ev ∈ tracePhases B cfg phs s →
      ∃ ph evIdx s', Reach B cfg s' ∧ s'.clock = s.clock ∧ ev = gatherEv cfg ph evIdx (s'.clock + cfg.step) s' := by
  intro phs
  induction phs with
  | nil => intro s _ h; cases h
  | cons ph phs ih =>
    intro s hs h
    unfold tracePhases at h
    split at h
    · rename_i s1 h1
      rcases List.mem_append.mp h with h | h
      · obtain ⟨s', h1', h2', h3'⟩ := mem_traceListeners B cfg ph _ _ ev _ s hs rfl h
        exact ⟨ph, _, s', h1', h2', by rw [h2']; exact h3'⟩
      · have h1e := h1
        unfold emit at h1e
        obtain ⟨hr1, hc1⟩ := runListeners_inv B cfg _ (reach_kept B cfg) ph _ _ _ s s1 hs rfl h1e
        obtain ⟨ph', evIdx', s', h1', h2', h3'⟩ := ih s1 hr1 h
        exact ⟨ph', evIdx', s', h1', h2'.trans hc1, h3'⟩
    · cases h

/-- **every results event of a run is a call of the results manager's listener in a state of the run**: each element
of the trace is `gatherEv` of some channel and event index at a listener-start state `s'` (`Reach`: it satisfies
`Good ∧ MapInv`), with the event time `s'.clock + step` -/
theorem mem_traceIter (B : Blk) (cfg : Config) (ev : REvent) :
    ∀ (n : Nat) (s : State), Reach B cfg s → ev ∈ traceIter B cfg n s →
      ∃ ph evIdx s', Reach B cfg s' ∧ ev = gatherEv cfg ph evIdx (s'.clock + cfg.step) s' := by
  intro n
  induction n with
  | zero => intro s _ h; cases h
  | succ n ih =>
    intro s hs h
    rw [traceIter_succ] at h
    split at h
    · rename_i s1 h1
      rcases List.mem_append.mp h with h | h
      · obtain ⟨ph, evIdx, s', h1', _, h3'⟩ := mem_tracePhases B cfg ev _ s hs h
        exact ⟨ph, evIdx, s', h1', h3'⟩
      · exact ih s1 (step_inv_rows B cfg _ (reach_kept B cfg) (fun x c hx => Reach.tick x c hx) s s1 hs h1) h
    · cases h

/-! ### the hypotheses are inhabited (a kernel-cheap toy block; the real block is exercised by the driver) -/

def cfgEx : Config :=
  { seed := "3", pop := 2, mapSize := 23, start := 0, step := 1, stop := 2, keyCols := [0, 1], keyBits := 30,
    keyFloat := false, sexW := 8, births := [[0, 1, 0, 0], [0, 0, 0, 0]], akPerPhase := true, order := [0, 1, 2],
    birthPrio := [5, 5, 5, 5], mortPhase := 1, mortPrio := 5, disPhase := 1, disPrio := 5,
    mortP := [[8, 8], [8, 8]], initW := [[16, 0], [8, 8]],
    states := [⟨true, [(1, [8, 8])]⟩, ⟨true, []⟩] }

def toyB : Blk := fun ks size =>
  ((List.range size).map fun i => ((ks.length + 3) * (i + 1) * 2654435761 * 1048583) % 2 ^ 53).toArray

example : cfgEx.valid = true := by decide

set_option maxRecDepth 100000 in
/-- two steps of a run with a birth (label 2, entrance 0), a machine move (simulant 0) and two exits – one of them
the newborn, one step after its birth -/
example : ((initPopB toyB cfgEx).bind (iterWhole toyB cfgEx 2)).toOption.map (fun s => (s.clock, s.rows)) =
    some (2, [⟨0, true, 447167675, -1, 0, 1, none, 0⟩, ⟨1, false, 894335351, -1, 1, 1, some 1, 0⟩,
              ⟨2, false, 193682759, 0, 1, 0, some 2, 0⟩]) := by decide +kernel

set_option maxRecDepth 100000 in
/-- `run()` on the same configuration: the same state -/
example : (initPopB toyB cfgEx).bind (runWholeB toyB cfgEx 8) = (initPopB toyB cfgEx).bind (iterWhole toyB cfgEx 2) := by
  decide +kernel

/-- a refused run: `entrance` as the only key column and two simulants created together -/
example : initPopB toyB { cfgEx with keyCols := [0] } = .error .randomness := by decide

/-! #### the opt-in parts: age column, lookup table + value pipeline (three non-commuting modifiers, two of them
registered), observer with two stratifications (one with an excluded category) and two observations -/

def pipeEx : PipeSpec :=
  { union := false, den := 16, keys := [0, 1], edges := [0, 2, 4],
    rows := [[0, 0, 0, 16], [0, 0, 1, 8], [0, 1, 0, 4], [0, 1, 1, 2], [1, 0, 0, 16], [1, 0, 1, 12], [1, 1, 0, 6], [1, 1, 1, 3]],
    mods := [⟨0, 2, [1, 2]⟩, ⟨1, 16, [1, 0]⟩, ⟨2, 4, [1, 3]⟩] }

def cfgX : Config :=
  { cfgEx with
    order := [4, 0, 3, 1, 5, 2]
    age := some 2
    pipe := some pipeEx
    strats := [⟨"sex", 0, ["m", "f"], [], []⟩, ⟨"alive", 3, ["yes", "no"], ["no"], []⟩]
    obs := [⟨"n", 3, 0, 0, 1, ["sex", "alive"], []⟩, ⟨"e", 1, 1, 1, 2, ["sex"], []⟩] }

set_option maxRecDepth 100000 in
example : cfgX.valid = true := by decide +kernel

set_option maxRecDepth 100000 in
/-- setup succeeds: the hypotheses `preRes cfg = .ok c0`, `postSetup c0 = .ok c`, `mkTable p = .ok t` are inhabited -/
example : ((preRes cfgX).bind Results.postSetup).toOption.isSome = true ∧ (mkTable pipeEx).toOption.isSome = true := by
  decide +kernel

set_option maxRecDepth 100000 in
/-- two steps: simulant 0 leaves in step 1, the newborn 2 in step 2 (pipeline value 1 = table 16/16 · 2/2 … );
the last pipeline call asked the tracked simulants 1 and 2 only; `n` counted the tracked females (the category
`no` is excluded), `e` (every 2nd step, `time_step`, before the mortality listener) summed the entrance times -/
example : ((initPopB toyB cfgX).bind (iterWhole toyB cfgX 2)).toOption.map
      (fun s => (s.clock, s.rows.map (fun r => (r.label, r.tracked, r.age)))) =
    some (2, [(0, false, 1), (1, true, 3), (2, false, 0)]) ∧
    ((initPopB toyB cfgX).bind (iterWhole toyB cfgX 2)).toOption.map (fun s => s.pvals) =
      some [(1, (3 : Rat) / 16), (2, 1)] ∧
    ((initPopB toyB cfgX).bind (iterWhole toyB cfgX 2)).toOption.map (fun s => s.res.adding) =
      some [("n", [(["yes", "m"], 0), (["yes", "f"], 3)]), ("e", [(["m"], 0), (["f"], -1)])] := by decide +kernel

set_option maxRecDepth 100000 in
/-- the results manager's listener is called once per channel and step: eight events in two steps -/
example : ((initPopB toyB cfgX).toOption.map fun s0 => (traceIter toyB cfgX 2 s0).length) = some 8 := by decide +kernel

end Viv.Props.Whole
