import VivModel.Model.WholeDt
import VivModel.Props.Whole
import VivModel.Props.C10
/-! WHOLE-DT — theorems about the end-to-end model under a DateTimeClock with per-simulant clocks
(`Model/WholeDt.lean`), composing C10 (`Props/C10.lean`: invariant `J`, `active_exact`, `advance_to_earliest`,
`included_moves_forward`, `next_event_is_earliest`, `IdsOk`) with the listeners of `Model/Whole.lean` (C17
`transition_frame` for the machine). All statements are for every configuration, every modifier specification, every
state and every block function. -/
namespace Viv.Props.WholeDt
open Viv Viv.Whole Viv.WholeDt Viv.Props.Whole

/-! ### the listeners of the DateTimeClock model are the listeners of `Model/Whole.lean` with another time rendering -/

theorem seedStrT_simple (cfg : Config) (dp : String) (clock : Int) (ak : String) :
    seedStrT Tm.simple cfg dp clock ak = seedStr cfg dp clock ak := rfl

theorem createT_simple (B : Blk) (cfg : Config) (site : String) (k : Nat) (s : State) :
    createT Tm.simple B cfg site k s = create B cfg site k s := rfl

theorem mortT_simple (B : Blk) (cfg : Config) (evIdx : List Nat) (evTime : Int) (s : State) :
    mortT Tm.simple B cfg evIdx evTime s = mort B cfg evIdx evTime s := rfl

theorem stateDrawsT_simple (B : Blk) (cfg : Config) (evIdx : List Nat) (s : State) (j : Nat) (sp : StSpec) :
    stateDrawsT Tm.simple B cfg evIdx s j sp = stateDraws B cfg evIdx s j sp := rfl

theorem mkStatesT_simple (B : Blk) (cfg : Config) (evIdx : List Nat) (s : State) (l : List (Nat × StSpec)) :
    mkStatesT Tm.simple B cfg evIdx s l = mkStates B cfg evIdx s l := by
  induction l with
  | nil => rfl
  | cons p l ih =>
    obtain ⟨j, sp⟩ := p
    unfold mkStatesT mkStates
    rw [stateDrawsT_simple, ih]
    rfl

theorem diseaseT_simple (B : Blk) (cfg : Config) (evIdx : List Nat) (s : State) :
    diseaseT Tm.simple B cfg evIdx s = disease B cfg evIdx s := by
  unfold diseaseT disease
  rw [mkStatesT_simple]
  rfl


/-! ### what one listener call does (any time rendering) -/

/-- a creation: the clock and every existing row are untouched; the new rows are appended, carry the new labels in
order, are tracked, entered at the current clock and have not left -/
theorem createT_spec (tm : Tm) (B : Blk) (cfg : Config) (site : String) (k : Nat) (s s' : State)
    (h : createT tm B cfg site k s = .ok s') :
    s'.clock = s.clock ∧ ∃ keys sexes sts ages : List Nat,
      s'.rows = s.rows ++ mkRows s.clock (newLabels s.rows k) keys sexes sts ages := by
  unfold createT at h
  simp only at h
  split at h
  · rename_i hemp
    cases h
    refine ⟨rfl, [], [], [], [], ?_⟩
    rw [List.isEmpty_iff.mp hemp]; simp [mkRows]
  · split at h
    · cases h
    · split at h
      · cases h
      · split at h
        · cases h
        · split at h
          · cases h
          · cases h
            exact ⟨rfl, _, _, _, _, rfl⟩

/-- the rows a creation appends -/
theorem createT_rows (tm : Tm) (B : Blk) (cfg : Config) (site : String) (k : Nat) (s s' : State)
    (h : createT tm B cfg site k s = .ok s') :
    s'.clock = s.clock ∧ s.rows.length ≤ s'.rows.length ∧
    (∀ (i : Nat) (r : Row), s.rows[i]? = some r → s'.rows[i]? = some r) ∧
    (∀ (i : Nat) (r' : Row), s'.rows[i]? = some r' → s.rows.length ≤ i →
      r'.tracked = true ∧ r'.exit = none ∧ r'.entrance = s.clock ∧ (Lab s → r'.label = i)) ∧
    (Lab s → s'.rows.length = s.rows.length + k) := by
  obtain ⟨hc, keys, sexes, sts, ages, hrows⟩ := createT_spec tm B cfg site k s s' h
  refine ⟨hc, by rw [hrows]; simp, ?_, ?_, ?_⟩
  · intro i r hr
    rw [hrows, List.getElem?_append_left (lt_of_getElem? hr)]; exact hr
  · intro i r' hr' hge
    rw [hrows, List.getElem?_append_right hge, getElem?_mkRows] at hr'
    obtain ⟨l, hl, hr'⟩ := Option.map_eq_some_iff.mp hr'
    subst hr'
    refine ⟨rfl, rfl, rfl, fun hlab => ?_⟩
    rw [newLabels_fresh s hlab] at hl
    have hj := lt_of_getElem? hl
    simp only [List.length_range'] at hj
    rw [List.getElem?_range' hj] at hl
    simp only [Option.some.injEq] at hl
    simp only; omega
  · intro hlab
    rw [hrows, List.length_append, length_mkRows, newLabels_fresh s hlab, List.length_range']

/-- `WMort.act`: only TRACKED simulants OF THE EVENT INDEX can change – they are untracked with `exit = event.time` -/
theorem mortT_rows (tm : Tm) (B : Blk) (cfg : Config) (evIdx : List Nat) (evTime : Int) (s s' : State)
    (h : mortT tm B cfg evIdx evTime s = .ok s') :
    s'.clock = s.clock ∧ s'.rows.length = s.rows.length ∧
    ∀ (i : Nat) (r : Row), s.rows[i]? = some r → ∃ r', s'.rows[i]? = some r' ∧
      (r' = r ∨ (evIdx.contains r.label = true ∧ r.tracked = true ∧ r' = { r with tracked := false, exit := some evTime })) := by
  unfold mortT at h
  simp only at h
  split at h
  · cases h; exact ⟨rfl, rfl, fun _ r hr => ⟨r, hr, Or.inl rfl⟩⟩
  · split at h
    · cases h
    · split at h
      · cases h
      · cases h
        refine ⟨rfl, by simp, ?_⟩
        intro i r hr
        simp only [List.getElem?_map, hr, Option.map_some]
        refine ⟨_, rfl, ?_⟩
        split
        · rename_i hc
          simp only [live, Bool.and_eq_true] at hc
          exact Or.inr ⟨hc.1.2, hc.1.1, rfl⟩
        · exact Or.inl rfl

/-- `WDisease.act`: only the `state` cell of TRACKED simulants OF THE EVENT INDEX can change (C17 `transition_frame`,
`transition_untracked_untouched`) -/
theorem diseaseT_rows (tm : Tm) (B : Blk) (cfg : Config) (evIdx : List Nat) (s s' : State)
    (h : diseaseT tm B cfg evIdx s = .ok s') :
    s'.clock = s.clock ∧ s'.rows.length = s.rows.length ∧
    ∀ (i : Nat) (r : Row), s.rows[i]? = some r → ∃ r', s'.rows[i]? = some r' ∧
      (r' = r ∨ (evIdx.contains r.label = true ∧ r.tracked = true ∧ ∃ x, r' = { r with st := x })) := by
  unfold diseaseT at h
  simp only at h
  split at h
  · cases h; exact ⟨rfl, rfl, fun _ r hr => ⟨r, hr, Or.inl rfl⟩⟩
  · split at h
    · cases h
    · split at h
      · cases h
      · rename_i tab htab
        cases h
        have hfr := Viv.Props.C17.transition_frame _ _ _ _ _ htab
        have hlen' : tab.length = s.rows.length := by simpa using hfr.1
        refine ⟨rfl, by simp [hlen'], ?_⟩
        intro i r hr
        have hi := lt_of_getElem? hr
        have htb : tab[i]? = some tab[i] := by simp [hlen', hi]
        simp only [List.getElem?_zipWith, hr, htb]
        refine ⟨_, rfl, ?_⟩
        by_cases hin : evIdx.contains r.label = true
        · by_cases hu : r.tracked = true
          · exact Or.inr ⟨hin, hu, _, rfl⟩
          · left
            have hu' : r.tracked = false := by simpa using hu
            have := Viv.Props.C17.transition_untracked_untouched _ _ _ _ _ i
              { st := r.st, other := 0, tracked := r.tracked } htab (by rw [List.getElem?_map, hr]; rfl) hu'
            rw [htb] at this
            simp only [Option.some.injEq] at this
            rw [this]
        · left
          -- not in the event index: the machine is not even asked about this table position
          have hni : i ∉ (s.rows.zipIdx.filter fun p => evIdx.contains p.1.label).map (·.2) := by
            intro hmem
            obtain ⟨p, hp, hpi⟩ := List.mem_map.mp hmem
            have hp' := List.mem_filter.mp hp
            obtain ⟨a, b⟩ := p
            simp only at hpi; subst hpi
            have hz := List.mem_zipIdx hp'.1
            simp only [Nat.zero_add, Nat.sub_zero] at hz
            have : s.rows[b]? = some a := by
              obtain ⟨_, hlt, heq⟩ := hz
              rw [List.getElem?_eq_getElem hlt]; simp [heq]
            rw [hr] at this; cases this
            exact hin hp'.2
          have := hfr.2.1 i hni
          rw [htb, List.getElem?_map, hr] at this
          simp only [Option.map_some, Option.some.injEq] at this
          rw [this]


/-! ### one listener call of the DateTimeClock model; lifting invariants to events and steps -/

/-- what one listener call may do at an event with index `evIdx` and time `t`: rows outside the event index are
untouched, rows inside may evolve (`Evolves`: machine state of a tracked simulant, untracking with `exit = t`), new rows
are appended – and the clock gets exactly one individual clock per new row (`Clock.create`), nothing else -/
structure DRel (evIdx : List Nat) (t : Int) (d d' : DState) : Prop where
  clock : d'.base.clock = d.base.clock
  old : ∀ (i : Nat) (r : Row), d.base.rows[i]? = some r → ∃ r', d'.base.rows[i]? = some r' ∧
    (r' = r ∨ (evIdx.contains r.label = true ∧ Evolves t r r'))
  new : ∀ (i : Nat) (r' : Row), d'.base.rows[i]? = some r' → d.base.rows.length ≤ i →
    r'.tracked = true ∧ r'.exit = none ∧ r'.entrance = d.base.clock ∧ (Lab d.base → r'.label = i)
  clk : ∃ k, d'.clk = Clock.create d.clk k ∧ d'.base.rows.length = d.base.rows.length + k

theorem create_zero (c : Clock.Clock) : Clock.create c 0 = c := by
  simp [Clock.create]

theorem DRel.of_base {evIdx : List Nat} {t : Int} {d : DState} {s' : State}
    (hc : s'.clock = d.base.clock) (hl : s'.rows.length = d.base.rows.length)
    (hold : ∀ (i : Nat) (r : Row), d.base.rows[i]? = some r → ∃ r', s'.rows[i]? = some r' ∧
      (r' = r ∨ (evIdx.contains r.label = true ∧ Evolves t r r'))) :
    DRel evIdx t d { d with base := s' } := by
  refine ⟨hc, hold, ?_, ⟨0, (create_zero d.clk).symm, by simpa using hl⟩⟩
  intro i r' hr' hge
  have : s'.rows[i]? = none := List.getElem?_eq_none (by omega)
  simp only [this] at hr'
  cases hr'

/-- **every listener call** -/
theorem actD_rel (B : Blk) (cfg : Config) (ph : Nat) (evIdx : List Nat) (evTime : Int) (who : Nat) (d d' : DState)
    (h : actD B cfg ph evIdx evTime who d = .ok d') : DRel evIdx evTime d d' := by
  unfold actD at h
  split at h
  · -- births
    unfold birthsD at h
    simp only at h
    split at h
    · split at h
      · split at h
        · rename_i s' hs'
          cases h
          obtain ⟨hc, hle, hold, hnew, _⟩ := createT_rows _ B cfg _ _ d.base s' hs'
          exact ⟨hc, fun i r hr => ⟨r, hold i r hr, Or.inl rfl⟩, hnew, ⟨_, rfl, by simp only; omega⟩⟩
        · cases h
      · cases h; exact DRel.of_base rfl rfl fun _ r hr => ⟨r, hr, Or.inl rfl⟩
    · cases h; exact DRel.of_base rfl rfl fun _ r hr => ⟨r, hr, Or.inl rfl⟩
  · split at h
    · rename_i s' hs'
      cases h
      split at hs'
      · obtain ⟨hc, hl, hold⟩ := mortT_rows _ B cfg evIdx evTime d.base s' hs'
        refine DRel.of_base hc hl fun i r hr => ?_
        obtain ⟨r', hr', hcase⟩ := hold i r hr
        refine ⟨r', hr', ?_⟩
        rcases hcase with h | ⟨h1, h2, h3⟩
        · exact Or.inl h
        · exact Or.inr ⟨h1, Or.inr (Or.inr ⟨h2, h3⟩)⟩
      · split at hs'
        · obtain ⟨_, hrows, _, hclock, _⟩ := observe_rel B cfg evTime ph evIdx evTime d.base s' hs'
          exact DRel.of_base hclock (by rw [hrows]) fun i r hr => ⟨r, by rw [hrows]; exact hr, Or.inl rfl⟩
        · obtain ⟨hc, hl, hold⟩ := diseaseT_rows _ B cfg evIdx d.base s' hs'
          refine DRel.of_base hc hl fun i r hr => ?_
          obtain ⟨r', hr', hcase⟩ := hold i r hr
          refine ⟨r', hr', ?_⟩
          rcases hcase with h | ⟨h1, h2, x, h3⟩
          · exact Or.inl h
          · exact Or.inr ⟨h1, Or.inr (Or.inl ⟨h2, x, h3⟩)⟩
    · cases h

/-- an invariant of listener calls (possibly only of calls whose event satisfies `P`) is an invariant of events … -/
theorem runListenersD_inv (B : Blk) (cfg : Config) (I : DState → Prop) (P : List Nat → Int → Prop)
    (hI : ∀ evIdx t d d', I d → P evIdx t → DRel evIdx t d d' → I d') (ph : Nat) (evIdx : List Nat) (t : Int)
    (hP : P evIdx t) :
    ∀ (rs : List Ev.Reg) (d d' : DState), I d → runListenersD B cfg ph evIdx t rs d = .ok d' → I d' := by
  intro rs
  induction rs with
  | nil => intro d d' hi h; cases h; exact hi
  | cons r rs ih =>
    intro d d' hi h
    unfold runListenersD at h
    split at h
    · rename_i d1 h1
      exact ih d1 d' (hI evIdx t d d1 hi hP (actD_rel B cfg ph evIdx t r.2 d d1 h1)) h
    · cases h

/-- … and of the four events of a step, each with the event index and event time computed when it is emitted -/
theorem runPhasesD_inv (B : Blk) (cfg : Config) (I : DState → Prop) (P : List Nat → Int → Prop)
    (hI : ∀ evIdx t d d', I d → P evIdx t → DRel evIdx t d d' → I d')
    (hP : ∀ d, I d → P (Clock.active d.clk) (Clock.eventTime d.clk)) :
    ∀ (phs : List Nat) (d d' : DState), I d → runPhasesD B cfg phs d = .ok d' → I d' := by
  intro phs
  induction phs with
  | nil => intro d d' hi h; cases h; exact hi
  | cons ph phs ih =>
    intro d d' hi h
    unfold runPhasesD at h
    split at h
    · rename_i d1 h1
      unfold emitD at h1
      exact ih d1 d' (runListenersD_inv B cfg I P hI ph _ _ (hP d hi) _ d d1 hi h1) h
    · cases h


/-! ### the invariant that glues the table to the clock -/

/-- the world's clock is the clock's time, nobody is pending for a move to the end (the kit never asks), the clock has
exactly one individual clock per row of the table with the row's label as id, labels are `0 … n-1`; C10's invariant
`J` (every next-event time is at or after the event time, somebody is due exactly then, the step is positive) and its
configuration sanity -/
def Sync (d : DState) : Prop :=
  d.base.clock = d.clk.now ∧ d.clk.snooze = [] ∧ Viv.Props.C10.IdsOk d.clk ∧
  d.clk.sims.length = d.base.rows.length ∧ Lab d.base ∧ Viv.Props.C10.J d.clk ∧ Viv.Props.C10.Cfg d.clk

theorem evolves_label {t : Int} {r r' : Row} (h : Evolves t r r') : r'.label = r.label := h.frozen.1

theorem sync_kept (evIdx : List Nat) (t : Int) (d d' : DState) (hs : Sync d) (hr : DRel evIdx t d d') : Sync d' := by
  obtain ⟨h1, h2, h3, h4, h5, h6, h7⟩ := hs
  obtain ⟨k, hk, hlen⟩ := hr.clk
  refine ⟨?_, ?_, ?_, ?_, ?_, ?_, ?_⟩
  · rw [hr.clock, h1, hk]; rfl
  · rw [hk]; exact h2
  · rw [hk]; exact Viv.Props.C10.create_IdsOk d.clk k h3
  · rw [hk, hlen]; simp [Clock.create, h4]
  · intro i r' hr'
    rcases Nat.lt_or_ge i d.base.rows.length with hlt | hge
    · have hri : d.base.rows[i]? = some d.base.rows[i] := by simp [hlt]
      obtain ⟨r'', hr'', hcase⟩ := hr.old i _ hri
      rw [hr'] at hr''; cases hr''
      rcases hcase with h | ⟨_, h⟩
      · rw [h]; exact h5 i _ hri
      · rw [evolves_label h]; exact h5 i _ hri
    · exact (hr.new i r' hr' hge).2.2.2 h5
  · rw [hk]; exact Viv.Props.C10.create_J d.clk k h6
  · rw [hk]; exact h7

/-- the fields of the clock a listener call cannot change -/
theorem drel_clock_fields (evIdx : List Nat) (t : Int) (d d' : DState) (hr : DRel evIdx t d d') :
    d'.clk.now = d.clk.now ∧ d'.clk.step = d.clk.step ∧ d'.clk.stop = d.clk.stop ∧ d'.clk.minStep = d.clk.minStep ∧
    d'.clk.stdStep = d.clk.stdStep ∧ ∀ (i : Nat) (x : Clock.SimClk), d.clk.sims[i]? = some x → d'.clk.sims[i]? = some x := by
  obtain ⟨k, hk, _⟩ := hr.clk
  rw [hk]
  refine ⟨rfl, rfl, rfl, rfl, rfl, ?_⟩
  intro i x hx
  simp only [Clock.create]
  rw [List.getElem?_append_left (lt_of_getElem? hx)]; exact hx

/-- with ids `0 … n-1` the only individual clock with id `i` is the `i`-th -/
theorem idsOk_unique (c : Clock.Clock) (h : Viv.Props.C10.IdsOk c) (x : Clock.SimClk) (hx : x ∈ c.sims) :
    c.sims[x.id]? = some x := by
  obtain ⟨j, hj⟩ := List.mem_iff_getElem?.mp hx
  have hlt := lt_of_getElem? hj
  have : (c.sims.map (·.id))[j]? = some x.id := by rw [List.getElem?_map, hj]; rfl
  rw [h, List.getElem?_range hlt] at this
  have hid : x.id = j := (Option.some.inj this).symm
  rw [hid]; exact hj

theorem not_in_active (c : Clock.Clock) (h : Viv.Props.C10.IdsOk c) (i : Nat) (x : Clock.SimClk)
    (hx : c.sims[i]? = some x) (hnot : Clock.eventTime c < x.next) : i ∉ Clock.active c := by
  intro hmem
  simp only [Clock.active, Clock.activeAt, List.mem_map, List.mem_filter, Clock.due, decide_eq_true_eq] at hmem
  obtain ⟨y, ⟨hy, hd⟩, hid⟩ := hmem
  have := idsOk_unique c h y hy
  rw [hid, hx] at this
  cases this
  omega


theorem stepForward_snooze_nil (c : Clock.Clock) (mods : Nat → List (Option Nat)) (h : c.snooze = []) :
    (Clock.stepForward c mods).snooze = [] := by
  by_cases he : c.sims = []
  · rw [Viv.Clock.stepForward_empty c mods he]; exact h
  · obtain ⟨m, _, heq⟩ := Viv.Clock.stepForward_nonempty c mods he
    rw [heq]; simp [h]

/-- `clock.step_forward` keeps the invariant (C10 `stepForward_J_no_pending`, `stepForward_IdsOk`) -/
theorem tick_sync (dt : DtSpec) (d : DState) (hs : Sync d) : Sync (tick dt d) := by
  obtain ⟨h1, h2, h3, h4, h5, h6, h7⟩ := hs
  unfold tick
  refine ⟨rfl, stepForward_snooze_nil _ _ h2, Viv.Props.C10.stepForward_IdsOk _ _ h3, ?_, h5,
    Viv.Props.C10.stepForward_J_no_pending _ _ h7 h6 h2, ?_⟩
  · simp only [Viv.Clock.stepForward_sims, List.length_map]; exact h4
  · simp only [Viv.Props.C10.Cfg, Viv.Clock.stepForward_minStep, Viv.Clock.stepForward_stdStep]; exact h7

/-- one `step()` keeps the invariant -/
theorem stepD_sync (B : Blk) (cfg : Config) (dt : DtSpec) (d d' : DState) (hs : Sync d)
    (h : stepD B cfg dt d = .ok d') : Sync d' := by
  unfold stepD at h
  split at h
  · rename_i d1 h1
    cases h
    exact tick_sync dt d1 (runPhasesD_inv B cfg Sync (fun _ _ => True)
      (fun evIdx t a b ha _ hr => sync_kept evIdx t a b ha hr) (fun _ _ => trivial) _ d d1 hs h1)
  · cases h

/-- the state `initialize_simulants` leaves satisfies the invariant (C10 `create_J`; needs a positive minimum step) -/
theorem initPopD_sync (B : Blk) (cfg : Config) (dt : DtSpec) (hstep : 0 < cfg.step) (d0 : DState)
    (h : initPopD B cfg dt = .ok d0) : Sync d0 := by
  unfold initPopD at h
  simp only at h
  split at h
  · rename_i s hs
    cases h
    apply tick_sync
    have hinit : Sync (initStateD cfg dt) := by
      refine ⟨rfl, rfl, by simp [Viv.Props.C10.IdsOk, initStateD, Clock.stepBackward, Clock.configure], rfl,
        by intro i r hr; simp [initStateD, initState] at hr, ?_, ?_⟩
      · refine ⟨by intro x hx; simp [initStateD, Clock.stepBackward, Clock.configure] at hx,
          by intro hne; simp [initStateD, Clock.stepBackward, Clock.configure] at hne, ?_⟩
        simpa [initStateD, Clock.stepBackward, Clock.configure] using hstep
      · simp only [Viv.Props.C10.Cfg, initStateD, Clock.stepBackward, Clock.configure]
        refine ⟨hstep, ?_⟩
        split <;> omega
    obtain ⟨hc, hle, hold, hnew, _⟩ := createT_rows _ B cfg _ _ (initStateD cfg dt).base s hs
    exact sync_kept [] 0 (initStateD cfg dt) _ hinit
      ⟨hc, fun i r hr => ⟨r, hold i r hr, Or.inl rfl⟩, hnew, ⟨_, rfl, by simp only; omega⟩⟩
  · cases h

theorem iterD_sync (B : Blk) (cfg : Config) (dt : DtSpec) :
    ∀ (n : Nat) (d d' : DState), Sync d → iterD B cfg dt n d = .ok d' → Sync d' := by
  intro n
  induction n with
  | zero => intro d d' hs h; cases h; exact hs
  | succ n ih =>
    intro d d' hs h
    unfold iterD at h
    split at h
    · rename_i d1 h1
      exact ih d1 d' (stepD_sync B cfg dt d d1 hs h1) h
    · cases h


/-! ### events carry exactly the due simulants; nobody is updated early -/

/-- **the index of an event = the simulants whose next-event time IS the event time** (C10 `active_exact` on the
composed state): label `i` is in the index iff row `i`'s individual clock says so – nobody early, nobody skipped -/
theorem event_index_is_due (d : DState) (hs : Sync d) (i : Nat) :
    i ∈ Clock.active d.clk ↔ ∃ x, d.clk.sims[i]? = some x ∧ x.next = Clock.eventTime d.clk := by
  obtain ⟨_, _, hids, _, _, hJ, _⟩ := hs
  rw [Viv.Props.C10.active_exact d.clk hJ i]
  constructor
  · rintro ⟨x, hx, hid, hn⟩
    have := idsOk_unique d.clk hids x hx
    rw [hid] at this
    exact ⟨x, this, hn⟩
  · rintro ⟨x, hx, hn⟩
    have hlt := lt_of_getElem? hx
    have hmem : x ∈ d.clk.sims := List.mem_of_getElem? hx
    have := idsOk_unique d.clk hids x hmem
    have hid : x.id = i := by
      have h1 : (d.clk.sims.map (·.id))[i]? = some x.id := by rw [List.getElem?_map, hx]; rfl
      rw [hids, List.getElem?_range hlt] at h1
      exact (Option.some.inj h1).symm
    exact ⟨x, hmem, hid, hn⟩

/-- the state between the four events of a step and the clock update: the clock's time and global step are those the
step started with, the invariant holds -/
theorem runPhasesD_clock (B : Blk) (cfg : Config) (phs : List Nat) (d d1 : DState) (hs : Sync d)
    (h : runPhasesD B cfg phs d = .ok d1) :
    Sync d1 ∧ d1.clk.now = d.clk.now ∧ d1.clk.step = d.clk.step ∧ d1.clk.minStep = d.clk.minStep ∧
      d1.clk.stdStep = d.clk.stdStep := by
  have := runPhasesD_inv B cfg
    (fun a => Sync a ∧ a.clk.now = d.clk.now ∧ a.clk.step = d.clk.step ∧ a.clk.minStep = d.clk.minStep ∧
      a.clk.stdStep = d.clk.stdStep) (fun _ _ => True)
    (fun evIdx t a b ⟨ha, h1, h2, h3, h4⟩ _ hr => by
      obtain ⟨e1, e2, _, e4, e5, _⟩ := drel_clock_fields evIdx t a b hr
      exact ⟨sync_kept evIdx t a b ha hr, e1.trans h1, e2.trans h2, e4.trans h3, e5.trans h4⟩)
    (fun _ _ => trivial) phs d d1 ⟨hs, rfl, rfl, rfl, rfl⟩ h
  exact this

/-- **one step moves the clock to the event time of its events** – the earliest next-event time (C10
`advance_to_earliest`), and the world's clock with it -/
theorem stepD_time (B : Blk) (cfg : Config) (dt : DtSpec) (d d' : DState) (hs : Sync d)
    (h : stepD B cfg dt d = .ok d') :
    d'.clk.now = Clock.eventTime d.clk ∧ d'.base.clock = Clock.eventTime d.clk ∧
    (d.clk.sims ≠ [] → Clock.minOpt (d.clk.sims.map (·.next)) = some d'.clk.now) := by
  unfold stepD at h
  split at h
  · rename_i d1 h1
    cases h
    obtain ⟨_, hn, hst, _, _⟩ := runPhasesD_clock B cfg _ d d1 hs h1
    have hnow : (tick dt d1).clk.now = Clock.eventTime d.clk := by
      simp only [tick, Viv.Clock.stepForward_now, Clock.eventTime, hn, hst]
    refine ⟨hnow, hnow, fun hne => ?_⟩
    rw [hnow]
    have := Viv.Props.C10.advance_to_earliest d.clk (fun _ => []) hs.2.2.2.2.2.1 hne
    rw [this, Viv.Clock.stepForward_now]; rfl
  · cases h

/-- **nobody is updated early**: a simulant that is NOT due at a step's event time (its next-event time lies after
it) comes out of the whole step – four events, every listener, births around it, the clock update – with its row of
the state table AND its individual clock untouched -/
theorem not_due_untouched (B : Blk) (cfg : Config) (dt : DtSpec) (d d' : DState) (hs : Sync d)
    (h : stepD B cfg dt d = .ok d') (i : Nat) (r : Row) (x : Clock.SimClk)
    (hr : d.base.rows[i]? = some r) (hx : d.clk.sims[i]? = some x) (hnot : Clock.eventTime d.clk < x.next) :
    d'.base.rows[i]? = some r ∧ d'.clk.sims[i]? = some x := by
  unfold stepD at h
  split at h
  · rename_i d1 h1
    cases h
    have hinv := runPhasesD_inv B cfg
      (fun a => Sync a ∧ a.clk.now = d.clk.now ∧ a.clk.step = d.clk.step ∧ a.base.rows[i]? = some r ∧ a.clk.sims[i]? = some x)
      (fun evIdx _ => i ∉ evIdx)
      (fun evIdx t a b ⟨ha, h1, h2, h3, h4⟩ hP hrel => by
        obtain ⟨e1, e2, _, _, _, e6⟩ := drel_clock_fields evIdx t a b hrel
        refine ⟨sync_kept evIdx t a b ha hrel, e1.trans h1, e2.trans h2, ?_, e6 i x h4⟩
        obtain ⟨r', hr', hcase⟩ := hrel.old i r h3
        rcases hcase with hc | ⟨hc, _⟩
        · rw [hr', hc]
        · exfalso
          have hl : r.label = i := ha.2.2.2.2.1 i r h3
          rw [hl] at hc
          exact hP (by simpa using hc))
      (fun a ⟨ha, h1, h2, _, h4⟩ => not_in_active a.clk ha.2.2.1 i x h4 (by simp only [Clock.eventTime, h1, h2]; exact hnot))
      _ d d1 ⟨hs, rfl, rfl, hr, hx⟩ h1
    obtain ⟨hs1, hn1, hst1, hr1, hx1⟩ := hinv
    refine ⟨hr1, ?_⟩
    simp only [tick, Viv.Clock.stepForward_sims, List.getElem?_map, hx1, Option.map_some]
    congr 1
    have hn : Clock.needsUpdate d1.clk (d1.clk.now + d1.clk.step) x = false := by
      simp only [Clock.needsUpdate, Clock.due, hs1.2.1, Bool.or_eq_false_iff, decide_eq_false_iff_not]
      refine ⟨?_, by simp⟩
      simp only [Clock.eventTime] at hnot
      rw [hn1, hst1]; omega
    unfold Clock.updSim
    simp [hn]
  · cases h


/-- **a due simulant's next step is what the modifiers ask for IT**: every simulant whose individual clock is due at
the step's event time (and every simulant born during the step) leaves the step with
`step_size = post-processor(min over the modifiers' answers for its CURRENT state, else the standard step)` and
`next_event_time = new clock + step_size` (C10 `included_moves_forward`; the modifiers read the table as the listeners
left it) -/
theorem due_gets_modifier_step (B : Blk) (cfg : Config) (dt : DtSpec) (d d' : DState) (hs : Sync d)
    (h : stepD B cfg dt d = .ok d') (i : Nat) (x' : Clock.SimClk) (hx' : d'.clk.sims[i]? = some x')
    (hdue : ∀ x, d.clk.sims[i]? = some x → x.next ≤ Clock.eventTime d.clk) :
    x'.id = i ∧ x'.step = Clock.postProcess d.clk.minStep d.clk.stdStep (modsOf dt d'.base.rows i) ∧
      x'.next = d'.clk.now + x'.step := by
  have hs' := stepD_sync B cfg dt d d' hs h
  unfold stepD at h
  split at h
  · rename_i d1 h1
    cases h
    obtain ⟨hs1, hn1, hst1, hm1, hsd1⟩ := runPhasesD_clock B cfg _ d d1 hs h1
    -- the individual clock at position `i` before the update
    have hlen : i < d1.clk.sims.length := by
      have := lt_of_getElem? hx'
      simpa [tick, Viv.Clock.stepForward_sims] using this
    have hx1 : d1.clk.sims[i]? = some d1.clk.sims[i] := by simp [hlen]
    have hid1 : (d1.clk.sims[i]).id = i := by
      have h1' : (d1.clk.sims.map (·.id))[i]? = some (d1.clk.sims[i]).id := by rw [List.getElem?_map, hx1]; rfl
      rw [hs1.2.2.1, List.getElem?_range hlen] at h1'
      exact (Option.some.inj h1').symm
    -- it is due at the event time: an old one by hypothesis, a newborn because it was created with the event time
    have hdue1 : (d1.clk.sims[i]).next ≤ Clock.eventTime d1.clk := by
      have hev : Clock.eventTime d1.clk = Clock.eventTime d.clk := by simp [Clock.eventTime, hn1, hst1]
      rw [hev]
      rcases Nat.lt_or_ge i d.clk.sims.length with hlt | hge
      · have hxi : d.clk.sims[i]? = some d.clk.sims[i] := by simp [hlt]
        -- listener calls never touch an existing individual clock
        have hkeep := runPhasesD_inv B cfg (fun a => a.clk.sims[i]? = some d.clk.sims[i]) (fun _ _ => True)
          (fun evIdx t a b ha _ hrel => (drel_clock_fields evIdx t a b hrel).2.2.2.2.2 i _ ha) (fun _ _ => trivial)
          _ d d1 hxi h1
        rw [hx1] at hkeep
        rw [Option.some.inj hkeep]
        exact hdue _ hxi
      · -- born during the step: created with `next_event_time = event_time`, untouched by later listener calls
        have hkeep := runPhasesD_inv B cfg
          (fun a => a.clk.now = d.clk.now ∧ a.clk.step = d.clk.step ∧
            ∀ j y, d.clk.sims.length ≤ j → a.clk.sims[j]? = some y → y.next = Clock.eventTime d.clk)
          (fun _ _ => True)
          (fun evIdx t a b ⟨e1, e2, ha⟩ _ hrel => by
            obtain ⟨k, hk, _⟩ := hrel.clk
            refine ⟨by rw [hk]; exact e1, by rw [hk]; exact e2, ?_⟩
            intro j y hj hy
            rw [hk] at hy
            simp only [Clock.create] at hy
            rcases Nat.lt_or_ge j a.clk.sims.length with hlt | hge'
            · rw [List.getElem?_append_left hlt] at hy; exact ha j y hj hy
            · rw [List.getElem?_append_right hge', List.getElem?_map] at hy
              obtain ⟨_, _, rfl⟩ := Option.map_eq_some_iff.mp hy
              simp [Clock.eventTime, e1, e2])
          (fun _ _ => trivial) _ d d1
          ⟨rfl, rfl, fun j y hj hy => by rw [List.getElem?_eq_none hj] at hy; cases hy⟩ h1
        rw [hkeep.2.2 i _ hge hx1]
        exact Int.le_refl _
    obtain ⟨s', hs'mem, hs'id, hs'step, hs'next⟩ :=
      Viv.Props.C10.included_moves_forward d1.clk (modsOf dt d1.base.rows) _ (List.mem_of_getElem? hx1) hdue1
        (by rw [hs1.2.1]; simp)
    have hpos := idsOk_unique (tick dt d1).clk hs'.2.2.1 s' (by simpa [tick] using hs'mem)
    rw [hs'id, hid1, hx'] at hpos
    cases hpos
    refine ⟨hs'id.trans hid1, ?_, ?_⟩
    · rw [hs'step, hid1, hm1, hsd1]; rfl
    · rw [hs'next]; rfl
  · cases h


/-- after every step the new global step is the distance to the earliest next-event time (C10
`next_event_is_earliest`): the next event is the earliest one, nobody's next-event time is passed -/
theorem next_event_is_earliestD (B : Blk) (cfg : Config) (dt : DtSpec) (d d' : DState)
    (h : stepD B cfg dt d = .ok d') (hne : d'.clk.sims ≠ []) :
    Clock.minOpt (d'.clk.sims.map (·.next)) = some (Clock.eventTime d'.clk) := by
  unfold stepD at h
  split at h
  · rename_i d1 _
    cases h
    have hne1 : d1.clk.sims ≠ [] := by
      intro he
      apply hne
      simp [tick, Viv.Clock.stepForward_sims, he]
    exact Viv.Props.C10.next_event_is_earliest d1.clk _ hne1
  · cases h

/-- running `n + m` steps = running `n` steps, then `m` more (interrupt / resume at any step boundary) -/
theorem iterD_add (B : Blk) (cfg : Config) (dt : DtSpec) (n m : Nat) :
    ∀ d : DState, iterD B cfg dt (n + m) d = (iterD B cfg dt n d).bind (iterD B cfg dt m) := by
  induction n with
  | zero => intro d; rw [Nat.zero_add]; rfl
  | succ n ih =>
    intro d
    rw [Nat.succ_add]
    show iterD B cfg dt (n + m + 1) d = (iterD B cfg dt (n + 1) d).bind (iterD B cfg dt m)
    unfold iterD
    cases stepD B cfg dt d with
    | ok d' => exact ih d'
    | error e => rfl

theorem resumeD (B : Blk) (cfg : Config) (dt : DtSpec) (n m : Nat) (d d1 : DState)
    (h : iterD B cfg dt n d = .ok d1) : iterD B cfg dt (n + m) d = iterD B cfg dt m d1 := by
  rw [iterD_add, h]; rfl

/-- **`run()` = `step()` while the clock is before the stop time** – with per-simulant clocks the number of steps is
not a function of the configuration, but the loop is still the iteration of `step()`: with enough fuel `run` makes
`k` steps for the first `k` at which the clock has reached the stop time -/
theorem runD_eq_iter (B : Blk) (cfg : Config) (dt : DtSpec) :
    ∀ (fuel : Nat) (d d' : DState), runD B cfg dt fuel d = .ok d' → ∃ k, k ≤ fuel ∧ iterD B cfg dt k d = .ok d' := by
  intro fuel
  induction fuel with
  | zero => intro d d' h; cases h; exact ⟨0, Nat.le_refl _, rfl⟩
  | succ fuel ih =>
    intro d d' h
    unfold runD at h
    split at h
    · split at h
      · rename_i d1 h1
        obtain ⟨k, hk, hit⟩ := ih d1 d' h
        refine ⟨k + 1, by omega, ?_⟩
        show iterD B cfg dt (k + 1) d = _
        unfold iterD
        rw [h1]; exact hit
      · cases h
    · cases h; exact ⟨0, Nat.zero_le _, rfl⟩

/-- **an untracked simulant's row is identical for the rest of the run** – in the DateTimeClock model too (its
individual clock keeps ticking, the events keep carrying it, nothing acts on it) -/
theorem untracked_stayD (B : Blk) (cfg : Config) (dt : DtSpec) (n : Nat) (d d' : DState)
    (h : iterD B cfg dt n d = .ok d') (i : Nat) (r : Row) (hr : d.base.rows[i]? = some r) (hu : r.tracked = false) :
    d'.base.rows[i]? = some r := by
  induction n generalizing d with
  | zero => cases h; exact hr
  | succ n ih =>
    unfold iterD at h
    split at h
    · rename_i d1 h1
      apply ih d1 h
      unfold stepD at h1
      split at h1
      · rename_i d2 h2
        cases h1
        show d2.base.rows[i]? = some r
        exact runPhasesD_inv B cfg (fun a => a.base.rows[i]? = some r) (fun _ _ => True)
          (fun evIdx t a b ha _ hrel => by
            obtain ⟨r', hr', hcase⟩ := hrel.old i r ha
            rcases hcase with hc | ⟨_, hc⟩
            · rw [hr', hc]
            · rw [hr', hc.frozen.2.2.2.2.1 hu])
          (fun _ _ => trivial) _ d d2 hr h2
      · cases h1
    · cases h

/-- **the exit time is the event time of the step** – the clock after it –, whatever the global step was -/
theorem exit_is_event_timeD (B : Blk) (cfg : Config) (dt : DtSpec) (d d' : DState) (hs : Sync d)
    (h : stepD B cfg dt d = .ok d') (i : Nat) (r' : Row) (hr' : d'.base.rows[i]? = some r') (hu : r'.tracked = false) :
    d.base.rows[i]? = some r' ∨ r'.exit = some d'.clk.now := by
  have htime := (stepD_time B cfg dt d d' hs h).1
  unfold stepD at h
  split at h
  · rename_i d1 h1
    cases h
    have hinv := runPhasesD_inv B cfg
      (fun a => a.clk.now = d.clk.now ∧ a.clk.step = d.clk.step ∧
        ∀ (i : Nat) (r' : Row), a.base.rows[i]? = some r' → r'.tracked = false →
          d.base.rows[i]? = some r' ∨ r'.exit = some (Clock.eventTime d.clk))
      (fun _ t => t = Clock.eventTime d.clk)
      (fun evIdx t a b ⟨e1, e2, ha⟩ hP hrel => by
        obtain ⟨f1, f2, _⟩ := drel_clock_fields evIdx t a b hrel
        refine ⟨f1.trans e1, f2.trans e2, fun j q hq huq => ?_⟩
        rcases Nat.lt_or_ge j a.base.rows.length with hlt | hge
        · have hrj : a.base.rows[j]? = some a.base.rows[j] := by simp [hlt]
          obtain ⟨q', hq', hcase⟩ := hrel.old j _ hrj
          rw [hq] at hq'; cases hq'
          rcases hcase with hc | ⟨_, hc | ⟨htr, y, hc⟩ | ⟨htr, hc⟩⟩
          · rw [hc] at huq ⊢; exact ha j _ hrj huq
          · rw [hc] at huq ⊢; exact ha j _ hrj huq
          · rw [hc] at huq; simp [htr] at huq
          · right; rw [hc, hP]
        · obtain ⟨htr, _⟩ := hrel.new j q hq hge
          rw [htr] at huq; cases huq)
      (fun a ⟨e1, e2, _⟩ => by simp [Clock.eventTime, e1, e2])
      _ d d1 ⟨rfl, rfl, fun j q hq _ => Or.inl hq⟩ h1
    rcases hinv.2.2 i r' hr' hu with hc | hc
    · exact Or.inl hc
    · right; rw [hc, htime]
  · cases h

/-- labels over a whole DateTimeClock run are `0 … n-1` in table order, one individual clock per row -/
theorem labels_freshD (B : Blk) (cfg : Config) (dt : DtSpec) (hstep : 0 < cfg.step) (n : Nat) (d0 d : DState)
    (h0 : initPopD B cfg dt = .ok d0) (h : iterD B cfg dt n d0 = .ok d) :
    d.base.rows.map (·.label) = List.range d.base.rows.length ∧
    d.clk.sims.map (·.id) = List.range d.base.rows.length := by
  have hs := iterD_sync B cfg dt n d0 d (initPopD_sync B cfg dt hstep d0 h0) h
  exact ⟨lab_labels d.base hs.2.2.2.2.1, by rw [← hs.2.2.2.1]; exact hs.2.2.1⟩

/-! ### the hypotheses are inhabited (toy block of `Props/Whole.lean`) -/

def cfgD : Config :=
  { cfgEx with
    start := 96
    step := 6
    stop := 144
    order := [0, 1, 2, 7]
    births := [[0, 1, 0, 0], [0, 0, 0, 0], [0, 0, 0, 0]]
    mortP := [[2, 2], [8, 8]]
    initW := [[0, 16], [16, 0]] }

/-- one modifier: 6 hours in state s0, 18 hours in state s1; standard step 12 hours -/
def dtEx : DtSpec := ⟨12, [[some 6, some 18]]⟩

set_option maxRecDepth 100000 in
example : validD cfgD dtEx = true := by decide +kernel

set_option maxRecDepth 100000 in
/-- the initial population (two simulants in s1) steps 18 hours: the clock's first global step is 18 hours -/
example : (initPopD toyB cfgD dtEx).toOption.map
      (fun d => (d.base.clock, d.clk.step, d.clk.sims.map fun x => (x.id, x.next, x.step))) =
    some (96, 18, [(0, 114, 18), (1, 114, 18)]) := by decide +kernel

set_option maxRecDepth 100000 in
/-- two steps: the clock goes 96 → 114 → 120; a simulant born in the first step (state s0: 6-hour steps) is the ONLY one
due at 120 and leaves then (`exit = 120` = the event time); simulants 0 and 1 are not due before 132 – the hypotheses of
`not_due_untouched` hold for them at the second step (`120 < 132`) -/
example : ((initPopD toyB cfgD dtEx).bind (iterD toyB cfgD dtEx 2)).toOption.map
      (fun d => (d.base.clock, d.base.rows.map (fun r => (r.label, r.tracked, r.st)))) =
    some (120, [(0, true, 1), (1, true, 1), (2, false, 0)]) := by decide +kernel

set_option maxRecDepth 100000 in
example : ((initPopD toyB cfgD dtEx).bind (iterD toyB cfgD dtEx 2)).toOption.map
      (fun d => d.base.rows.map (fun r => r.exit)) = some [none, none, some 120] := by decide +kernel

set_option maxRecDepth 100000 in
example : ((initPopD toyB cfgD dtEx).bind (iterD toyB cfgD dtEx 2)).toOption.map
      (fun d => (d.clk.step, d.clk.sims.map fun x => (x.id, x.next, x.step))) =
    some (6, [(0, 132, 18), (1, 132, 18), (2, 126, 6)]) := by decide +kernel

set_option maxRecDepth 100000 in
/-- the event index of the second step is `[2]` -/
example : ((initPopD toyB cfgD dtEx).bind (iterD toyB cfgD dtEx 1)).toOption.map (fun d => Clock.active d.clk) =
    some [2] := by decide +kernel

example : stamp 102 = "2021-01-05 06:00:00" ∧ tenOf 102 = 1609826 := by decide

end Viv.Props.WholeDt
