/-! Prototype: artifact key space / file / cache (C19) -/
namespace Vm.Art

abbrev Key := Nat
abbrev Data := Nat

structure Art where
  file  : List (Key × Data)     -- data nodes in the HDF file
  keys  : List Key              -- in-memory key list (`Keys._keys`, without the keyspace node itself)
  space : List Key              -- persisted `metadata.keyspace`
  cache : List (Key × Data)
deriving Repr

inductive Op
  | write (k : Key) (d : Option Data) (wellFormed serialisable : Bool)
  | load (k : Key)
  | remove (k : Key)
  | replace (k : Key) (d : Option Data) (serialisable : Bool)
  | clearCache
  | reopen
deriving Repr

inductive Out | ok | data (d : Data) | rejected deriving Repr, DecidableEq

def lookup (m : List (Key × Data)) (k : Key) : Option Data := (m.find? (·.1 == k)).map (·.2)

/-- the repaired semantics: every rejection happens before any mutation -/
def step (a : Art) : Op → Art × Out
  | .write k d wf ser =>
    if a.keys.contains k then (a, .rejected)
    else match d with
      | none => (a, .rejected)
      | some d =>
        if ¬ wf ∨ ¬ ser then (a, .rejected)
        else ({ a with file := a.file ++ [(k, d)], keys := a.keys ++ [k], space := a.keys ++ [k] }, .ok)
  | .load k =>
    if ¬ a.keys.contains k then (a, .rejected)
    else match lookup a.cache k with
      | some d => (a, .data d)
      | none => match lookup a.file k with
        | some d => ({ a with cache := a.cache ++ [(k, d)] }, .data d)
        | none => (a, .rejected)
  | .remove k =>
    if ¬ a.keys.contains k then (a, .rejected)
    else ({ a with file := a.file.filter (·.1 != k), keys := a.keys.filter (· != k),
                   space := a.keys.filter (· != k), cache := a.cache.filter (·.1 != k) }, .ok)
  | .replace k d ser =>
    if ¬ a.keys.contains k then (a, .rejected)
    else match d with
      | none => (a, .rejected)
      | some d =>
        if ¬ ser then (a, .rejected)
        else
          let ks := a.keys.filter (· != k)
          ({ file := a.file.filter (·.1 != k) ++ [(k, d)], keys := ks ++ [k], space := ks ++ [k],
             cache := a.cache.filter (·.1 != k) }, .ok)
  | .clearCache => ({ a with cache := [] }, .ok)
  | .reopen => ({ a with keys := a.space, cache := [] }, .ok)

/-- keys, persisted key space and file agree; the cache only holds what the file holds -/
def Inv (a : Art) : Prop :=
  a.keys = a.space ∧ a.keys = a.file.map (·.1) ∧ a.keys.Nodup ∧ ∀ e ∈ a.cache, e ∈ a.file

theorem nodup_filter_append (l : List Key) (k : Key) (h : l.Nodup) : (l.filter (· != k) ++ [k]).Nodup := by
  rw [List.nodup_append]
  refine ⟨h.sublist List.filter_sublist, by simp, ?_⟩
  intro a ha b hb
  simp only [List.mem_filter, bne_iff_ne, ne_eq, List.mem_singleton] at ha hb
  rw [hb]; exact ha.2

theorem step_inv (a : Art) (op : Op) (h : Inv a) : Inv (step a op).1 := by
  obtain ⟨h1, h2, h3, h4⟩ := h
  cases op with
  | write k d wf ser =>
    simp only [step]
    split
    · exact ⟨h1, h2, h3, h4⟩
    · rename_i hk
      cases d with
      | none => exact ⟨h1, h2, h3, h4⟩
      | some d =>
        simp only
        split
        · exact ⟨h1, h2, h3, h4⟩
        · refine ⟨rfl, by simp [h2], ?_, fun e he => List.mem_append_left _ (h4 e he)⟩
          rw [List.nodup_append]
          refine ⟨h3, by simp, ?_⟩
          intro x hx y hy
          simp only [List.mem_singleton] at hy
          rw [hy]; intro e; apply hk; rw [← e]; simpa using hx
  | load k =>
    simp only [step]
    split
    · exact ⟨h1, h2, h3, h4⟩
    · split
      · exact ⟨h1, h2, h3, h4⟩
      · split
        · rename_i d hd
          refine ⟨h1, h2, h3, ?_⟩
          intro e he
          rcases List.mem_append.mp he with he | he
          · exact h4 e he
          · simp only [List.mem_singleton] at he
            subst he
            simp only [lookup, Option.map_eq_some_iff] at hd
            obtain ⟨x, hx, hx2⟩ := hd
            have hmem := List.mem_of_find?_eq_some hx
            have hkey := List.find?_some hx
            simp only [beq_iff_eq] at hkey
            rw [← hkey, ← hx2]; exact hmem
        · exact ⟨h1, h2, h3, h4⟩
  | remove k =>
    simp only [step]
    split
    · exact ⟨h1, h2, h3, h4⟩
    · refine ⟨rfl, ?_, h3.sublist List.filter_sublist, ?_⟩
      · rw [h2, List.filter_map]; rfl
      · intro e he
        simp only [List.mem_filter] at he ⊢
        exact ⟨h4 e he.1, he.2⟩
  | replace k d ser =>
    simp only [step]
    split
    · exact ⟨h1, h2, h3, h4⟩
    · cases d with
      | none => exact ⟨h1, h2, h3, h4⟩
      | some d =>
        simp only
        split
        · exact ⟨h1, h2, h3, h4⟩
        · refine ⟨rfl, ?_, nodup_filter_append _ _ h3, ?_⟩
          · rw [h2, List.map_append, List.filter_map]; rfl
          · intro e he
            simp only [List.mem_filter] at he
            exact List.mem_append_left _ (List.mem_filter.mpr ⟨h4 e he.1, he.2⟩)
  | clearCache => exact ⟨h1, h2, h3, by simp [step]⟩
  | reopen => exact ⟨by simp [step], by simp [step, ← h1, h2], by simp only [step]; rw [← h1]; exact h3, by simp [step]⟩

/-- every reachable state (any operation sequence, including rejected operations and reopens) satisfies `Inv` -/
theorem ops_inv (ops : List Op) (a : Art) (h : Inv a) : Inv (ops.foldl (fun s op => (step s op).1) a) := by
  induction ops generalizing a with
  | nil => exact h
  | cons op ops ih => exact ih _ (step_inv a op h)

/-- a rejected operation leaves the artifact exactly as it was -/
theorem rejected_unchanged (a : Art) (op : Op) (h : (step a op).2 = .rejected) : (step a op).1 = a := by
  cases op with
  | write k d wf ser =>
    by_cases hk : k ∈ a.keys
    · simp [step, hk]
    · cases d with
      | none => simp [step, hk]
      | some d =>
        by_cases hw : (wf = false ∨ ser = false)
        · simp [step, hk, hw]
        · simp [step, hk, hw] at h
  | load k =>
    by_cases hk : k ∈ a.keys
    · cases hc : lookup a.cache k with
      | some d => simp [step, hk, hc]
      | none =>
        cases hf : lookup a.file k with
        | some d => simp [step, hk, hc, hf] at h
        | none => simp [step, hk, hc, hf]
    · simp [step, hk]
  | remove k =>
    by_cases hk : k ∈ a.keys
    · simp [step, hk] at h
    · simp [step, hk]
  | replace k d ser =>
    by_cases hk : k ∈ a.keys
    · cases d with
      | none => simp [step, hk]
      | some d =>
        by_cases hw : ser = true
        · simp [step, hk, hw] at h
        · simp [step, hk, hw]
    · simp [step, hk]
  | clearCache => simp [step] at h
  | reopen => simp [step] at h

end Vm.Art
