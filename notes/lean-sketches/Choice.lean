/-! Prototype: inverse-CDF choice and probability filter over integers (C05) -/
namespace Vm.Choice

/-- cumulative sums: `np.cumsum` -/
def cumsum : List Nat → List Nat
  | [] => []
  | w :: ws => w :: (cumsum ws).map (· + w)

/-- `(draw > p_bins).sum()` with `p = w / W`, `draw = d / D`: bin `c/W < d/D` ⇔ `c * D < d * W` -/
def choiceIdx (w : List Nat) (d D : Nat) : Nat :=
  let W := w.sum
  ((cumsum w).filter (fun c => c * D < d * W)).length

theorem cumsum_scale (k : Nat) (w : List Nat) : cumsum (w.map (k * ·)) = (cumsum w).map (k * ·) := by
  induction w with
  | nil => simp [cumsum]
  | cons a as ih => simp [cumsum, ih, Nat.mul_add, Function.comp_def]

theorem sum_scale (k : Nat) (w : List Nat) : (w.map (k * ·)).sum = k * w.sum := by
  induction w with
  | nil => simp
  | cons a as ih => simp [ih, Nat.mul_add]

/-- the decision is unchanged by rescaling the weight row by any positive factor -/
theorem choice_scale (k : Nat) (hk : 0 < k) (w : List Nat) (d D : Nat) :
    choiceIdx (w.map (k * ·)) d D = choiceIdx w d D := by
  unfold choiceIdx
  simp only [cumsum_scale, sum_scale, List.filter_map, List.length_map]
  congr 1
  apply List.filter_congr
  intro c _
  simp only [Function.comp]
  have h1 : k * c * D = k * (c * D) := by rw [Nat.mul_assoc]
  have h2 : d * (k * w.sum) = k * (d * w.sum) := by rw [Nat.mul_left_comm]
  rw [h1, h2]
  exact decide_eq_decide.mpr (Nat.mul_lt_mul_left hk)

/-- `filter_for_probability`: keep position i iff draw_i < p_i (common denominators) -/
def keep (d p : Nat) : Bool := decide (d < p)

theorem keep_mono {d p p' : Nat} (h : p ≤ p') (hk : keep d p = true) : keep d p' = true := by
  simp only [keep, decide_eq_true_eq] at *; omega
theorem keep_zero (d : Nat) : keep d 0 = false := by simp [keep]
/-- draws are `< D` (i.e. in [0,1)); probability `p ≥ D` (i.e. ≥ 1) keeps everybody -/
theorem keep_one {d D p : Nat} (hd : d < D) (hp : D ≤ p) : keep d p = true := by
  simp only [keep, decide_eq_true_eq]; omega

/-- the boundary finding F9: draw 0 with a leading zero weight picks the zero-weight option -/
theorem choice_zero_draw_picks_zero_weight : choiceIdx [0, 1] 0 16 = 0 := by decide
/-- while any positive draw does not -/
example : choiceIdx [0, 1] 1 16 = 1 := by decide
example : choiceIdx [2, 0, 2] 8 16 = 0 := by decide   -- draw exactly on an edge stays left
example : choiceIdx [2, 0, 2] 9 16 = 2 := by decide   -- and never lands on the zero-weight middle option

end Vm.Choice
