/-! Prototype: per-simulant clocks (C10) -/
namespace Vm.Clk

structure SimClk where
  id   : Nat
  next : Int
  step : Int
deriving Repr, DecidableEq

structure Clock where
  now     : Int
  step    : Int
  stop    : Int
  minStep : Int
  std     : Int
  sims    : List SimClk
  snooze  : List Nat
deriving Repr

def minOpt : List Int → Option Int
  | [] => none
  | x :: xs => some (xs.foldl min x)

/-- `step_size_post_processor`: min over modifiers (NaN skipped), standard step if none,
    floor to multiples of the minimum step, never below it -/
def postProcess (minStep std : Int) (mods : List (Option Int)) : Int :=
  let m := (minOpt (mods.filterMap id)).getD std
  let q := m / minStep
  (if q ≤ 0 then 1 else q) * minStep

def due (c : Clock) (t : Int) (s : SimClk) : Bool := decide (s.next ≤ t)

/-- `get_active_simulants(index, event_time)` -/
def active (c : Clock) : List Nat := (c.sims.filter (due c (c.now + c.step))).map (·.id)

def updSim (c : Clock) (now' : Int) (mods : Nat → List (Option Int)) (s : SimClk) : SimClk :=
  if s.next ≤ now' ∨ s.id ∈ c.snooze then
    let st := if s.id ∈ c.snooze then c.stop + c.minStep - now' else postProcess c.minStep c.std (mods s.id)
    { s with step := st, next := now' + st }
  else s

/-- `step_forward` (repaired guards): advance, recompute due or snoozed simulants, global step = min next - now -/
def stepForward (c : Clock) (mods : Nat → List (Option Int)) : Clock :=
  let now' := c.now + c.step
  let sims' := c.sims.map (updSim c now' mods)
  match minOpt (sims'.map (·.next)) with
  | none => { c with now := now' }
  | some m => { c with now := now', sims := sims', snooze := [], step := m - now' }

theorem foldl_min_le (xs : List Int) (x : Int) : xs.foldl min x ≤ x ∧ ∀ y ∈ xs, xs.foldl min x ≤ y := by
  induction xs generalizing x with
  | nil => simp
  | cons a as ih =>
    simp only [List.foldl_cons, List.mem_cons, forall_eq_or_imp]
    have h := ih (min x a)
    refine ⟨Int.le_trans h.1 (Int.min_le_left x a), Int.le_trans h.1 (Int.min_le_right x a), h.2⟩

theorem foldl_min_mem (xs : List Int) (x : Int) : xs.foldl min x = x ∨ xs.foldl min x ∈ xs := by
  induction xs generalizing x with
  | nil => simp
  | cons a as ih =>
    simp only [List.foldl_cons, List.mem_cons]
    rcases ih (min x a) with h | h
    · rw [h]; rcases Int.min_def x a ▸ (by split <;> simp_all : (if x ≤ a then x else a) = x ∨ (if x ≤ a then x else a) = a) with h' | h'
      · exact Or.inl h'
      · exact Or.inr (Or.inl h')
    · exact Or.inr (Or.inr h)

theorem minOpt_spec {xs : List Int} {m : Int} (h : minOpt xs = some m) : m ∈ xs ∧ ∀ y ∈ xs, m ≤ y := by
  cases xs with
  | nil => simp [minOpt] at h
  | cons x xs =>
    simp only [minOpt, Option.some.injEq] at h
    subst h
    have h1 := foldl_min_le xs x
    have h2 := foldl_min_mem xs x
    refine ⟨?_, ?_⟩
    · rcases h2 with h | h
      · rw [h]; exact List.mem_cons_self
      · exact List.mem_cons_of_mem _ h
    · intro y hy
      rcases List.mem_cons.mp hy with rfl | hy
      · exact h1.1
      · exact h1.2 y hy

theorem postProcess_ge (minStep std : Int) (mods : List (Option Int)) (hm : 0 < minStep) :
    minStep ≤ postProcess minStep std mods := by
  unfold postProcess
  simp only
  split
  · simp
  · rename_i h
    have : 1 ≤ ((minOpt (mods.filterMap id)).getD std) / minStep := by omega
    calc minStep = 1 * minStep := by simp
      _ ≤ _ := Int.mul_le_mul_of_nonneg_right this (Int.le_of_lt hm)

/-- "rounded down to a whole multiple of the minimum step" -/
theorem postProcess_multiple (minStep std : Int) (mods : List (Option Int)) :
    ∃ k : Int, 1 ≤ k ∧ postProcess minStep std mods = k * minStep := by
  unfold postProcess
  simp only
  split
  · exact ⟨1, by omega, rfl⟩
  · rename_i h; exact ⟨_, by omega, rfl⟩

/-- the invariant: nobody is behind the next event time, and somebody sits exactly on it -/
def J (c : Clock) : Prop :=
  (∀ s ∈ c.sims, c.now + c.step ≤ s.next) ∧ (c.sims ≠ [] → ∃ s ∈ c.sims, s.next = c.now + c.step) ∧ 0 < c.step

theorem updSim_next_gt (c : Clock) (now' : Int) (mods : Nat → List (Option Int)) (s : SimClk)
    (hm : 0 < c.minStep) (hstop : now' ≤ c.stop) : now' < (updSim c now' mods s).next := by
  unfold updSim
  split
  · simp only
    split
    · omega
    · have := postProcess_ge c.minStep c.std (mods s.id) hm; omega
  · rename_i h; omega

theorem stepForward_J (c : Clock) (mods : Nat → List (Option Int))
    (hm : 0 < c.minStep) (hstop : c.now + c.step ≤ c.stop) (hne : c.sims ≠ []) :
    J (stepForward c mods) := by
  unfold stepForward
  simp only
  split
  · rename_i hnone
    cases hc : c.sims with
    | nil => exact absurd hc hne
    | cons a as => simp [hc, minOpt] at hnone
  · rename_i m hsome
    obtain ⟨hmem, hle⟩ := minOpt_spec hsome
    obtain ⟨smin, hsmin, hnext⟩ := List.mem_map.mp hmem
    obtain ⟨s0, _, hs0⟩ := List.mem_map.mp hsmin
    refine ⟨?_, ?_, ?_⟩
    · intro s hs'
      have := hle s.next (List.mem_map_of_mem hs')
      simp only; omega
    · intro _
      exact ⟨smin, hsmin, by simp only; omega⟩
    · have := updSim_next_gt c (c.now + c.step) mods s0 hm hstop
      rw [hs0, hnext] at this
      simp only; omega

/-- consequences read off `J`: the active set of the next event is exactly the simulants sitting on the event time -/
theorem active_exact (c : Clock) (h : J c) (s : SimClk) (hs : s ∈ c.sims) :
    due c (c.now + c.step) s = true ↔ s.next = c.now + c.step := by
  have := h.1 s hs
  simp only [due, decide_eq_true_eq]; omega

end Vm.Clk
