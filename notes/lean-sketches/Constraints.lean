/-! Prototype: lifecycle constraint table (C07).  In the real project `table` and `allStates` are generated
    from the `add_constraint` call sites and the `add_phase` calls of the working tree. -/
namespace Vm.Con

inductive Mode | allow | restrict deriving DecidableEq, Repr

structure Entry where
  site   : String
  method : String
  mode   : Mode
  states : List String
deriving Repr

def allStates : List String :=
  ["initialization", "setup", "post_setup", "population_creation", "time_step__prepare", "time_step",
   "time_step__cleanup", "collect_metrics", "simulation_end", "report"]

def table : List Entry := [
  ⟨"artifact/manager.py:51", "load", .allow, ["setup"]⟩,
  ⟨"event.py:168", "get_emitter", .allow, ["setup", "simulation_end", "report"]⟩,
  ⟨"event.py:171", "register_listener", .allow, ["setup"]⟩,
  ⟨"lookup/manager.py:62", "build_table", .allow, ["setup"]⟩,
  ⟨"lookup/manager.py:73", "table.call", .restrict, ["initialization", "setup", "post_setup"]⟩,
  ⟨"population/manager.py:168", "get_view", .allow, ["setup", "post_setup", "population_creation", "simulation_end", "report"]⟩,
  ⟨"population/manager.py:178", "get_simulant_creator", .allow, ["setup"]⟩,
  ⟨"population/manager.py:179", "register_simulant_initializer", .allow, ["setup"]⟩,
  ⟨"population/manager.py:232", "view.get", .restrict, ["initialization", "setup", "post_setup"]⟩,
  ⟨"population/manager.py:235", "view.update", .restrict, ["initialization", "setup", "post_setup", "simulation_end", "report"]⟩,
  ⟨"randomness/manager.py:55", "get_randomness_stream", .allow, ["setup"]⟩,
  ⟨"randomness/manager.py:56", "register_simulants", .restrict, ["initialization", "setup", "post_setup", "simulation_end", "report"]⟩,
  ⟨"randomness/manager.py:106", "stream.get_draw", .restrict, ["initialization", "setup", "post_setup"]⟩,
  ⟨"randomness/manager.py:109", "stream.filter_for_probability", .restrict, ["initialization", "setup", "post_setup"]⟩,
  ⟨"randomness/manager.py:113", "stream.filter_for_rate", .restrict, ["initialization", "setup", "post_setup"]⟩,
  ⟨"randomness/manager.py:116", "stream.choice", .restrict, ["initialization", "setup", "post_setup"]⟩,
  ⟨"values.py:270", "register_value_producer", .allow, ["setup"]⟩,
  ⟨"values.py:271", "register_value_modifier", .allow, ["setup"]⟩,
  ⟨"values.py:326", "pipeline._call", .restrict, ["initialization", "setup", "post_setup"]⟩]

/-- `add_constraint`: `restrict_during` is complemented against the full state set -/
def permitted (e : Entry) : List String :=
  match e.mode with
  | .allow => e.states
  | .restrict => allStates.filter (fun s => !e.states.contains s)

def permittedOf (m : String) : Option (List String) := (table.find? (·.method == m)).map permitted

def registration : List String :=
  ["register_listener", "register_value_producer", "register_value_modifier", "register_simulant_initializer",
   "get_simulant_creator", "get_randomness_stream", "build_table"]
def readers : List String :=
  ["view.get", "pipeline._call", "stream.get_draw", "stream.filter_for_probability", "stream.filter_for_rate",
   "stream.choice", "table.call"]
def writers : List String := ["view.update", "register_simulants"]

def fromCreation : List String := allStates.drop 3
def creationToMetrics : List String := (allStates.drop 3).take 5

/-- registration services work during setup and in no other state -/
theorem registration_only_setup : registration.all (fun m => permittedOf m == some ["setup"]) = true := by decide
/-- services that read simulation state are refused in initialization, setup, post_setup and work from population
    creation onwards -/
theorem readers_from_creation : readers.all (fun m => permittedOf m == some fromCreation) = true := by decide
/-- services that change it are in addition refused once the simulation has ended -/
theorem writers_until_end : writers.all (fun m => permittedOf m == some creationToMetrics) = true := by decide
/-- every state named in the table is a lifecycle state (what `add_constraint` itself checks) -/
theorem table_states_known : table.all (fun e => e.states.all allStates.contains) = true := by decide

end Vm.Con
