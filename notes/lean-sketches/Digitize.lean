/-! Prototype: `np.digitize` against sorted left edges, then clamp (C15) -/
namespace Vm.Look

/-- `np.digitize(x, bins)` for increasing bins: number of edges `≤ x` -/
def digitize (bins : List Int) (x : Int) : Nat := (bins.filter (fun b => decide (b ≤ x))).length

/-- `bin_indices[bin_indices > 0] -= 1` -/
def binIndex (bins : List Int) (x : Int) : Nat := digitize bins x - 1

/-- for strictly increasing edges the edges `≤ x` are exactly a prefix -/
theorem digitize_split (bins : List Int) (hs : bins.Pairwise (· < ·)) (x : Int) :
    (∀ b ∈ bins.take (digitize bins x), b ≤ x) ∧ (∀ b ∈ bins.drop (digitize bins x), x < b) := by
  induction bins with
  | nil => simp [digitize]
  | cons b bs ih =>
    rw [List.pairwise_cons] at hs
    obtain ⟨ih1, ih2⟩ := ih hs.2
    by_cases hb : b ≤ x
    · have hd : digitize (b :: bs) x = digitize bs x + 1 := by simp [digitize, List.filter_cons, hb]
      rw [hd]
      simp only [List.take_succ_cons, List.drop_succ_cons, List.mem_cons, forall_eq_or_imp]
      exact ⟨⟨hb, ih1⟩, ih2⟩
    · have hall : ∀ c ∈ bs, ¬ c ≤ x := fun c hc => by have := hs.1 c hc; omega
      have hd : digitize (b :: bs) x = 0 := by
        simp only [digitize, List.filter_cons, hb, decide_false, Bool.false_eq_true, if_false]
        rw [List.filter_eq_nil_iff.mpr]; rfl
        intro c hc; simpa using hall c hc
      rw [hd]
      simp only [List.take_zero, List.not_mem_nil, false_implies, implies_true, List.drop_zero,
        List.mem_cons, forall_eq_or_imp, true_and]
      exact ⟨by omega, fun c hc => by have := hall c hc; omega⟩

/-- the selected bin contains `x` when `x` is inside the covered range … -/
theorem binIndex_inside (bins : List Int) (hs : bins.Pairwise (· < ·)) (x : Int)
    (hpos : 0 < digitize bins x) :
    (∀ b ∈ bins.take (binIndex bins x + 1), b ≤ x) ∧ (∀ b ∈ bins.drop (binIndex bins x + 1), x < b) := by
  have : binIndex bins x + 1 = digitize bins x := by unfold binIndex; omega
  rw [this]; exact digitize_split bins hs x

/-- … and below the first edge the first bin is used (extrapolation to the nearest edge bin) -/
theorem binIndex_below (bins : List Int) (b0 : Int) (rest : List Int) (hb : bins = b0 :: rest)
    (hs : bins.Pairwise (· < ·)) (x : Int) (hx : x < b0) : binIndex bins x = 0 := by
  have h := (digitize_split bins hs x).1
  unfold binIndex
  cases hd : digitize bins x with
  | zero => rfl
  | succ n =>
    rw [hd, hb] at h
    have := h b0 (by simp)
    omega

example : binIndex [0, 10, 25, 40] 10 = 1 := by decide     -- exactly on an edge: left-closed
example : binIndex [0, 10, 25, 40] 9 = 0 := by decide
example : binIndex [0, 10, 25, 40] (-3) = 0 := by decide   -- below: first bin
example : binIndex [0, 10, 25, 40] 99 = 3 := by decide     -- above: last bin
end Vm.Look
