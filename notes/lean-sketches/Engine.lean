/-! Prototype: draw addressing (C02) and the engine as a deterministic transition system (C01, C18) -/
namespace Vm.Eng

/-- `get_draw`: one block per (decision point, time, additional key, seed); each simulant reads its own position -/
def getDraw (block : Nat → Nat → Nat) (seedOf : String → Nat) (pos : Nat → Option Nat)
    (keyString : String) (req : List Nat) : Option (List (Nat × Nat)) :=
  req.mapM (fun s => (pos s).map (fun p => (s, block (seedOf keyString) p)))

/-- a simulant's draw depends only on its own position and the seed string: adding, removing, permuting or
    repeating *other* simulants in the request cannot change it -/
theorem getDraw_pointwise (block : Nat → Nat → Nat) (seedOf : String → Nat) (pos : Nat → Option Nat)
    (k : String) (req : List Nat) (out : List (Nat × Nat)) (h : getDraw block seedOf pos k req = some out) :
    out = req.filterMap (fun s => (pos s).map (fun p => (s, block (seedOf k) p))) ∧ out.map (·.1) = req := by
  unfold getDraw at h
  induction req generalizing out with
  | nil => simp at h; subst h; simp
  | cons s ss ih =>
    simp only [List.mapM_cons, Option.bind_eq_bind] at h
    cases hp : pos s with
    | none => simp [hp] at h
    | some p =>
      simp only [hp, Option.map_some, Option.bind_some] at h
      cases hrest : ss.mapM (fun s => (pos s).map (fun p => (s, block (seedOf k) p))) with
      | none => simp [hrest] at h
      | some rest =>
        simp only [hrest, Option.bind_some, Option.pure_def, Option.some.injEq] at h
        subst h
        obtain ⟨h1, h2⟩ := ih rest hrest
        simp [hp, ← h1, h2]

/-- the seed string `"_".join([decision point, clock, additional key, seed])`, over character lists -/
def joinKey (dp t ak sd : List Char) : List Char := dp ++ '_' :: (t ++ '_' :: (ak ++ '_' :: sd))

/-- changing exactly one of the four components changes the seed string (append cancellation).  Changing several
    at once can collide because `_` is not escaped - that is outside what is claimed. -/
theorem joinKey_inj_dp (dp dp' t ak sd : List Char) (h : joinKey dp t ak sd = joinKey dp' t ak sd) : dp = dp' :=
  List.append_cancel_right h
theorem joinKey_inj_time (dp t t' ak sd : List Char) (h : joinKey dp t ak sd = joinKey dp t' ak sd) : t = t' := by
  have h1 := List.append_cancel_left h
  simp only [List.cons.injEq, true_and] at h1
  exact List.append_cancel_right h1
theorem joinKey_inj_addkey (dp t ak ak' sd : List Char) (h : joinKey dp t ak sd = joinKey dp t ak' sd) : ak = ak' := by
  have h1 := List.append_cancel_left h
  simp only [List.cons.injEq, true_and] at h1
  have h2 := List.append_cancel_left h1
  simp only [List.cons.injEq, true_and] at h2
  exact List.append_cancel_right h2
theorem joinKey_inj_seed (dp t ak sd sd' : List Char) (h : joinKey dp t ak sd = joinKey dp t ak sd') : sd = sd' := by
  have h1 := List.append_cancel_left h
  simp only [List.cons.injEq, true_and] at h1
  have h2 := List.append_cancel_left h1
  simp only [List.cons.injEq, true_and] at h2
  have h3 := List.append_cancel_left h2
  simpa using h3
/-- the documented ambiguity: two different (decision point, time) pairs with the same string -/
example : joinKey "a_b".toList "c".toList [] [] = joinKey "a".toList "b_c".toList [] [] := by decide

/-- the simulation as a deterministic transition system -/
def iter {S : Type} (f : S → S) : Nat → S → S
  | 0, s => s
  | n+1, s => iter f n (f s)

theorem iter_add {S : Type} (f : S → S) (n m : Nat) (s : S) : iter f (n + m) s = iter f m (iter f n s) := by
  induction n generalizing s with
  | zero => simp [iter]
  | succ n ih => rw [Nat.succ_add]; simp only [iter]; exact ih (f s)

/-- C18: interrupting after any `n` steps, saving and restoring (`restore ∘ backup = id`, the dill contract) and
    continuing for the remaining `m` steps equals the uninterrupted run -/
theorem resume_eq {S : Type} (f : S → S) (backup restore : S → S) (hid : ∀ s, restore (backup s) = s)
    (n m : Nat) (s : S) : iter f m (restore (backup (iter f n s))) = iter f (n + m) s := by
  rw [hid, iter_add]

end Vm.Eng
