/-! Prototype: event channel delivery order (C08) -/
namespace Vm.Ev

/-- a registration: (priority, listener id), kept in registration order -/
abbrev Reg := Nat × Nat

/-- `EventChannel.emit`: walk the priority buckets 0 … nb-1, each in registration order -/
def emitOrder (nb : Nat) (regs : List Reg) : List Reg :=
  (List.range nb).flatMap (fun p => regs.filter (fun r => r.1 == p))

theorem filter_lt_succ_perm (regs : List Reg) (k : Nat) :
    (regs.filter (fun r => decide (r.1 < k + 1))).Perm
      (regs.filter (fun r => decide (r.1 < k)) ++ regs.filter (fun r => r.1 == k)) := by
  induction regs with
  | nil => simp
  | cons r rs ih =>
    by_cases h1 : r.1 < k
    · have a : decide (r.1 < k + 1) = true := by simp; omega
      have b : decide (r.1 < k) = true := by simp [h1]
      have c : (r.1 == k) = false := by simp; omega
      simp only [List.filter_cons, a, b, c, if_true, Bool.false_eq_true, if_false, List.cons_append]
      exact List.Perm.cons r ih
    · by_cases h3 : r.1 = k
      · have a : decide (r.1 < k + 1) = true := by simp; omega
        have b : decide (r.1 < k) = false := by simp; omega
        have c : (r.1 == k) = true := by simp [h3]
        simp only [List.filter_cons, a, b, c, if_true, Bool.false_eq_true, if_false]
        exact (List.Perm.cons r ih).trans List.perm_middle.symm
      · have a : decide (r.1 < k + 1) = false := by simp; omega
        have b : decide (r.1 < k) = false := by simp; omega
        have c : (r.1 == k) = false := by simp [h3]
        simp only [List.filter_cons, a, b, c, Bool.false_eq_true, if_false]
        exact ih

theorem pairwise_of_const (l : List Reg) (k : Nat) (h : ∀ a ∈ l, a.1 = k) :
    l.Pairwise (fun a b => a.1 ≤ b.1) := by
  induction l with
  | nil => exact List.Pairwise.nil
  | cons x xs ih =>
    refine List.Pairwise.cons (fun b hb => ?_) (ih (fun a ha => h a (List.mem_cons_of_mem _ ha)))
    rw [h x List.mem_cons_self, h b (List.mem_cons_of_mem _ hb)]; exact Nat.le_refl _

theorem emitOrder_perm_lt (regs : List Reg) (k : Nat) :
    (emitOrder k regs).Perm (regs.filter (fun r => decide (r.1 < k))) := by
  induction k with
  | zero => simp [emitOrder]
  | succ k ih =>
    have : emitOrder (k + 1) regs = emitOrder k regs ++ regs.filter (fun r => r.1 == k) := by
      simp [emitOrder, List.range_succ, List.flatMap_append]
    rw [this]
    exact (List.Perm.append_right _ ih).trans (filter_lt_succ_perm regs k).symm

/-- every listener registered with a priority below the bucket count is called exactly once -/
theorem emit_perm (nb : Nat) (regs : List Reg) (h : ∀ r ∈ regs, r.1 < nb) :
    (emitOrder nb regs).Perm regs := by
  have := emitOrder_perm_lt regs nb
  rwa [List.filter_eq_self.mpr (by intro r hr; simpa using h r hr)] at this

/-- … in non-decreasing priority order -/
theorem emit_sorted (nb : Nat) (regs : List Reg) :
    (emitOrder nb regs).Pairwise (fun a b => a.1 ≤ b.1) := by
  induction nb with
  | zero => simp [emitOrder]
  | succ k ih =>
    have : emitOrder (k + 1) regs = emitOrder k regs ++ regs.filter (fun r => r.1 == k) := by
      simp [emitOrder, List.range_succ, List.flatMap_append]
    rw [this, List.pairwise_append]
    refine ⟨ih, ?_, ?_⟩
    · exact pairwise_of_const _ k (fun a ha => by simpa using (List.mem_filter.mp ha).2)
    · intro a ha b hb
      have ha' := (emitOrder_perm_lt regs k).subset ha
      simp only [List.mem_filter, decide_eq_true_eq, beq_iff_eq] at ha' hb
      omega

#eval emitOrder 10 [(5, 1), (0, 2), (9, 3), (5, 4), (0, 5)]
end Vm.Ev
