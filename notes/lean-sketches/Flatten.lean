/-! Prototype: component flattening (C20) -/
namespace Vm.Cmp

inductive Tree where
  | node (name : Nat) (children : List Tree)
deriving Repr

mutual
def preorder : Tree → List Nat
  | .node n cs => n :: preorderL cs
def preorderL : List Tree → List Nat
  | [] => []
  | t :: ts => preorder t ++ preorderL ts
end

mutual
def size : Tree → Nat
  | .node _ cs => 1 + sizeL cs
def sizeL : List Tree → Nat
  | [] => 0
  | t :: ts => size t + sizeL ts
end

/-- `ComponentManager._flatten`: explicit stack; `stack` is kept in pop order (head = next to pop) -/
def flattenLoop : Nat → List Tree → List Nat → List Nat
  | 0, _, out => out
  | _+1, [], out => out
  | fuel+1, (.node n cs) :: rest, out => flattenLoop fuel (cs ++ rest) (out ++ [n])

def flatten (ts : List Tree) : List Nat := flattenLoop (sizeL ts + 1) ts []

theorem sizeL_append (a b : List Tree) : sizeL (a ++ b) = sizeL a + sizeL b := by
  induction a with
  | nil => simp [sizeL]
  | cons t ts ih => simp [sizeL, ih]; omega

theorem preorderL_append (a b : List Tree) : preorderL (a ++ b) = preorderL a ++ preorderL b := by
  induction a with
  | nil => simp [preorderL]
  | cons t ts ih => simp [preorderL, ih]

theorem flattenLoop_eq (fuel : Nat) (stack : List Tree) (out : List Nat) (h : sizeL stack < fuel) :
    flattenLoop fuel stack out = out ++ preorderL stack := by
  induction fuel generalizing stack out with
  | zero => omega
  | succ f ih =>
    cases stack with
    | nil => simp [flattenLoop, preorderL]
    | cons t rest =>
      cases t with
      | node n cs =>
        simp only [flattenLoop]
        rw [ih]
        · simp [preorderL, preorder, preorderL_append]
        · simp only [sizeL, size, sizeL_append] at h ⊢; omega

/-- the stack loop is the pre-order traversal of the forest: parent before children, supply order kept -/
theorem flatten_preorder (ts : List Tree) : flatten ts = preorderL ts := by
  simp [flatten, flattenLoop_eq _ _ _ (Nat.lt_succ_self _)]

#eval flatten [.node 1 [.node 2 [.node 4 []], .node 3 []], .node 5 []]
end Vm.Cmp
