import Vm.Gen
import Vm.Lifecycle
/-! Prototype: property theorems stated over the GENERATED tables (C06, C07) -/
namespace Vm.GenProps
open Vm.LC

def lifecycle : LifeCycle := Vm.Gen.phases.map (fun (n, ss, l) => ⟨n, ss, l⟩)

/-- the generated lifecycle has exactly the legal successor table the property describes -/
theorem engine_order :
    (allStates lifecycle).map (fun s => (s, (allStates lifecycle).filter (validNext lifecycle s))) =
      [("initialization", ["setup"]), ("setup", ["post_setup"]), ("post_setup", ["population_creation"]),
       ("population_creation", ["time_step__prepare"]), ("time_step__prepare", ["time_step"]),
       ("time_step", ["time_step__cleanup"]), ("time_step__cleanup", ["collect_metrics"]),
       ("collect_metrics", ["time_step__prepare", "simulation_end"]),
       ("simulation_end", ["report"]), ("report", [])] := by decide

/-- run a context-method skeleton from a state: (final state, events emitted, succeeded?) -/
def runActs (phaseStates : String → List String) : List Vm.Gen.Act → String → List String → String × List String × Bool
  | [], cur, em => (cur, em, true)
  | .set s :: rest, cur, em =>
    match setState lifecycle cur s with
    | .ok s' => runActs phaseStates rest s' em
    | .error _ => (cur, em, false)
  | .emit e :: rest, cur, em => runActs phaseStates rest cur (em ++ [e])
  | .create :: rest, cur, em => runActs phaseStates rest cur (em ++ ["<create>"])
  | .loop ph :: rest, cur, em =>
    -- `for event in main_loop states: set_state(event); emit(event)`
    let go := (phaseStates ph).foldl (fun (acc : String × List String × Bool) s =>
      if acc.2.2 then
        match setState lifecycle acc.1 s with
        | .ok s' => (s', acc.2.1 ++ [s], true)
        | .error _ => (acc.1, acc.2.1, false)
      else acc) (cur, em, true)
    if go.2.2 then runActs phaseStates rest go.1 go.2.1 else go

def phaseStates (ph : String) : List String :=
  ((Vm.Gen.phases.find? (fun p => p.1 == ph)).map (·.2.1)).getD []

def resting : List String :=
  ["initialization", "post_setup", "population_creation", "collect_metrics", "simulation_end", "report"]

/-- every context method, called in any resting state, either runs completely or is refused at its first
    state change with nothing emitted and the state unchanged (the 6 × 5 table, decided outright) -/
theorem context_call_atomic :
    (resting.all fun st => Vm.Gen.skeleton.all fun (_, acts) =>
      let r := runActs phaseStates acts st []
      r.2.2 || (r.1 == st && r.2.1.isEmpty)) = true := by decide

/-- and the legal order of calls succeeds, emitting the events in the documented order -/
theorem legal_run :
    (let acts := fun m => ((Vm.Gen.skeleton.find? (fun p => p.1 == m)).map (·.2)).getD []
     let r1 := runActs phaseStates (acts "setup") "initialization" []
     let r2 := runActs phaseStates (acts "initialize_simulants") r1.1 r1.2.1
     let r3 := runActs phaseStates (acts "step") r2.1 r2.2.1
     let r4 := runActs phaseStates (acts "step") r3.1 r3.2.1
     let r5 := runActs phaseStates (acts "finalize") r4.1 r4.2.1
     let r6 := runActs phaseStates (acts "report") r5.1 r5.2.1
     (r6.1, r6.2.1, r6.2.2)) =
    ("report", ["post_setup", "<create>", "time_step__prepare", "time_step", "time_step__cleanup", "collect_metrics",
      "time_step__prepare", "time_step", "time_step__cleanup", "collect_metrics", "simulation_end", "report"], true) := by
  decide

/-- C07 over the generated constraint table -/
def allStates' : List String := allStates lifecycle
def permitted (e : String × String × Vm.Gen.Mode × List String) : List String :=
  match e.2.2.1 with
  | .allow => e.2.2.2
  | .restrict => allStates'.filter (fun s => !e.2.2.2.contains s)
def permittedOf (m : String) : Option (List String) := (Vm.Gen.constraints.find? (·.2.1 == m)).map permitted

theorem registration_only_setup :
    (["self.register_listener", "self.register_value_producer", "self.register_value_modifier",
      "self.register_simulant_initializer", "self.get_simulant_creator", "self.get_randomness_stream",
      "self.build_table"].all fun m => permittedOf m == some ["setup"]) = true := by decide
theorem readers_from_creation :
    (["view.get", "pipeline._call", "stream.get_draw", "stream.filter_for_probability", "stream.filter_for_rate",
      "stream.choice", "table.call"].all fun m => permittedOf m == some (allStates'.drop 3)) = true := by decide
theorem writers_until_end :
    (["view.update", "self.register_simulants"].all fun m =>
      permittedOf m == some ((allStates'.drop 3).take 5)) = true := by decide

end Vm.GenProps
