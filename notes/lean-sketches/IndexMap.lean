/-! Prototype: IndexMap collision resolution model -/
namespace Vm.IndexMap

abbrev Key := Nat   -- rank id of a key (order = pandas sort order)

/-- keep the first entry for every position (pandas `Series.drop_duplicates`) -/
def dropDup : List (Key × Nat) → List (Key × Nat)
  | [] => []
  | e :: es => e :: (dropDup es).filter (fun x => x.2 != e.2)

def keysOf (m : List (Key × Nat)) : List Key := m.map (·.1)
def valsOf (m : List (Key × Nat)) : List Nat := m.map (·.2)

/-- `Index.difference`: elements of `a` not in `b` (sorted, unique) – sorting is by rank, done by caller -/
def diff (a b : List Key) : List Key := a.filter (fun k => !b.contains k)

def resolveLoop (h : Key → Nat → Nat) : Nat → Nat → List Key → List (Key × Nat) → Option (List (Key × Nat))
  | 0, _, _, _ => none
  | fuel+1, salt, coll, cur =>
    if coll.isEmpty then some cur else
      let upd := coll.map (fun k => (k, h k salt))
      let cur' := dropDup (cur ++ upd)
      resolveLoop h fuel (salt+1) (diff (keysOf upd) (keysOf cur')) cur'

theorem dropDup_sublist (m : List (Key × Nat)) : (dropDup m).Sublist m := by
  induction m with
  | nil => simp [dropDup]
  | cons e es ih =>
    simp only [dropDup]
    exact List.Sublist.cons_cons _ ((List.filter_sublist).trans ih)

theorem dropDup_nodup_vals (m : List (Key × Nat)) : (valsOf (dropDup m)).Nodup := by
  induction m with
  | nil => simp [dropDup, valsOf]
  | cons e es ih =>
    simp only [dropDup, valsOf, List.map_cons, List.nodup_cons]
    constructor
    · intro hmem
      simp only [List.mem_map, List.mem_filter] at hmem
      obtain ⟨x, ⟨_, hx⟩, hxe⟩ := hmem
      simp [hxe] at hx
    · exact (ih.sublist ((List.filter_sublist).map _))

/-- a prefix whose values are already distinct survives `dropDup` unchanged -/
theorem dropDup_append_of_nodup (a b : List (Key × Nat)) (ha : (valsOf a).Nodup) :
    ∃ c, dropDup (a ++ b) = a ++ c ∧ c.Sublist b := by
  induction a with
  | nil => exact ⟨dropDup b, by simp, dropDup_sublist b⟩
  | cons e es ih =>
    simp only [valsOf, List.map_cons, List.nodup_cons] at ha
    obtain ⟨c, hc, hcb⟩ := ih ha.2
    refine ⟨c.filter (fun x => x.2 != e.2), ?_, (List.filter_sublist).trans hcb⟩
    simp only [List.cons_append, dropDup, hc, List.filter_append]
    congr 1
    have : es.filter (fun x => x.2 != e.2) = es := by
      apply List.filter_eq_self.mpr
      intro x hx
      have : x.2 ≠ e.2 := by
        intro h; apply ha.1; rw [← h]; exact List.mem_map_of_mem hx
      simpa using this
    rw [this]

end Vm.IndexMap

namespace Vm.IndexMap

theorem mem_dropDup_of_mem {m : List (Key × Nat)} {e : Key × Nat} (h : e ∈ dropDup m) : e ∈ m :=
  (dropDup_sublist m).subset h

/-- every position that occurs in `m` still occurs after `dropDup` -/
theorem vals_dropDup (m : List (Key × Nat)) (p : Nat) : p ∈ valsOf m → p ∈ valsOf (dropDup m) := by
  induction m with
  | nil => simp [valsOf]
  | cons e es ih =>
    intro hp
    simp only [valsOf, List.map_cons, List.mem_cons] at hp
    simp only [dropDup, valsOf, List.map_cons, List.mem_cons]
    by_cases hpe : p = e.2
    · exact Or.inl hpe
    · right
      have : p ∈ valsOf es := by rcases hp with h | h; exact absurd h hpe; exact h
      have := ih this
      simp only [valsOf, List.mem_map] at this ⊢
      obtain ⟨x, hx, hxp⟩ := this
      exact ⟨x, List.mem_filter.mpr ⟨hx, by simp [hxp, hpe]⟩, hxp⟩

/-- invariant of the collision loop: positions are pairwise distinct and the old map is a prefix -/
theorem resolveLoop_inv (h : Key → Nat → Nat) (old : List (Key × Nat)) :
    ∀ (fuel salt : Nat) (coll : List Key) (cur res : List (Key × Nat)),
      (valsOf cur).Nodup → (∃ c, cur = old ++ c) →
      resolveLoop h fuel salt coll cur = some res →
      (valsOf res).Nodup ∧ (∃ c, res = old ++ c) := by
  intro fuel
  induction fuel with
  | zero => intro _ _ _ _ _ _ h; simp [resolveLoop] at h
  | succ f ih =>
    intro salt coll cur res hnd hpre hres
    unfold resolveLoop at hres
    split at hres
    · cases hres; exact ⟨hnd, hpre⟩
    · obtain ⟨c, rfl⟩ := hpre
      have hold : (valsOf old).Nodup := by
        have : (valsOf old).Sublist (valsOf (old ++ c)) := by
          simp only [valsOf, List.map_append]; exact List.sublist_append_left _ _
        exact hnd.sublist this
      refine ih _ _ _ res (dropDup_nodup_vals _) ?_ hres
      obtain ⟨c', hc', _⟩ := dropDup_append_of_nodup old (c ++ coll.map (fun k => (k, h k salt))) hold
      exact ⟨c', by rw [← hc', List.append_assoc]⟩

end Vm.IndexMap

namespace Vm.IndexMap

/-- an entry whose position does not occur earlier in the list survives `dropDup` -/
theorem mem_dropDup_of_fresh (a b : List (Key × Nat)) (e : Key × Nat) (h : e.2 ∉ valsOf a) :
    e ∈ dropDup (a ++ e :: b) := by
  induction a with
  | nil => simp [dropDup]
  | cons x xs ih =>
    simp only [valsOf, List.map_cons, List.mem_cons, not_or] at h
    simp only [List.cons_append, dropDup, List.mem_cons, List.mem_filter]
    right
    exact ⟨ih (by simpa [valsOf] using h.2), by simpa using h.1⟩

/-- generalisation of `resolveLoop_inv`: whatever the loop starts from stays a prefix of the result -/
theorem resolveLoop_prefix (h : Key → Nat → Nat) :
    ∀ (fuel salt : Nat) (coll : List Key) (cur res : List (Key × Nat)),
      (valsOf cur).Nodup → resolveLoop h fuel salt coll cur = some res → ∃ c, res = cur ++ c := by
  intro fuel salt coll cur res hnd hres
  exact (resolveLoop_inv h cur fuel salt coll cur res hnd ⟨[], by simp⟩ hres).2

/-- C04 core: a new key whose first hash is free (not used by the old map, not shared with another key of the
    batch) keeps exactly that position - whatever the simulant labels, the batch order and the other members. -/
theorem noncolliding_keeps_hash (h : Key → Nat → Nat) (t : Nat) (old : List (Key × Nat))
    (pre post : List Key) (k : Key) (fuel : Nat) (res : List (Key × Nat))
    (hold : h k t ∉ valsOf old)
    (hpre : ∀ k' ∈ pre, h k' t ≠ h k t)
    (hres : resolveLoop h fuel 1
              (diff (pre ++ k :: post) (keysOf (dropDup (old ++ (pre ++ k :: post).map (fun k => (k, h k t))))))
              (dropDup (old ++ (pre ++ k :: post).map (fun k => (k, h k t)))) = some res) :
    (k, h k t) ∈ res := by
  have hmem : (k, h k t) ∈ dropDup (old ++ (pre ++ k :: post).map (fun k => (k, h k t))) := by
    have : old ++ (pre ++ k :: post).map (fun k => (k, h k t)) =
        (old ++ pre.map (fun k => (k, h k t))) ++ (k, h k t) :: post.map (fun k => (k, h k t)) := by
      simp [List.map_append, List.append_assoc]
    rw [this]
    apply mem_dropDup_of_fresh
    simp only [valsOf, List.map_append, List.map_map, List.mem_append, not_or]
    refine ⟨by simpa [valsOf] using hold, ?_⟩
    intro hc
    simp only [List.mem_map, Function.comp] at hc
    obtain ⟨k', hk', heq⟩ := hc
    exact hpre k' hk' heq
  obtain ⟨c, hc⟩ := resolveLoop_prefix h fuel 1 _ _ res (dropDup_nodup_vals _) hres
  rw [hc]; exact List.mem_append_left _ hmem

end Vm.IndexMap
