/-! Prototype: lifecycle automaton (C06) -/
namespace Vm.LC

structure Phase where
  name   : String
  states : List String
  loop   : Bool
deriving Repr, DecidableEq

abbrev LifeCycle := List Phase

def allStates (lc : LifeCycle) : List String := lc.flatMap (·.states)

/-- linear successor of `s` in the flattened order (`LifeCycleState._next`) -/
def nextOf : List String → String → Option String
  | a :: b :: rest, s => if a = s then some b else nextOf (b :: rest) s
  | _, _ => none

/-- loop successor (`_loop_next`): last state of a looping phase → first state of that phase -/
def loopNextOf (lc : LifeCycle) (s : String) : Option String :=
  match lc.find? (fun p => p.loop && p.states.getLast? == some s) with
  | some p => p.states.head?
  | none => none

def validNext (lc : LifeCycle) (cur tgt : String) : Bool :=
  nextOf (allStates lc) cur == some tgt || loopNextOf lc cur == some tgt

inductive Err | unknown | transition deriving Repr, DecidableEq

def setState (lc : LifeCycle) (cur tgt : String) : Except Err String :=
  if ¬ (allStates lc).contains tgt then .error .unknown
  else if validNext lc cur tgt then .ok tgt else .error .transition

/-- run a request list; refused requests leave the state unchanged; returns final state and outcomes -/
def runReqs (lc : LifeCycle) : String → List String → String × List Bool
  | cur, [] => (cur, [])
  | cur, r :: rs =>
    match setState lc cur r with
    | .ok s => let (f, os) := runReqs lc s rs; (f, true :: os)
    | .error _ => let (f, os) := runReqs lc cur rs; (f, false :: os)

theorem setState_ok_iff (lc : LifeCycle) (cur tgt s : String) :
    setState lc cur tgt = .ok s ↔ (s = tgt ∧ (allStates lc).contains tgt ∧ validNext lc cur tgt) := by
  unfold setState
  split
  · rename_i h; simp_all
  · split
    · rename_i h1 h2
      constructor
      · intro h; cases h; exact ⟨rfl, by simpa using h1, h2⟩
      · rintro ⟨rfl, _, _⟩; rfl
    · rename_i h1 h2; simp_all

/-- legal paths -/
inductive Legal (lc : LifeCycle) : String → List String → Prop
  | nil (s) : Legal lc s []
  | cons {s t ts} : validNext lc s t = true → (allStates lc).contains t = true → Legal lc t ts → Legal lc s (t :: ts)

/-- all requests accepted ⇔ the request list is a legal path -/
theorem accepts_iff_legal (lc : LifeCycle) (cur : String) (rs : List String) :
    (runReqs lc cur rs).2.all id = true ↔ Legal lc cur rs := by
  induction rs generalizing cur with
  | nil => simp [runReqs]; exact Legal.nil cur
  | cons r rs ih =>
    unfold runReqs
    cases h : setState lc cur r with
    | ok s =>
      have := (setState_ok_iff lc cur r s).mp h
      obtain ⟨rfl, hc, hv⟩ := this
      simp only [List.all_cons, id, Bool.true_and]
      rw [ih]
      constructor
      · intro hl; exact Legal.cons hv hc hl
      · intro hl; cases hl with | cons _ _ hl => exact hl
    | error e =>
      simp only [List.all_cons, id, Bool.false_and]
      constructor
      · intro hf; cases hf
      · intro hl
        cases hl with
        | cons hv hc _ =>
          have : setState lc cur r = .ok r := (setState_ok_iff lc cur r r).mpr ⟨rfl, hc, hv⟩
          rw [this] at h; cases h

/-- the engine's lifecycle as declared in engine.py (would live in Gen/) -/
def engine : LifeCycle :=
  [⟨"initialization", ["initialization"], false⟩,
   ⟨"setup", ["setup", "post_setup", "population_creation"], false⟩,
   ⟨"main_loop", ["time_step__prepare", "time_step", "time_step__cleanup", "collect_metrics"], true⟩,
   ⟨"simulation_end", ["simulation_end", "report"], false⟩]

/-- complete successor table of the engine lifecycle: finite, decided outright -/
theorem engine_successors :
    (allStates engine).map (fun s => (s, (allStates engine).filter (validNext engine s))) =
      [("initialization", ["setup"]), ("setup", ["post_setup"]), ("post_setup", ["population_creation"]),
       ("population_creation", ["time_step__prepare"]), ("time_step__prepare", ["time_step"]),
       ("time_step", ["time_step__cleanup"]), ("time_step__cleanup", ["collect_metrics"]),
       ("collect_metrics", ["time_step__prepare", "simulation_end"]),
       ("simulation_end", ["report"]), ("report", [])] := by decide

#eval runReqs engine "initialization" ["setup", "report", "post_setup", "population_creation", "time_step__prepare"]
end Vm.LC
