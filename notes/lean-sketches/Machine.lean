import Vm.Choice
/-! Prototype: one simulant's move in a state machine (C17).  Weights are numerators over a common denominator `D`
    (probability 1 ⇔ weight = D); `d` is the simulant's draw numerator (`d < D`). -/
namespace Vm.SM
open Vm.Choice

inductive Err | multipleDefaults | unnormalised | noValidTransition deriving DecidableEq, Repr

/-- `TransitionSet._normalize_probabilities` for one row: returns the weight row handed to `choice`
    (the null transition, when allowed, is the last entry) -/
def normalize (w : List Nat) (D : Nat) (selfOk : Bool) : Except Err (List Nat) :=
  let ones := (w.filter (· == D)).length
  let total := w.sum
  if 1 < ones then .error .multipleDefaults
  else if selfOk then
    if ones == 1 then .ok (w ++ [0])                       -- row rescaled to sum 1: no room for the null transition
    else if D < total then .error .unnormalised
    else .ok (w ++ [D - total])
  else
    if total == 0 then .error .noValidTransition else .ok w

/-- decision for one simulant: index into `outputs ++ [null]` -/
def decideIdx (w : List Nat) (D d : Nat) (selfOk : Bool) : Except Err Nat :=
  match normalize w D selfOk with
  | .error e => .error e
  | .ok row => .ok (choiceIdx row d D)

/-- the vectorised transition is the pointwise one: each simulant's outcome is a function of its own weight row
    and its own draw (no other simulant appears in the expression) -/
def transitionAll (rows : List (Nat × List Nat × Nat)) (D : Nat) (selfOk : Bool) : List (Nat × Except Err Nat) :=
  rows.map (fun (sim, w, d) => (sim, decideIdx w D d selfOk))

theorem transition_pointwise (rows : List (Nat × List Nat × Nat)) (D : Nat) (selfOk : Bool)
    (sim : Nat) (w : List Nat) (d : Nat) (h : (sim, w, d) ∈ rows) :
    (sim, decideIdx w D d selfOk) ∈ transitionAll rows D selfOk :=
  List.mem_map.mpr ⟨(sim, w, d), h, rfl⟩

theorem transition_perm (r1 r2 : List (Nat × List Nat × Nat)) (D : Nat) (selfOk : Bool) (h : r1.Perm r2) :
    (transitionAll r1 D selfOk).Perm (transitionAll r2 D selfOk) := h.map _

theorem length_cumsum (w : List Nat) : (cumsum w).length = w.length := by
  induction w with
  | nil => rfl
  | cons a as ih => simp [cumsum, ih]

/-- the count of cumulative bins below the draw never exceeds the number of options -/
theorem choiceIdx_le (w : List Nat) (d D : Nat) : choiceIdx w d D ≤ w.length := by
  have h1 := List.length_filter_le (fun c => decide (c * D < d * w.sum)) (cumsum w)
  have h2 := length_cumsum w
  simp only [choiceIdx]
  omega

/-- a sole probability-1 transition is always taken, with or without the null transition -/
theorem sole_one_always (D d : Nat) (hd : d < D) (selfOk : Bool) : decideIdx [D] D d selfOk = .ok 0 := by
  have hlt : ¬ D * D < d * D := by
    intro h; have := Nat.lt_of_mul_lt_mul_right h; omega
  cases selfOk with
  | false =>
    have hD : (D == 0) = false := by simp; omega
    simp [decideIdx, normalize, hD, choiceIdx, cumsum, hlt]
  | true =>
    simp [decideIdx, normalize, choiceIdx, cumsum, hlt]

/-- rows that cannot be normalised are rejected -/
theorem two_defaults_rejected (D : Nat) (rest : List Nat) (selfOk : Bool) :
    decideIdx (D :: D :: rest) D 0 selfOk = .error .multipleDefaults := by
  have : 1 < ((D :: D :: rest).filter (· == D)).length := by simp [List.filter_cons]
  simp [decideIdx, normalize, this]

theorem all_zero_rejected (n D d : Nat) : decideIdx (List.replicate n 0) D d false = .error .noValidTransition ∨
    (1 < ((List.replicate n 0).filter (· == D)).length) := by
  by_cases h : 1 < ((List.replicate n 0).filter (· == D)).length
  · exact Or.inr h
  · left
    have hs : (List.replicate n 0).sum = 0 := by induction n with
      | zero => rfl
      | succ k ih => simp [List.replicate_succ, ih]
    simp [decideIdx, normalize, h, hs]

example : decideIdx [4, 4] 16 3 true = .ok 0 := by rfl      -- draw 3/16 ≤ 4/16
example : decideIdx [4, 4] 16 5 true = .ok 1 := by rfl
example : decideIdx [4, 4] 16 9 true = .ok 2 := by rfl      -- beyond 8/16: the null transition (stay)
example : decideIdx [4, 0, 4] 16 9 false = .ok 2 := by rfl  -- an inactive (weight 0) transition is skipped
example : decideIdx [12, 8] 16 3 true = .error .unnormalised := by rfl

end Vm.SM
