import Vm.Choice
import Vm.Lifecycle
open Vm

def step (cur : String) (line : String) : String × String :=
  match (line.trimAscii.toString.splitOn " ") with
  | ["choice", ws, d, D] =>
      let w := (ws.splitOn ",").filterMap String.toNat?
      match d.toNat?, D.toNat? with
      | some d, some D => (cur, toString (Choice.choiceIdx w d D))
      | _, _ => (cur, "bad-op")
  | ["lc", tgt] =>
      match LC.setState LC.engine cur tgt with
      | .ok s => (s, "ok " ++ s)
      | .error .unknown => (cur, "err unknown")
      | .error .transition => (cur, "err transition")
  | _ => (cur, "bad-op")

partial def loop (h : IO.FS.Stream) (cur : String) : IO Unit := do
  let line ← h.getLine
  if line.isEmpty then return ()
  let (cur', out) := step cur line
  IO.println out
  loop h cur'

def main : IO Unit := do loop (← IO.getStdin) "initialization"
