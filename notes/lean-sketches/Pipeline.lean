/-! Prototype: value pipelines (C14) and layered configuration (C20) -/
namespace Vm.Pipe

/-- a pipeline over an abstract value type; sources / modifiers / post-processors are arbitrary functions -/
structure Pipeline (A V : Type) where
  source   : Option (A → V)
  mutators : List (A → V → V)          -- replace-combiner view: last argument is the previous value
  post     : Option (V → V)

inductive Call | src | mut (i : Nat) | post deriving DecidableEq, Repr

/-- `Pipeline._call`: value and call trace -/
def call {A V : Type} (p : Pipeline A V) (args : A) (skipPost : Bool) : Option (V × List Call) :=
  match p.source with
  | none => none
  | some s =>
    let folded := p.mutators.zipIdx.foldl (fun (acc : V × List Call) (m, i) => (m args acc.1, acc.2 ++ [Call.mut i]))
                    (s args, [Call.src])
    match p.post, skipPost with
    | some f, false => some (f folded.1, folded.2 ++ [Call.post])
    | _, _ => some folded

theorem foldl_trace {A V : Type} (args : A) (ms : List ((A → V → V) × Nat)) (v : V) (tr : List Call) :
    (ms.foldl (fun (acc : V × List Call) (m, i) => (m args acc.1, acc.2 ++ [Call.mut i])) (v, tr)).2
      = tr ++ ms.map (fun mi => Call.mut mi.2) := by
  induction ms generalizing v tr with
  | nil => simp
  | cons x xs ih => simp only [List.foldl_cons, List.map_cons]; rw [ih]; simp

/-- source once, then every modifier once in registration order, then the post-processor once unless skipped -/
theorem call_trace {A V : Type} (p : Pipeline A V) (args : A) (skip : Bool) (s : A → V) (hs : p.source = some s)
    (v : V) (tr : List Call) (h : call p args skip = some (v, tr)) :
    tr = [Call.src] ++ (List.range p.mutators.length).map Call.mut ++
          (if p.post.isSome ∧ skip = false then [Call.post] else []) := by
  unfold call at h
  rw [hs] at h
  simp only at h
  have hidx : p.mutators.zipIdx.map (fun mi => Call.mut mi.2) = (List.range p.mutators.length).map Call.mut := by
    have : p.mutators.zipIdx.map (fun mi => Call.mut mi.2) = (p.mutators.zipIdx.map Prod.snd).map Call.mut := by
      rw [List.map_map]; rfl
    rw [this, List.zipIdx_map_snd, List.range_eq_range']
  cases hp : p.post with
  | none =>
    simp only [hp] at h
    have h2 := congrArg Prod.snd (Option.some.inj h)
    simp only [foldl_trace, hidx] at h2
    simp [← h2]
  | some f =>
    cases skip with
    | true =>
      simp only [hp] at h
      have h2 := congrArg Prod.snd (Option.some.inj h)
      simp only [foldl_trace, hidx] at h2
      simp [← h2]
    | false =>
      simp only [hp] at h
      have h2 := congrArg Prod.snd (Option.some.inj h)
      simp only [foldl_trace, hidx] at h2
      simp [← h2]

/-- a pipeline without a source is rejected -/
theorem no_source_rejected {A V : Type} (p : Pipeline A V) (args : A) (skip : Bool) (h : p.source = none) :
    call p args skip = none := by simp [call, h]

end Vm.Pipe

namespace Vm.Cfg
/-- layered configuration: (layer priority, key, value); a higher layer wins -/
abbrev Entry := Nat × String × Int

def get (cfg : List Entry) (k : String) : Option Int :=
  let es := cfg.filter (fun e => e.2.1 == k)
  match es with
  | [] => none
  | e :: rest => some ((rest.foldl (fun best x => if best.1 < x.1 then x else best) e).2.2)

theorem foldl_best_of_max (rest : List Entry) (e u : Entry) (hu : u = e ∨ u ∈ rest)
    (hmax : ∀ x, (x = e ∨ x ∈ rest) → x ≠ u → x.1 < u.1) :
    rest.foldl (fun best x => if best.1 < x.1 then x else best) e = u := by
  induction rest generalizing e with
  | nil => rcases hu with h | h; exact h.symm; cases h
  | cons y ys ih =>
    simp only [List.foldl_cons]
    apply ih
    · by_cases h : e.1 < y.1
      · simp only [h, if_true]
        rcases hu with h' | h'
        · subst h'
          have := hmax y (Or.inr List.mem_cons_self) (by intro e'; subst e'; omega)
          omega
        · rcases List.mem_cons.mp h' with h'' | h''
          · exact Or.inl h''
          · exact Or.inr h''
      · simp only [h, if_false]
        rcases hu with h' | h'
        · exact Or.inl h'
        · rcases List.mem_cons.mp h' with h'' | h''
          · subst h''
            by_cases he : e = u
            · exact Or.inl he.symm
            · have := hmax e (Or.inl rfl) he; omega
          · exact Or.inr h''
    · intro x hx hne
      apply hmax x _ hne
      rcases hx with h' | h'
      · by_cases h : e.1 < y.1
        · simp only [h, if_true] at h'; exact Or.inr (h' ▸ List.mem_cons_self)
        · simp only [h, if_false] at h'; exact Or.inl h'
      · exact Or.inr (List.mem_cons_of_mem _ h')

/-- a user-supplied value at a layer strictly above every other entry for the key is what `get` returns -
    whatever the order in which entries (component defaults, model specification, overrides) were added -/
theorem user_wins (cfg : List Entry) (u : Entry) (hu : u ∈ cfg)
    (hmax : ∀ x ∈ cfg, x.2.1 = u.2.1 → x ≠ u → x.1 < u.1) : get cfg u.2.1 = some u.2.2 := by
  unfold get
  have humem : u ∈ cfg.filter (fun e => e.2.1 == u.2.1) := List.mem_filter.mpr ⟨hu, by simp⟩
  cases hes : cfg.filter (fun e => e.2.1 == u.2.1) with
  | nil => rw [hes] at humem; cases humem
  | cons e rest =>
    simp only
    rw [hes] at humem
    have := foldl_best_of_max rest e u (List.mem_cons.mp humem) (by
      intro x hx hne
      have hx' : x ∈ cfg.filter (fun e => e.2.1 == u.2.1) := by rw [hes]; exact List.mem_cons.mpr hx
      have := List.mem_filter.mp hx'
      exact hmax x this.1 (by simpa using this.2) hne)
    rw [this]

end Vm.Cfg
