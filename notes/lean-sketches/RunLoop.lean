/-! Prototype: the `while time < stop: step()` loop takes exactly ⌈(stop - start)/h⌉ steps (C08, C01) -/
namespace Vm.Run

/-- `run()`: returns (number of steps taken, final clock); fuel only guards totality -/
def runLoop (stop h : Int) : Nat → Int → Nat × Int
  | 0, t => (0, t)
  | fuel+1, t => if t < stop then let (n, t') := runLoop stop h fuel (t + h); (n + 1, t') else (0, t)

/-- taking exactly `n` steps (`take_steps n`) -/
def takeSteps (h : Int) : Nat → Int → Int
  | 0, t => t
  | n+1, t => takeSteps h n (t + h)

theorem takeSteps_eq (h : Int) (n : Nat) (t : Int) : takeSteps h n t = t + n * h := by
  induction n generalizing t with
  | zero => simp [takeSteps]
  | succ n ih => rw [takeSteps, ih, Int.natCast_succ, Int.add_mul, Int.one_mul]; omega

/-- characterisation: if `n` is the first index with `t + n*h ≥ stop`, the loop takes exactly `n` steps -/
theorem runLoop_spec (stop h : Int) (n : Nat) :
    ∀ (fuel : Nat) (t : Int), n ≤ fuel → (∀ k : Nat, k < n → t + k * h < stop) → stop ≤ t + n * h →
      runLoop stop h fuel t = (n, t + n * h) := by
  induction n with
  | zero =>
    intro fuel t _ _ hge
    have : ¬ t < stop := by simp at hge; omega
    cases fuel with
    | zero => simp [runLoop]
    | succ f => simp [runLoop, this]
  | succ n ih =>
    intro fuel t hf hlt hge
    cases fuel with
    | zero => omega
    | succ f =>
      have h0 : t < stop := by have := hlt 0 (by omega); simpa using this
      have hrec := ih f (t + h) (by omega)
        (fun k hk => by
          have := hlt (k + 1) (by omega)
          rw [Int.natCast_succ, Int.add_mul, Int.one_mul] at this; omega)
        (by rw [Int.natCast_succ, Int.add_mul, Int.one_mul] at hge; omega)
      simp only [runLoop, h0, if_true, hrec]
      rw [Int.natCast_succ, Int.add_mul, Int.one_mul]
      congr 1; omega

/-- the ceiling formula: for `h > 0` and `start < stop`, `n = ⌈(stop-start)/h⌉` is that first index -/
theorem ceil_is_first (start stop h : Int) (hh : 0 < h) (hs : start < stop) :
    let n := ((stop - start + h - 1) / h).toNat
    (∀ k : Nat, k < n → start + k * h < stop) ∧ stop ≤ start + n * h := by
  intro n
  have hq : 0 ≤ (stop - start + h - 1) / h := Int.ediv_nonneg (by omega) (by omega)
  have hn : (n : Int) = (stop - start + h - 1) / h := Int.toNat_of_nonneg hq
  have h1 : (stop - start + h - 1) / h * h ≤ stop - start + h - 1 := Int.ediv_mul_le _ (by omega)
  have h2 : stop - start + h - 1 < ((stop - start + h - 1) / h + 1) * h := Int.lt_ediv_add_one_mul_self _ hh
  constructor
  · intro k hk
    have hk' : (k : Int) + 1 ≤ (stop - start + h - 1) / h := by omega
    have : ((k : Int) + 1) * h ≤ (stop - start + h - 1) / h * h := Int.mul_le_mul_of_nonneg_right hk' (by omega)
    rw [Int.add_mul, Int.one_mul] at this
    omega
  · rw [hn]
    rw [Int.add_mul, Int.one_mul] at h2
    omega

/-- `run()` from `start` takes exactly ⌈(stop-start)/h⌉ steps and ends at `start + n*h` – the same clock as
    `take_steps n` -/
theorem run_steps_count (start stop h : Int) (hh : 0 < h) (hs : start < stop) (fuel : Nat)
    (hf : ((stop - start + h - 1) / h).toNat ≤ fuel) :
    runLoop stop h fuel start =
      (((stop - start + h - 1) / h).toNat, takeSteps h ((stop - start + h - 1) / h).toNat start) := by
  obtain ⟨a, b⟩ := ceil_is_first start stop h hh hs
  rw [takeSteps_eq]
  exact runLoop_spec stop h _ fuel start hf a b

example : runLoop 10 3 100 0 = (4, 12) := by decide
end Vm.Run
