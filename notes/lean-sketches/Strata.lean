/-! Prototype: stratified counting conserves the eligible population (C16) -/
namespace Vm.Strata

variable {α : Type}

/-- additive aggregate per stratum, one entry per category (zero where nobody is observed) -/
def sumBy (cats : List Nat) (f : α → Nat) (val : α → Nat) (pop : List α) : List Nat :=
  cats.map (fun c => ((pop.filter (fun x => f x = c)).map val).sum)

/-- number of simulants per stratum -/
def countBy (cats : List Nat) (f : α → Nat) (pop : List α) : List Nat :=
  sumBy cats f (fun _ => 1) pop

theorem sum_map_zero (cs : List Nat) (g : Nat → Nat) (h : ∀ c ∈ cs, g c = 0) : (cs.map g).sum = 0 := by
  induction cs with
  | nil => rfl
  | cons c cs ih =>
    simp only [List.map_cons, List.sum_cons, h c List.mem_cons_self, Nat.zero_add]
    exact ih (fun c' hc' => h c' (List.mem_cons_of_mem _ hc'))

theorem indicator_sum (cats : List Nat) (hnd : cats.Nodup) (c0 : Nat) (h : c0 ∈ cats) (w : Nat) :
    (cats.map (fun c => if c0 = c then w else 0)).sum = w := by
  induction cats with
  | nil => cases h
  | cons c cs ih =>
    rw [List.nodup_cons] at hnd
    rw [List.map_cons, List.sum_cons]
    by_cases hc : c0 = c
    · subst hc
      rw [if_pos rfl, sum_map_zero cs _ ?_, Nat.add_zero]
      intro c hc'
      have : c0 ≠ c := fun e => hnd.1 (e ▸ hc')
      rw [if_neg this]
    · have hmem : c0 ∈ cs := by
        rcases List.mem_cons.mp h with e | e
        · exact absurd e hc
        · exact e
      rw [if_neg hc, Nat.zero_add]
      exact ih hnd.2 hmem

theorem sum_map_add (cats : List Nat) (a b : Nat → Nat) :
    (cats.map (fun c => a c + b c)).sum = (cats.map a).sum + (cats.map b).sum := by
  induction cats with
  | nil => rfl
  | cons c cs ih => simp only [List.map_cons, List.sum_cons, ih]; omega

/-- every eligible simulant is counted in exactly one stratum: the additive aggregate over all strata
    equals the aggregate over the eligible population -/
theorem sum_conservation (cats : List Nat) (hnd : cats.Nodup) (f : α → Nat) (val : α → Nat)
    (pop : List α) (hall : ∀ x ∈ pop, f x ∈ cats) :
    (sumBy cats f val pop).sum = (pop.map val).sum := by
  induction pop with
  | nil => simp only [sumBy, List.filter_nil, List.map_nil, List.sum_nil]; exact sum_map_zero cats _ (fun _ _ => rfl)
  | cons x xs ih =>
    have hx : f x ∈ cats := hall x List.mem_cons_self
    have hxs : ∀ y ∈ xs, f y ∈ cats := fun y hy => hall y (List.mem_cons_of_mem _ hy)
    have step : sumBy cats f val (x :: xs) =
        cats.map (fun c => (if f x = c then val x else 0) + ((xs.filter (fun y => f y = c)).map val).sum) := by
      simp only [sumBy]
      apply List.map_congr_left
      intro c _
      by_cases hc : f x = c
      · simp [List.filter_cons, hc]
      · simp [List.filter_cons, hc]
    rw [step, sum_map_add, indicator_sum cats hnd (f x) hx (val x)]
    have := ih hxs
    simp only [sumBy] at this
    rw [this, List.map_cons, List.sum_cons]

theorem sum_ones (l : List α) : (l.map (fun _ => 1)).sum = l.length := by
  induction l with
  | nil => rfl
  | cons a as ih => simp only [List.map_cons, List.sum_cons, ih, List.length_cons]; omega

/-- Σ over strata of the counts = number of eligible simulants -/
theorem count_conservation (cats : List Nat) (hnd : cats.Nodup) (f : α → Nat)
    (pop : List α) (hall : ∀ x ∈ pop, f x ∈ cats) :
    (countBy cats f pop).sum = pop.length := by
  rw [countBy, sum_conservation cats hnd f _ pop hall, sum_ones]

example : countBy [0, 1, 2] (fun x : Nat => x % 3) [5, 7, 9, 11, 12] = [2, 1, 2] := by decide

end Vm.Strata
