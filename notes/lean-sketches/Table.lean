/-! Prototype: state table, view update / read / creation (C11, C12, C13) -/
namespace Vm.Tab

inductive Dtype | int | flt | str | bool deriving DecidableEq, Repr
abbrev Val := Option Int          -- `none` = null; the payload encoding is irrelevant to the frame rule

structure Col where
  name  : String
  dtype : Dtype
  cells : List Val                -- one per row; row labels are 0 … n-1 (the state-table index is always a range)
deriving Repr

structure Table where
  n    : Nat
  cols : List Col
deriving Repr

def Table.wf (t : Table) : Prop := ∀ c ∈ t.cols, c.cells.length = t.n

/-- a column update: (row label, value) pairs in any order, with the dtype of the supplied data -/
structure ColUpd where
  name  : String
  dtype : Dtype
  cells : List (Nat × Val)

inductive Err | foreignColumn | unknownRow | newColumn | dtype | empty deriving DecidableEq, Repr

/-- positional write of the update values (`new_state_table_values[positions] = update_values`) -/
def writeCells (cells : List Val) (upd : List (Nat × Val)) : List Val :=
  upd.foldl (fun acc (r, v) => acc.set r v) cells

def findCol (t : Table) (name : String) : Option Col := t.cols.find? (·.name == name)

/-- all structural preconditions of one column update, checked before anything is written -/
def checkCol (t : Table) (viewCols : List String) (u : ColUpd) : Except Err Unit :=
  if ¬ viewCols.contains u.name then .error .foreignColumn
  else match findCol t u.name with
    | none => .error .newColumn
    | some c =>
      if ¬ u.cells.all (fun rv => decide (rv.1 < t.n)) then .error .unknownRow
      else if c.dtype ≠ u.dtype then .error .dtype
      else .ok ()

def applyCol (t : Table) (u : ColUpd) : Table :=
  { t with cols := t.cols.map (fun c => if c.name == u.name then { c with cells := writeCells c.cells u.cells } else c) }

/-- `PopulationView.update` (repaired): validate every column first, then write -/
def update (t : Table) (viewCols : List String) (us : List ColUpd) : Except Err Table :=
  if us.isEmpty then .error .empty
  else match us.mapM (checkCol t viewCols) with
    | .error e => .error e
    | .ok _ => .ok (us.foldl applyCol t)

theorem length_writeCells (cells : List Val) (upd : List (Nat × Val)) :
    (writeCells cells upd).length = cells.length := by
  unfold writeCells
  induction upd generalizing cells with
  | nil => rfl
  | cons x xs ih => simp only [List.foldl_cons]; rw [ih]; simp

/-- frame rule for one column: rows that are not addressed keep their value … -/
theorem writeCells_other (cells : List Val) (upd : List (Nat × Val)) (i : Nat)
    (h : ∀ rv ∈ upd, rv.1 ≠ i) : (writeCells cells upd)[i]? = cells[i]? := by
  unfold writeCells
  induction upd generalizing cells with
  | nil => rfl
  | cons x xs ih =>
    simp only [List.foldl_cons]
    rw [ih _ (fun rv hrv => h rv (List.mem_cons_of_mem _ hrv))]
    have : x.1 ≠ i := h x List.mem_cons_self
    simp [List.getElem?_set, this]

/-- … and addressed rows hold exactly the supplied value (distinct row labels) -/
theorem writeCells_hit (cells : List Val) (upd : List (Nat × Val)) (i : Nat) (v : Val)
    (hmem : (i, v) ∈ upd) (hnd : (upd.map (·.1)).Nodup) (hi : i < cells.length) :
    (writeCells cells upd)[i]? = some v := by
  unfold writeCells
  induction upd generalizing cells with
  | nil => cases hmem
  | cons x xs ih =>
    simp only [List.map_cons, List.nodup_cons] at hnd
    simp only [List.foldl_cons]
    rcases List.mem_cons.mp hmem with rfl | hx
    · have hother : ∀ rv ∈ xs, rv.1 ≠ i := fun rv hrv e => hnd.1 (by rw [← e]; exact List.mem_map_of_mem (f := (·.1)) hrv)
      have := writeCells_other (cells.set i v) xs i hother
      unfold writeCells at this
      rw [this]; simp [hi]
    · exact ih _ hx hnd.2 (by simpa using hi)

/-- a rejected update changes nothing - by construction there is no table in the error branch; the statement
    that matters is that `update` has no other way to fail after it has started writing: -/
theorem update_ok_iff_checks (t : Table) (viewCols : List String) (us : List ColUpd) :
    (∃ t', update t viewCols us = .ok t') ↔ (us.isEmpty = false ∧ ∃ l, us.mapM (checkCol t viewCols) = .ok l) := by
  unfold update
  cases he : us.isEmpty <;> simp
  cases hm : us.mapM (checkCol t viewCols) <;> simp

/-- creation: `_create_simulants(k)` appends rows n … n+k-1 filled with nulls and returns exactly those labels -/
def create (t : Table) (k : Nat) : Table × List Nat :=
  ({ n := t.n + k, cols := t.cols.map (fun c => { c with cells := c.cells ++ List.replicate k none }) },
   (List.range k).map (· + t.n))

theorem create_labels_fresh (t : Table) (k : Nat) : ∀ l ∈ (create t k).2, t.n ≤ l ∧ l < (create t k).1.n := by
  intro l hl
  simp only [create, List.mem_map, List.mem_range] at hl ⊢
  obtain ⟨a, ha, rfl⟩ := hl
  omega

theorem create_preserves (t : Table) (k : Nat) (hwf : t.wf) (c : Col) (hc : c ∈ t.cols) (i : Nat) (hi : i < t.n) :
    ∃ c' ∈ (create t k).1.cols, c'.name = c.name ∧ c'.cells[i]? = c.cells[i]? := by
  refine ⟨{ c with cells := c.cells ++ List.replicate k none }, ?_, rfl, ?_⟩
  · simp only [create, List.mem_map]; exact ⟨c, hc, rfl⟩
  · have : i < c.cells.length := by rw [hwf c hc]; exact hi
    simp [List.getElem?_append_left this]

end Vm.Tab
