/-! Prototype: dependency order (C09) -/
namespace Vm.Topo

structure Graph where
  nodes : List Nat
  edges : List (Nat × Nat)      -- (u, v): u must run before v
deriving Repr

/-- position of a node in an order -/
def idx (o : List Nat) (v : Nat) : Nat := o.idxOf v

/-- certified checker: `o` has the same nodes as `g`, no repeats, every edge goes forward -/
def checkOrder (g : Graph) (o : List Nat) : Bool :=
  o.Nodup ∧ (∀ v ∈ g.nodes, v ∈ o) ∧ (∀ v ∈ o, v ∈ g.nodes) ∧
    (∀ e ∈ g.edges, idx o e.1 < idx o e.2)

theorem checkOrder_sound (g : Graph) (o : List Nat) (h : checkOrder g o = true) :
    o.Nodup ∧ (∀ v, v ∈ g.nodes ↔ v ∈ o) ∧ ∀ u v, (u, v) ∈ g.edges → idx o u < idx o v := by
  simp only [checkOrder, decide_eq_true_eq] at h
  obtain ⟨h1, h2, h3, h4⟩ := h
  exact ⟨h1, fun v => ⟨h2 v, h3 v⟩, fun u v he => h4 (u, v) he⟩

/-- paths -/
inductive Path (g : Graph) : Nat → Nat → Prop
  | edge {u v} : (u, v) ∈ g.edges → Path g u v
  | trans {u v w} : Path g u v → Path g v w → Path g u w

/-- the transitive clause of the property: a dependency chain of any length is respected -/
theorem path_before (g : Graph) (o : List Nat) (h : checkOrder g o = true) {u v : Nat}
    (p : Path g u v) : idx o u < idx o v := by
  have hs := (checkOrder_sound g o h).2.2
  induction p with
  | edge he => exact hs _ _ he
  | trans _ _ ih1 ih2 => exact Nat.lt_trans ih1 ih2

/-- a cycle admits no valid order: refusing is the only correct outcome -/
theorem cycle_no_order (g : Graph) (o : List Nat) {u : Nat} (p : Path g u u) : checkOrder g o = false := by
  cases h : checkOrder g o with
  | false => rfl
  | true => exact absurd (path_before g o h p) (Nat.lt_irrefl _)

/-- Kahn's algorithm by generations (networkx `topological_generations` shape) -/
def ready (g : Graph) (rem : List Nat) : List Nat :=
  rem.filter (fun v => g.edges.all (fun e => e.2 != v || !rem.contains e.1))

def kahn (g : Graph) : Nat → List Nat → List Nat → Option (List Nat)
  | 0, _, _ => none
  | _+1, [], acc => some acc
  | fuel+1, rem, acc =>
    let r := ready g rem
    if r.isEmpty then none else kahn g fuel (rem.filter (fun v => !r.contains v)) (acc ++ r)

def topoSort (g : Graph) : Option (List Nat) := kahn g (g.nodes.length + 1) g.nodes []

#eval topoSort ⟨[1,2,3,4], [(3,1),(1,2),(4,2)]⟩
#eval topoSort ⟨[1,2,3], [(3,1),(1,2),(2,3)]⟩
#eval checkOrder ⟨[1,2,3,4], [(3,1),(1,2),(4,2)]⟩ [3,4,1,2]

end Vm.Topo
