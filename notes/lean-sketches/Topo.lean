/-! Prototype: dependency order (C09) -/
namespace Vm.Topo

structure Graph where
  nodes : List Nat
  edges : List (Nat × Nat)      -- (u, v): u must run before v
deriving Repr

/-- position of a node in an order -/
def idx (o : List Nat) (v : Nat) : Nat := o.idxOf v

/-- certified checker: `o` has the same nodes as `g`, no repeats, every edge goes forward -/
def checkOrder (g : Graph) (o : List Nat) : Bool :=
  o.Nodup ∧ (∀ v ∈ g.nodes, v ∈ o) ∧ (∀ v ∈ o, v ∈ g.nodes) ∧
    (∀ e ∈ g.edges, idx o e.1 < idx o e.2)

theorem checkOrder_sound (g : Graph) (o : List Nat) (h : checkOrder g o = true) :
    o.Nodup ∧ (∀ v, v ∈ g.nodes ↔ v ∈ o) ∧ ∀ u v, (u, v) ∈ g.edges → idx o u < idx o v := by
  simp only [checkOrder, decide_eq_true_eq] at h
  obtain ⟨h1, h2, h3, h4⟩ := h
  exact ⟨h1, fun v => ⟨h2 v, h3 v⟩, fun u v he => h4 (u, v) he⟩

/-- paths -/
inductive Path (g : Graph) : Nat → Nat → Prop
  | edge {u v} : (u, v) ∈ g.edges → Path g u v
  | trans {u v w} : Path g u v → Path g v w → Path g u w

/-- the transitive clause of the property: a dependency chain of any length is respected -/
theorem path_before (g : Graph) (o : List Nat) (h : checkOrder g o = true) {u v : Nat}
    (p : Path g u v) : idx o u < idx o v := by
  have hs := (checkOrder_sound g o h).2.2
  induction p with
  | edge he => exact hs _ _ he
  | trans _ _ ih1 ih2 => exact Nat.lt_trans ih1 ih2

/-- a cycle admits no valid order: refusing is the only correct outcome -/
theorem cycle_no_order (g : Graph) (o : List Nat) {u : Nat} (p : Path g u u) : checkOrder g o = false := by
  cases h : checkOrder g o with
  | false => rfl
  | true => exact absurd (path_before g o h p) (Nat.lt_irrefl _)

/-- Kahn's algorithm by generations (networkx `topological_generations` shape) -/
def ready (g : Graph) (rem : List Nat) : List Nat :=
  rem.filter (fun v => g.edges.all (fun e => e.2 != v || !rem.contains e.1))

def kahn (g : Graph) : Nat → List Nat → List Nat → Option (List Nat)
  | 0, _, _ => none
  | _+1, [], acc => some acc
  | fuel+1, rem, acc =>
    let r := ready g rem
    if r.isEmpty then none else kahn g fuel (rem.filter (fun v => !r.contains v)) (acc ++ r)

def topoSort (g : Graph) : Option (List Nat) := kahn g (g.nodes.length + 1) g.nodes []

#eval topoSort ⟨[1,2,3,4], [(3,1),(1,2),(4,2)]⟩
#eval topoSort ⟨[1,2,3], [(3,1),(1,2),(2,3)]⟩
#eval checkOrder ⟨[1,2,3,4], [(3,1),(1,2),(4,2)]⟩ [3,4,1,2]

end Vm.Topo

namespace Vm.Topo

theorem ready_sub (g : Graph) (rem : List Nat) : (ready g rem).Sublist rem := List.filter_sublist

theorem ready_spec (g : Graph) (rem : List Nat) {v : Nat} (hv : v ∈ ready g rem) :
    v ∈ rem ∧ ∀ e ∈ g.edges, e.2 = v → e.1 ∉ rem := by
  simp only [ready, List.mem_filter, List.all_eq_true, Bool.or_eq_true, bne_iff_ne, ne_eq,
    Bool.not_eq_true', List.contains_eq_mem, decide_eq_false_iff_not] at hv
  refine ⟨hv.1, fun e he hev => ?_⟩
  rcases hv.2 e he with h | h
  · exact absurd hev h
  · exact h

/-- loop invariant of Kahn's algorithm -/
structure Inv (g : Graph) (rem acc : List Nat) : Prop where
  accN : acc.Nodup
  remN : rem.Nodup
  disj : ∀ v, v ∈ acc → v ∉ rem
  cover : ∀ v, v ∈ g.nodes ↔ (v ∈ acc ∨ v ∈ rem)
  fwd : ∀ e ∈ g.edges, e.2 ∈ acc → e.1 ∈ acc ∧ idx acc e.1 < idx acc e.2

theorem inv_step (g : Graph) (hE : ∀ e ∈ g.edges, e.1 ∈ g.nodes ∧ e.2 ∈ g.nodes)
    (rem acc : List Nat) (h : Inv g rem acc) :
    Inv g (rem.filter (fun v => !(ready g rem).contains v)) (acc ++ ready g rem) := by
  have hsub := ready_sub g rem
  have hrN : (ready g rem).Nodup := h.remN.sublist hsub
  refine ⟨?_, h.remN.sublist List.filter_sublist, ?_, ?_, ?_⟩
  · rw [List.nodup_append]
    refine ⟨h.accN, hrN, fun a ha b hb hab => ?_⟩
    subst hab
    exact h.disj a ha (hsub.subset hb)
  · intro v hv hv'
    simp only [List.mem_filter, Bool.not_eq_true', List.contains_eq_mem, decide_eq_false_iff_not] at hv'
    rcases List.mem_append.mp hv with ha | hr
    · exact h.disj v ha hv'.1
    · exact hv'.2 hr
  · intro v
    rw [h.cover v]
    simp only [List.mem_append, List.mem_filter, Bool.not_eq_true', List.contains_eq_mem, decide_eq_false_iff_not]
    constructor
    · rintro (ha | hr)
      · exact Or.inl (Or.inl ha)
      · by_cases hv : v ∈ ready g rem
        · exact Or.inl (Or.inr hv)
        · exact Or.inr ⟨hr, hv⟩
    · rintro ((ha | hr) | ⟨hr, _⟩)
      · exact Or.inl ha
      · exact Or.inr (hsub.subset hr)
      · exact Or.inr hr
  · intro e he h2
    simp only [idx, List.idxOf_append]
    rcases List.mem_append.mp h2 with ha | hr
    · obtain ⟨h1, hlt⟩ := h.fwd e he ha
      refine ⟨List.mem_append_left _ h1, ?_⟩
      simp only [h1, ha, if_true]
      exact hlt
    · obtain ⟨hrem, hpred⟩ := ready_spec g rem hr
      have h1rem : e.1 ∉ rem := hpred e he rfl
      have h1acc : e.1 ∈ acc := by
        rcases (h.cover e.1).mp (hE e he).1 with ha | hr'
        · exact ha
        · exact absurd hr' h1rem
      have h2acc : e.2 ∉ acc := fun ha => h.disj _ ha hrem
      refine ⟨List.mem_append_left _ h1acc, ?_⟩
      simp only [h1acc, h2acc, if_true, if_false]
      have := List.idxOf_lt_length_of_mem h1acc
      omega

theorem kahn_inv (g : Graph) (hE : ∀ e ∈ g.edges, e.1 ∈ g.nodes ∧ e.2 ∈ g.nodes) :
    ∀ (fuel : Nat) (rem acc o : List Nat), Inv g rem acc → kahn g fuel rem acc = some o → Inv g [] o := by
  intro fuel
  induction fuel with
  | zero => intro _ _ _ _ h; simp [kahn] at h
  | succ f ih =>
    intro rem acc o hinv hk
    cases rem with
    | nil => simp only [kahn, Option.some.injEq] at hk; subst hk; exact hinv
    | cons r rs =>
      simp only [kahn] at hk
      split at hk
      · cases hk
      · exact ih _ _ o (inv_step g hE (r :: rs) acc hinv) hk

/-- the model sort is sound: whenever it returns an order, the certified checker accepts it -/
theorem kahn_sound (g : Graph) (hN : g.nodes.Nodup)
    (hE : ∀ e ∈ g.edges, e.1 ∈ g.nodes ∧ e.2 ∈ g.nodes) (o : List Nat)
    (h : topoSort g = some o) : checkOrder g o = true := by
  have h0 : Inv g g.nodes [] :=
    ⟨List.nodup_nil, hN, by simp, by simp, by simp⟩
  have hinv := kahn_inv g hE _ _ _ o h0 h
  simp only [checkOrder, decide_eq_true_eq]
  refine ⟨hinv.accN, fun v hv => ?_, fun v hv => ?_, fun e he => ?_⟩
  · rcases (hinv.cover v).mp hv with h | h
    · exact h
    · simp at h
  · exact (hinv.cover v).mpr (Or.inl hv)
  · have h2 : e.2 ∈ o := by
      rcases (hinv.cover e.2).mp (hE e he).2 with h | h
      · exact h
      · simp at h
    exact (hinv.fwd e he h2).2

/-- hence: the model refuses every cyclic graph -/
theorem kahn_cycle_none (g : Graph) (hN : g.nodes.Nodup)
    (hE : ∀ e ∈ g.edges, e.1 ∈ g.nodes ∧ e.2 ∈ g.nodes) {u : Nat} (p : Path g u u) :
    topoSort g = none := by
  cases h : topoSort g with
  | none => rfl
  | some o =>
    have := kahn_sound g hN hE o h
    rw [cycle_no_order g o p] at this
    cases this

end Vm.Topo

namespace Vm.Topo

/-- a list has an element of minimal rank -/
theorem exists_min_rank (rank : Nat → Nat) : ∀ (l : List Nat), l ≠ [] → ∃ v ∈ l, ∀ w ∈ l, rank v ≤ rank w := by
  intro l
  induction l with
  | nil => intro h; exact absurd rfl h
  | cons a as ih =>
    intro _
    cases as with
    | nil => exact ⟨a, List.mem_cons_self, fun w hw => by simp at hw; subst hw; exact Nat.le_refl _⟩
    | cons b bs =>
      obtain ⟨v, hv, hmin⟩ := ih (by simp)
      by_cases h : rank a ≤ rank v
      · refine ⟨a, List.mem_cons_self, fun w hw => ?_⟩
        rcases List.mem_cons.mp hw with e | e
        · subst e; exact Nat.le_refl _
        · exact Nat.le_trans h (hmin w e)
      · refine ⟨v, List.mem_cons_of_mem _ hv, fun w hw => ?_⟩
        rcases List.mem_cons.mp hw with e | e
        · subst e; omega
        · exact hmin w e

/-- if some rank function is strictly increasing along every edge, a non-empty remainder has a ready node -/
theorem ready_ne_nil (g : Graph) (rank : Nat → Nat) (hr : ∀ e ∈ g.edges, rank e.1 < rank e.2)
    (rem : List Nat) (hne : rem ≠ []) : ready g rem ≠ [] := by
  obtain ⟨v, hv, hmin⟩ := exists_min_rank rank rem hne
  have : v ∈ ready g rem := by
    simp only [ready, List.mem_filter, List.all_eq_true, Bool.or_eq_true, bne_iff_ne, ne_eq,
      Bool.not_eq_true', List.contains_eq_mem, decide_eq_false_iff_not]
    refine ⟨hv, fun e he => ?_⟩
    by_cases hev : e.2 = v
    · right
      intro h1
      have := hmin e.1 h1
      have := hr e he
      rw [hev] at this; omega
    · exact Or.inl hev
  intro h; rw [h] at this; cases this

theorem filter_ready_lt (g : Graph) (rem : List Nat) (h : ready g rem ≠ []) :
    (rem.filter (fun v => !(ready g rem).contains v)).length < rem.length := by
  obtain ⟨v, hv⟩ := List.exists_mem_of_ne_nil _ h
  have hvrem : v ∈ rem := (ready_sub g rem).subset hv
  apply List.length_filter_lt_length_iff_exists.mpr
  exact ⟨v, hvrem, by simp [hv]⟩

theorem kahn_total (g : Graph) (rank : Nat → Nat) (hr : ∀ e ∈ g.edges, rank e.1 < rank e.2) :
    ∀ (fuel : Nat) (rem acc : List Nat), rem.length < fuel → ∃ o, kahn g fuel rem acc = some o := by
  intro fuel
  induction fuel with
  | zero => intro _ _ h; omega
  | succ f ih =>
    intro rem acc hlen
    cases rem with
    | nil => exact ⟨acc, by simp [kahn]⟩
    | cons r rs =>
      have hne := ready_ne_nil g rank hr (r :: rs) (by simp)
      have hlt := filter_ready_lt g (r :: rs) hne
      simp only [kahn]
      rw [if_neg (by simpa using hne)]
      exact ih _ _ (by omega)

/-- completeness relative to the checker: if any dependency-respecting order exists, the model sort returns one;
    together with `kahn_sound`: it refuses exactly when no such order exists -/
theorem kahn_complete (g : Graph) (o : List Nat) (h : checkOrder g o = true) : ∃ o', topoSort g = some o' := by
  have hs := (checkOrder_sound g o h).2.2
  exact kahn_total g (idx o) (fun e he => hs e.1 e.2 he) _ _ _ (Nat.lt_succ_self _)

end Vm.Topo
