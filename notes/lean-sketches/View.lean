/-! Prototype: view read (C12) -/
namespace Vm.View

structure Row where
  label   : Nat
  tracked : Bool
  cells   : List (String × Int)
deriving Repr

structure ViewDef where
  cols          : List String          -- [] = full access
  filter        : Row → Bool           -- the view's own query
  mentionsTracked : Bool               -- the query refers to the `tracked` column (word match, repaired F6)

/-- `_get_view`: the default tracked filter is added unless the view has the tracked column, has full access,
    or its own query already constrains `tracked` -/
def needTracked (v : ViewDef) : Bool := !v.cols.isEmpty && !v.cols.contains "tracked" && !v.mentionsTracked

/-- `PopulationView.get`: rows by label in request order, then view query, then extra query -/
def get (table : List Row) (v : ViewDef) (idx : List Nat) (extra : Row → Bool) : List Row :=
  (idx.filterMap (fun l => table.find? (fun r => r.label == l))).filter
    (fun r => v.filter r && extra r && (!needTracked v || r.tracked))

theorem eq_of_label {table : List Row} (hnd : (table.map (·.label)).Nodup) {a b : Row}
    (ha : a ∈ table) (hb : b ∈ table) (h : a.label = b.label) : a = b := by
  induction table with
  | nil => cases ha
  | cons x xs ih =>
    simp only [List.map_cons, List.nodup_cons] at hnd
    rcases List.mem_cons.mp ha with rfl | ha' <;> rcases List.mem_cons.mp hb with rfl | hb'
    · rfl
    · exact absurd (h ▸ List.mem_map_of_mem (f := (·.label)) hb') hnd.1
    · exact absurd (h ▸ List.mem_map_of_mem (f := (·.label)) ha') hnd.1
    · exact ih hnd.2 ha' hb'

theorem find_label {table : List Row} {l : Nat} {r : Row} (h : table.find? (fun r => r.label == l) = some r) :
    r ∈ table ∧ r.label = l :=
  ⟨List.mem_of_find?_eq_some h, by simpa using List.find?_some h⟩

/-- exactly the requested simulants that satisfy the view filter, the extra filter and (when required) tracked -/
theorem get_spec (table : List Row) (hnd : (table.map (·.label)).Nodup) (v : ViewDef) (idx : List Nat)
    (extra : Row → Bool) (r : Row) :
    r ∈ get table v idx extra ↔
      (r ∈ table ∧ r.label ∈ idx ∧ v.filter r = true ∧ extra r = true ∧ (needTracked v = true → r.tracked = true)) := by
  simp only [get, List.mem_filter, List.mem_filterMap, Bool.and_eq_true, Bool.or_eq_true, Bool.not_eq_true']
  constructor
  · rintro ⟨⟨l, hl, hf⟩, ⟨⟨h1, h2⟩, h3⟩⟩
    obtain ⟨hm, hlab⟩ := find_label hf
    refine ⟨hm, hlab ▸ hl, h1, h2, fun hn => ?_⟩
    rcases h3 with h | h
    · rw [hn] at h; cases h
    · exact h
  · rintro ⟨hm, hl, h1, h2, h3⟩
    refine ⟨⟨r.label, hl, ?_⟩, ⟨⟨h1, h2⟩, ?_⟩⟩
    · -- the first row with this label is `r` because labels are unique
      cases hf : table.find? (fun x => x.label == r.label) with
      | none =>
        have := List.find?_eq_none.mp hf r hm
        simp at this
      | some r' =>
        obtain ⟨hm', hlab'⟩ := find_label hf
        have : r' = r := eq_of_label hnd hm' hm hlab'
        rw [this]
    · cases hn : needTracked v with
      | false => exact Or.inl rfl
      | true => exact Or.inr (h3 hn)

/-- in the requested order: the labels returned are a sub-list of the request -/
theorem get_order (table : List Row) (v : ViewDef) (idx : List Nat) (extra : Row → Bool)
    (hall : ∀ l ∈ idx, ∃ r, table.find? (fun r => r.label == l) = some r) :
    ((get table v idx extra).map (·.label)).Sublist idx := by
  unfold get
  refine ((List.filter_sublist).map _).trans ?_
  induction idx with
  | nil => simp
  | cons l ls ih =>
    obtain ⟨r, hr⟩ := hall l List.mem_cons_self
    simp only [List.filterMap_cons, hr, List.map_cons, (find_label hr).2]
    exact List.Sublist.cons_cons _ (ih (fun l' hl' => hall l' (List.mem_cons_of_mem _ hl')))

end Vm.View
