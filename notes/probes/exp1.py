import vsrc
import pandas as pd, numpy as np
from vivarium.framework.randomness.index_map import IndexMap
t = pd.Timestamp('2020-01-01')
for size in (16, 25, 32):
  for cols in (['k'], ['k','j']):
    m = IndexMap(cols, size=size)
    n = 8
    rng = np.random.RandomState(size)
    df = pd.DataFrame({'k': rng.permutation(40)[:n], 'j': rng.permutation(40)[:n]+100}, index=range(n))[cols]
    raw = m._hash(df.set_index(cols).index, salt=t).tolist()
    m.update(df, t)
    got = dict(zip([ix[0] for ix in m._map.index.tolist()], m._map.tolist()))
    print("size",size,"cols",cols,"raw",raw)
    print("   got", [got[i] for i in range(n)], "injective", len(set(got.values()))==n)
    # which are non-colliding on first hash (first occurrence)
    seen=set(); exp={}
    for i,r in enumerate(raw):
        if r not in seen: exp[i]=r; seen.add(r)
    mis = {i:(exp[i],got[i]) for i in exp if exp[i]!=got[i]}
    print("   first-occurrence simulants whose position != own hash:", mis)
