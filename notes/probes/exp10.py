import vsrc
import pandas as pd, numpy as np
from vivarium import Component
from vivarium.framework.engine import SimulationContext

class Pop(Component):
    @property
    def name(self): return "pop"
    @property
    def columns_created(self): return ["a","tracked_since","flag"]
    def on_initialize_simulants(self, pop_data):
        n=len(pop_data.index)
        self.population_view.update(pd.DataFrame({"a":np.arange(n),"tracked_since":np.arange(n)*1.0,"flag":[True]*n}, index=pop_data.index))
    def setup(self, builder):
        self.creator = builder.population.get_simulant_creator()
        self.v1 = builder.population.get_view(["a"], "tracked_since >= 1")
        self.v2 = builder.population.get_view(["a"], "a >= 1")
        self.v3 = builder.population.get_view(["a","tracked"], "a >= 1")
        self.tv = builder.population.get_view(["tracked"])
        self.sub = None
    def on_simulation_end(self, event):
        sv = self.population_view.subview(["a"])
        try:
            sv.update(pd.Series(99, index=event.index[:1], name="a")); print("subview update during simulation_end: ACCEPTED")
        except Exception as e: print("subview update during simulation_end:", type(e).__name__)
        try:
            self.population_view.update(pd.Series(99, index=event.index[:1], name="a")); print("view update during simulation_end: ACCEPTED")
        except Exception as e: print("view update during simulation_end:", type(e).__name__)

SimulationContext._clear_context_cache()
c=Pop()
sim=SimulationContext(components=[c], configuration={'population':{'population_size':5},'time':{'start':{'year':2020,'month':1,'day':1},'end':{'year':2020,'month':1,'day':3},'step_size':1}})
sim.setup(); sim.initialize_simulants()
sim._lifecycle.set_state("time_step__prepare")
c.tv.update(pd.Series(False, index=[2,3], name="tracked"))
idx = pd.Index([4,3,2,1,0])
print("query mentions tracked_since:", c.v1.query, "->", c.v1.get(idx).index.tolist())
print("query plain:", c.v2.query, "->", c.v2.get(idx).index.tolist())
print("tracked in cols:", c.v3.query, "->", c.v3.get(idx).index.tolist())
before=sim.get_population()
new = c.creator(0); print("create 0 ->", list(new)); 
new = c.creator(3); print("create 3 ->", list(new))
after=sim.get_population()
print(after.dtypes.to_dict())
print("existing rows unchanged:", after.loc[before.index, before.columns].equals(before), )
print(after)
for s in ["time_step","time_step__cleanup","collect_metrics","simulation_end"]: sim._lifecycle.set_state(s)
c.on_simulation_end(type("E",(),{"index":sim.get_population().index})())
