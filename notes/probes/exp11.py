import vsrc, itertools, random
import pandas as pd, numpy as np
from vivarium import Component
from vivarium.framework.engine import SimulationContext

def make_data(rng, nkeys, nparams, nvals):
    keyvals = [rng.sample(["a","b","c","d"], rng.randint(1,3)) for _ in range(nkeys)]
    edges = []
    for _ in range(nparams):
        k = rng.randint(1,4); e = sorted(rng.sample(range(-8, 24), k+1)); edges.append([x/4 for x in e])
    rows=[]
    for kv in itertools.product(*keyvals):
        for bins in itertools.product(*[list(zip(e[:-1],e[1:])) for e in edges]):
            r={f"k{i}":v for i,v in enumerate(kv)}
            for j,(s,e) in enumerate(bins): r[f"p{j}_start"]=s; r[f"p{j}_end"]=e
            for v in range(nvals): r[f"v{v}"]=float(rng.randint(0,1000))
            rows.append(r)
    rng.shuffle(rows)
    return pd.DataFrame(rows), keyvals, edges

class Pop(Component):
    def __init__(self, attrs): super().__init__(); self.attrs=attrs
    @property
    def name(self): return "pop"
    @property
    def columns_created(self): return list(self.attrs.columns)
    def on_initialize_simulants(self, pop_data): self.population_view.update(self.attrs.loc[pop_data.index])
class L(Component):
    def __init__(self, data, k, p, v): super().__init__(); self.d=(data,k,p,v)
    @property
    def name(self): return "l"
    def setup(self, b): self.t=b.lookup.build_table(self.d[0], key_columns=self.d[1], parameter_columns=self.d[2], value_columns=self.d[3])

bad=0; n=0
for seed in range(60):
    rng=random.Random(seed)
    nk, npar, nv = rng.randint(0,2), rng.randint(1,2), rng.randint(1,2)
    data, keyvals, edges = make_data(rng, nk, npar, nv)
    N=12
    attrs = pd.DataFrame({**{f"k{i}":[rng.choice(kv) for _ in range(N)] for i,kv in enumerate(keyvals)},
                          **{f"p{j}":[rng.choice(e + [e[0]-1, e[-1]+1, (e[0]+e[-1])/2, e[0]+0.125]) for _ in range(N)] for j,e in enumerate(edges)}})
    SimulationContext._clear_context_cache()
    lk=L(data,[f"k{i}" for i in range(nk)],[f"p{j}" for j in range(npar)],[f"v{v}" for v in range(nv)])
    sim=SimulationContext(components=[Pop(attrs),lk], configuration={'population':{'population_size':N}})
    sim.setup(); sim.initialize_simulants()
    idx = pd.Index(rng.sample(range(N), rng.randint(1,N)))
    got = lk.t(idx)
    if isinstance(got, pd.Series): got=got.to_frame()
    for s in idx:
        rows=data
        for i in range(nk): rows=rows[rows[f"k{i}"]==attrs.loc[s,f"k{i}"]]
        for j,e in enumerate(edges):
            x=attrs.loc[s,f"p{j}"]; x=min(max(x,e[0]), e[-1]-1e-9) if not (e[0]<=x<e[-1]) else x
            rows=rows[(rows[f"p{j}_start"]<=x)&(x<rows[f"p{j}_end"])]
        assert len(rows)==1, len(rows)
        exp=[rows.iloc[0][f"v{v}"] for v in range(nv)]
        n+=1
        if list(got.loc[s].values)!=exp: bad+=1; print("MISMATCH seed",seed,"sim",s, list(got.loc[s].values), exp)
    assert list(got.index)==list(idx)
print("checked",n,"bad",bad)
