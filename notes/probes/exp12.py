import vsrc
import pandas as pd, numpy as np
from vivarium import Component
from vivarium.framework.engine import SimulationContext
LOG=[]
class C(Component):
    def __init__(self, nm, subs=(), defaults=None):
        super().__init__(); self.nm=nm; self._sub_components=list(subs); self._d=defaults or {}
    @property
    def name(self): return self.nm
    @property
    def configuration_defaults(self): return self._d
    def setup(self, builder):
        LOG.append(("setup", self.nm, builder.configuration.to_dict().get("shared",{})))
        self.cfg=builder.configuration
def mk(comps, **kw):
    SimulationContext._clear_context_cache(); LOG.clear()
    return SimulationContext(components=comps, **kw)
def attempt(label, f):
    try: r=f(); print(label, "-> ok", r if r is not None else "")
    except Exception as e: print(label, "->", type(e).__name__, str(e)[:90])

# nested tree
tree=[C("a",[C("b",[C("d")]),C("c")]), C("e")]
s=mk(tree); s.setup(); print([x[1] for x in LOG])
attempt("dup deep", lambda: mk([C("a",[C("b",[C("e")])]), C("e")]))
attempt("dup same object", lambda: (lambda x: mk([x,x]))(C("z")))
attempt("dup manager name", lambda: mk([C("population_manager")]).setup())
# config precedence
for order in ([0,1],[1,0]):
    comps=[C("x",defaults={"shared":{"k1":1,"k2":2}}), C("y",defaults={"other":{"k":5}})]
    comps=[comps[i] for i in order]
    s=mk(comps, configuration={"shared":{"k1":100}}); s.setup()
    print("order",order,"k1",s.configuration.shared.k1,"k2",s.configuration.shared.k2)
attempt("two defaults same key", lambda: mk([C("x",defaults={"shared":{"k1":1}}), C("y",defaults={"shared":{"k1":2}})]))
attempt("default same key as manager", lambda: mk([C("x",defaults={"population":{"population_size":7}})]))
s=mk([C("x",defaults={"shared":{"k1":1}})]); s.setup()
attempt("modify after setup", lambda: s.configuration.update({"shared":{"k1":9}}))
attempt("modify new key after setup", lambda: s.configuration.update({"newkey":{"k1":9}}))
s=mk([C("x",defaults={"shared":{"k1":1}})])
attempt("modify before setup", lambda: s.configuration.update({"shared":{"k1":9}}, layer="override"))
s.setup(); print("k1 now", s.configuration.shared.k1)
# default structure conflict with user value
attempt("user scalar vs default dict", lambda: mk([C("x",defaults={"shared":{"k1":{"deep":1}}})], configuration={"shared":{"k1":5}}))
