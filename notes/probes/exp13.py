import vsrc
import pandas as pd, numpy as np
from vivarium.framework.randomness.index_map import IndexMap
from vivarium.framework.randomness.stream import RandomnessStream
t=pd.Timestamp("2020-01-01")
for cols in (["k"],["k","j"]):
    im=IndexMap(cols, size=1000)
    n=30
    df=pd.DataFrame({"k":np.arange(n)*3.7 % 11 + np.arange(n), "j":pd.to_datetime("2020-01-01")+pd.to_timedelta(np.arange(n),unit="D")}, index=range(n))[cols]
    im.update(df, t)
    st=RandomnessStream("dp", lambda: t, "123", im)
    full=st.get_draw(pd.Index(range(n)))
    for req in ([5,3,9],[29,0],[7],[3,3,5],list(range(n-1,-1,-1))):
        got=st.get_draw(pd.Index(req))
        ok = list(got.index)==req and all(got.iloc[i]==full[r] for i,r in enumerate(req))
        print(cols, req[:6], "ok" if ok else "MISMATCH", got.values[:4], [full[r] for r in req[:4]])
    print("positions distinct", len(set(im[pd.Index(range(n))]))==n, "range", im[pd.Index(range(n))].min(), im[pd.Index(range(n))].max())
