import vsrc
import pandas as pd, numpy as np
from vivarium import Component
from vivarium.framework.engine import SimulationContext
SNAP=[]
class Pop(Component):
    @property
    def name(self): return "pop"
    @property
    def columns_created(self): return ["g","h","x"]
    def setup(self, b): self.creator=b.population.get_simulant_creator(); self.tv=b.population.get_view(["tracked"])
    def on_initialize_simulants(self, d):
        n=len(d.index); i=np.array(d.index)
        self.population_view.update(pd.DataFrame({"g":np.where(i%3==0,"a",np.where(i%3==1,"b","c")),"h":np.where(i%2==0,"u","v"),"x":(i%5).astype(float)}, index=d.index))
    def on_time_step(self, e):
        self.creator(3)
        self.tv.update(pd.Series(False, index=e.index[:2], name="tracked"))
class Obs(Component):
    def __init__(self, bad=False): super().__init__(); self.bad=bad
    @property
    def name(self): return "obs"
    @property
    def columns_required(self): return []
    def setup(self, b):
        b.results.register_stratification("g", ["a","b","c"], requires_columns=["g"])
        b.results.register_stratification("h2", ["U","V"] if not self.bad else ["U"], mapper=lambda row: row["h"].upper(), is_vectorized=False, requires_columns=["h"])
        b.results.register_adding_observation("n", additional_stratifications=["g","h2"], requires_columns=["g","h"])
        b.results.register_adding_observation("n_all", pop_filter="", additional_stratifications=["g"], requires_columns=["g"])
        b.results.register_adding_observation("sx", additional_stratifications=["h2"], aggregator_sources=["x"], aggregator=lambda df: df["x"].sum(), requires_columns=["x"], to_observe=lambda e: e.time.day%2==0)
        b.results.register_adding_observation("tot", requires_columns=[])
    def on_collect_metrics(self, e):
        SNAP.append((e.time, self.population_view.get(e.index).copy()))
def run(bad=False, excl=None):
    SimulationContext._clear_context_cache(); SNAP.clear()
    cfg={'population':{'population_size':7},'time':{'start':{'year':2020,'month':1,'day':1},'end':{'year':2020,'month':1,'day':5},'step_size':1}}
    if excl: cfg['stratification']={'excluded_categories':excl}
    sim=SimulationContext(components=[Pop(),Obs(bad)], configuration=cfg)
    sim.run_simulation(); return sim.get_results()
r=run()
exp_n = sum(int(s.tracked.sum()) for _,s in SNAP); exp_all=sum(len(s) for _,s in SNAP)
print("n total", r["n"].value.sum(), "expected", exp_n, "rows", len(r["n"]))
print("n_all total", r["n_all"].value.sum(), "expected", exp_all)
print("tot", r["tot"].to_dict("records"))
exp_sx=sum(s[s.tracked].x.sum() for t,s in SNAP if t.day%2==0); print("sx", r["sx"].value.sum(), exp_sx)
r=run(excl={"g":["c"]}); print("excluded c: rows", len(r["n"]), "total", r["n"].value.sum(), "expected", sum(int((s.tracked&(s.g!="c")).sum()) for _,s in SNAP))
try: run(bad=True); print("bad mapper: NOT stopped")
except Exception as e: print("bad mapper ->", type(e).__name__, str(e)[:70])
