import vsrc, itertools, random
import pandas as pd, numpy as np
from vivarium import Component
from vivarium.framework.engine import SimulationContext
from vivarium.framework.values import list_combiner, union_post_processor
ORDER=[]
class Init(Component):
    def __init__(self, nm, creates, rc=(), rv=(), rs=()): super().__init__(); self.nm=nm; self.c=list(creates); self.r=dict(requires_columns=list(rc),requires_values=list(rv),requires_streams=list(rs))
    @property
    def name(self): return self.nm
    @property
    def columns_created(self): return self.c
    @property
    def initialization_requirements(self): return self.r
    def on_initialize_simulants(self, d):
        ORDER.append((self.nm, list(d.index)))
        if self.c: self.population_view.update(pd.DataFrame({c:0 for c in self.c}, index=d.index))
class Pipe(Component):
    def __init__(self, nm, val, src_cols=(), mods=()): super().__init__(); self.nm=nm; self.val=val; self.src_cols=list(src_cols); self.mods=mods
    @property
    def name(self): return self.nm
    def setup(self, b):
        self.p=b.value.register_value_producer(self.val, source=lambda idx: pd.Series(1.0,index=idx), requires_columns=self.src_cols)
        for i,(cols,) in enumerate(self.mods):
            b.value.register_value_modifier(self.val, (lambda idx, v: v+1), requires_columns=list(cols))
class Strm(Component):
    def __init__(self, nm, s): super().__init__(); self.nm=nm; self.s=s
    @property
    def name(self): return self.nm
    def setup(self, b): self.st=b.randomness.get_stream(self.s)
def run(comps, perm=None, **cfg):
    SimulationContext._clear_context_cache(); ORDER.clear()
    comps=[comps[i] for i in perm] if perm else comps
    sim=SimulationContext(components=comps, configuration={'population':{'population_size':3}, **cfg})
    sim.setup(); sim.initialize_simulants(); return [o[0] for o in ORDER]
def mk():
    return [Init("A",["a"],rv=["v"]), Pipe("P","v",src_cols=["b"],mods=[(["c"],)]), Init("B",["b"]), Init("C",["c"],rs=["s"]), Strm("S","s"), Init("K",["k"]), Init("N",[],rc=["a"])]
bad=0
for perm in itertools.permutations(range(7)):
    if random.random()>0.03: continue
    o=run(mk(), perm, randomness={'key_columns':['k']})
    pos={n:i for i,n in enumerate(o)}
    ok = pos["B"]<pos["A"] and pos["C"]<pos["A"] and pos["K"]<pos["C"] and pos["A"]<pos["N"] and sorted(o)==sorted(["A","B","C","K","N"]) 
    if not ok: bad+=1; print("BAD", perm, o)
print("orders checked; bad =", bad, "example", o)
def attempt(label, f):
    try: r=f(); print(label, "-> ok", r)
    except Exception as e: print(label, "->", type(e).__name__, str(e)[:80])
attempt("cycle via columns", lambda: run([Init("A",["a"],rc=["b"]), Init("B",["b"],rc=["a"])]))
attempt("cycle via pipeline", lambda: run([Init("A",["a"],rv=["v"]), Pipe("P","v",src_cols=["a"])]))
attempt("cycle via modifier", lambda: run([Init("A",["a"],rv=["v"]), Pipe("P","v",mods=[(["a"],)])]))
attempt("dup column producer", lambda: run([Init("A",["a"]), Init("B",["a"])]))
attempt("dup stream", lambda: run([Strm("S1","s"), Strm("S2","s")]))
attempt("unmet requirement", lambda: run([Init("A",["a"],rc=["zzz"])]))
