import vsrc, os, tempfile, random, json, warnings, shutil
import pandas as pd, numpy as np
from vivarium.framework.artifact import Artifact
from vivarium.framework.artifact import hdf
warnings.filterwarnings("ignore")
def mkdata(rng):
    k=rng.randint(0,5)
    if k==0: return {"a":[1,2,{"b":None}], "c":"x", "d":1.5, "e":True}
    if k==1: return [rng.randint(0,9) for _ in range(rng.randint(0,4))]
    if k==2: return "str%d"%rng.randint(0,99)
    if k==3:
        n=rng.randint(1,5); return pd.DataFrame({"value":[float(rng.randint(0,99)) for _ in range(n)],"draw":list(range(n))}, index=pd.MultiIndex.from_tuples([(i,"s%d"%(i%2)) for i in range(n)], names=["i","s"]))
    if k==4:
        n=rng.randint(1,4); return pd.DataFrame(index=pd.MultiIndex.from_tuples([(i,float(i)) for i in range(n)], names=["p","q"]))  # empty indexed table
    if k==5: return pd.Series([1.0,2.0,3.0][:rng.randint(1,3)], name="value")
def same(a,b):
    if isinstance(a,(pd.DataFrame,pd.Series)):
        if type(a)!=type(b): return False
        try:
            A=a.reset_index(); B=b.reset_index()
            return list(A.columns)==list(B.columns) and len(A)==len(B) and all((A[c].astype(str).tolist()==B[c].astype(str).tolist()) for c in A.columns)
        except Exception as e: return False
    return a==b
KEYS=["a.b","a.c","a.b.c","x.y.z","x.y.w","m.n"]
bad=0; nops=0
for seed in range(40):
    rng=random.Random(seed); d=tempfile.mkdtemp(dir="/tmp/scratch"); p=os.path.join(d,"t.hdf")
    art=Artifact(p); model={}
    for step in range(rng.randint(5,18)):
        op=rng.choice(["write","write","load","remove","replace","clear","reopen","bad"])
        k=rng.choice(KEYS); nops+=1
        try:
            if op=="write":
                data=mkdata(rng); art.write(k,data); assert k not in model, "dup write accepted"; model[k]=data
            elif op=="load":
                got=art.load(k); assert k in model, "load missing accepted"; assert same(model[k],got), ("load mismatch",k,model[k],got)
            elif op=="remove":
                art.remove(k); assert k in model; del model[k]
            elif op=="replace":
                data=mkdata(rng); art.replace(k,data); assert k in model; model[k]=data
            elif op=="clear": art.clear_cache()
            elif op=="reopen": art=Artifact(p)
            elif op=="bad":
                which=rng.choice(["none","malformed","unser","replace_none","replace_unser"])
                try:
                    if which=="none": art.write(k,None)
                    elif which=="malformed": art.write(rng.choice(["k","a..b","a.b.c.d",".a.b"]),1)
                    elif which=="unser": art.write(k,{"s":{1,2}})
                    elif which=="replace_none": art.replace(k,None)
                    elif which=="replace_unser": art.replace(k,object())
                    print("BAD accepted", which, seed, step); bad+=1
                except AssertionError: raise
                except Exception: pass
        except AssertionError as e:
            print("VIOL", seed, step, op, k, e); bad+=1; break
        except Exception as e:
            ok = (op=="write" and k in model) or (op in("load","remove","replace") and k not in model)
            if not ok: print("UNEXPECTED rejection", seed, step, op, k, type(e).__name__, str(e)[:80]); bad+=1; break
        # consistency
        ks=[x for x in art.keys if x!="metadata.keyspace"]
        fk=sorted(x for x in hdf.get_keys(p) if x!="metadata.keyspace")
        fresh=[x for x in Artifact(p).keys if x!="metadata.keyspace"]
        if not (sorted(ks)==sorted(model)==fk==sorted(fresh)):
            print("KEYS DISAGREE", seed, step, op, k, ks, sorted(model), fk, fresh); bad+=1; break
        for kk in model:
            if not same(model[kk], art.load(kk)): print("CONTENT", seed, step, kk); bad+=1; break
    shutil.rmtree(d)
print("ops", nops, "bad", bad)
