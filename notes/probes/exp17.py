import vsrc, os, tempfile, warnings, shutil, itertools
import pandas as pd
from vivarium.framework.artifact import Artifact, hdf
warnings.filterwarnings("ignore")
df=lambda: pd.DataFrame({"value":[1.0,2.0]}, index=pd.Index([1,2],name="i"))
for first,second,(d1n,d1),(d2n,d2) in [(a,b,x,y) for (a,b) in (("a.b.c","a.b"),("a.b","a.b.c")) for x in (("df",df()),("json",[1])) for y in (("df",df()),("json",[2]))]:
    d=tempfile.mkdtemp(dir="/tmp/scratch"); p=os.path.join(d,"t.hdf"); art=Artifact(p)
    art.write(first,d1)
    try: art.write(second,d2); r="accepted"
    except Exception as e: r="rejected "+type(e).__name__
    out=[]
    for k in (first,second):
        if k in art.keys:
            art.clear_cache()
            try: art.load(k); out.append(k+":loadable")
            except Exception as e: out.append(k+":LOAD FAILS "+type(e).__name__)
    print(f"{first}({d1n}) then {second}({d2n}): {r}; keys={[k for k in art.keys if k!='metadata.keyspace']} file={[k for k in sorted(hdf.get_keys(p)) if k!='metadata.keyspace']} {out}")
    shutil.rmtree(d)
