import vsrc, random, warnings
import pandas as pd, numpy as np
from vivarium import Component
from vivarium.framework.engine import SimulationContext
warnings.filterwarnings("ignore")
COLS={"i":"int","f":"float","s":"str","b":"bool","t":"time"}
def val(kind,rng):
    return {"int":lambda: rng.randint(0,9),"float":lambda: rng.randint(0,40)/4,"str":lambda: rng.choice("xyz"),"bool":lambda: rng.random()<.5,"time":lambda: pd.Timestamp("2020-01-01")+pd.Timedelta(days=rng.randint(0,9))}[kind]()
class Pop(Component):
    def __init__(self, rng): super().__init__(); self.rng=rng
    @property
    def name(self): return "pop"
    @property
    def columns_created(self): return list(COLS)
    def setup(self,b):
        self.creator=b.population.get_simulant_creator()
        self.views={}
        for cols in (["i"],["i","f"],["s","b","tracked"],["f","s","t"],list(COLS),[]):
            self.views[tuple(cols)]=b.population.get_view(cols)
        self.qv=b.population.get_view(["i","s"],"f >= 2")
        self.tv=b.population.get_view(["tracked"])
    def on_initialize_simulants(self,d):
        DT={"int":"int64","float":"float64","str":"str","bool":"bool","time":"datetime64[ns]"}
        self.population_view.update(pd.DataFrame({c:pd.Series([val(k,self.rng) for _ in d.index], index=d.index, dtype=DT[k]) for c,k in COLS.items()}, index=d.index))
def canon(df): return df[sorted(df.columns)]
bad=0; nops=0; stats={}
for seed in range(60):
    rng=random.Random(seed); SimulationContext._clear_context_cache()
    c=Pop(rng); sim=SimulationContext(components=[c], configuration={'population':{'population_size':rng.randint(0,8)}}); sim.setup(); sim.initialize_simulants()
    sim._lifecycle.set_state("time_step__prepare")
    held=[]
    for step in range(25):
        table=canon(sim.get_population()); N=len(table); nops+=1
        op=rng.choice(["get","update","update","badupdate","create","untrack"])
        stats[op]=stats.get(op,0)+1
        vcols,view=rng.choice(list(c.views.items()))
        if op=="get":
            idx=pd.Index(rng.sample(range(N), rng.randint(0,N)) if N else [], dtype="int64")
            extra=rng.choice(["","i > 3","b == True", "s == 'x' and f < 5"])
            got=view.get(idx, extra)
            exp=table.loc[idx]
            if "tracked" not in vcols and vcols: exp=exp[exp.tracked]
            if extra: exp=exp.query(extra) if len(exp) else exp
            cols=list(vcols) if vcols else list(table.columns)
            if list(got.index)!=list(exp.index) or not canon(got).equals(canon(exp[cols])): print("GET", seed, step, vcols, extra, list(got.index), list(exp.index)); bad+=1
            held.append((got.copy(), got))
            if len(got): got.iloc[0,0]=got.iloc[0,0]  # touch
        elif op=="update" and N:
            cols=list(vcols) if vcols else list(COLS); ucols=rng.sample(cols, rng.randint(1,len(cols)))
            rows=rng.sample(range(N), rng.randint(0,N))
            upd=pd.DataFrame({cc:[val(COLS.get(cc,"bool"),rng) for _ in rows] for cc in ucols}, index=pd.Index(rows,dtype="int64"))
            for cc in ucols: upd[cc]=upd[cc].astype(table[cc].dtype) if len(rows) else upd[cc].astype(table[cc].dtype)
            if len(ucols)==1 and rng.random()<.5: upd=upd[ucols[0]]; 
            if isinstance(upd,pd.Series) and len(cols)==1 and rng.random()<.5: upd.name=None
            try: view.update(upd)
            except Exception as e: print("UPDATE rejected?", seed, step, vcols, ucols, type(e).__name__, str(e)[:100]); bad+=1; continue
            after=canon(sim.get_population()); exp=table.copy()
            u=upd.to_frame(ucols[0]) if isinstance(upd,pd.Series) else upd
            for cc in ucols:
                for r in rows: exp.loc[r,cc]=u.loc[r,cc]
            if not after.equals(exp) or list(after.dtypes)!=list(table.dtypes): print("UPDATE wrong", seed, step, vcols, ucols, rows); print(after.compare(exp) if after.shape==exp.shape else ""); bad+=1
        elif op=="badupdate" and N:
            kind=rng.choice(["foreign","unknownrow","newcol","dtype2","unnamed"])
            cols=list(vcols) if vcols else list(COLS)
            try:
                if kind=="foreign":
                    other=[x for x in list(COLS)+["tracked"] if x not in cols]
                    if not other: continue
                    view.update(pd.DataFrame({other[0]:[table[other[0]].iloc[0]]}, index=[0]))
                elif kind=="unknownrow": view.update(pd.DataFrame({cols[0]:[table[cols[0]].iloc[0]]}, index=[N+3]))
                elif kind=="newcol":
                    if vcols: continue
                    view.update(pd.DataFrame({"zz":[1]}, index=[0]))
                elif kind=="dtype2":
                    if len(cols)<2: continue
                    a,b=rng.sample(cols,2); wrong={"int":1.5,"float":"q","str":3,"bool":"q","time":1.5}[COLS.get(b,"bool")]
                    view.update(pd.DataFrame({a:[table[a].iloc[0]], b:[wrong]}, index=[rng.randrange(N)]))
                elif kind=="unnamed":
                    if len(cols)<2: continue
                    view.update(pd.Series([table[cols[0]].iloc[0]], index=[0]))
                print("BADUPDATE accepted", seed, step, kind, vcols); bad+=1
            except Exception as e: pass
            after=canon(sim.get_population())
            if not after.equals(table): print("BADUPDATE changed table", seed, step, kind, vcols); bad+=1
        elif op=="create":
            k=rng.randint(0,3); new=c.creator(k); after=canon(sim.get_population())
            if list(new)!=list(range(N,N+k)) or not after.loc[table.index].equals(table) or list(after.dtypes)!=list(table.dtypes) and N: print("CREATE", seed, step, list(new), N, k, list(after.dtypes), list(table.dtypes)); bad+=1
        elif op=="untrack" and N:
            c.tv.update(pd.Series(False, index=pd.Index(rng.sample(range(N),1),dtype="int64"), name="tracked"))
    for snap,live in held:
        if not snap.equals(live): print("HELD frame changed", seed); bad+=1
print("ops",nops,stats,"bad",bad)
