import vsrc, random, warnings
import pandas as pd, numpy as np
from fractions import Fraction
from vivarium import Component
from vivarium.framework.engine import SimulationContext
from vivarium.framework.state_machine import Machine, State, Transition, TransientState, Trigger
warnings.filterwarnings("ignore")
class M(Component):
    def __init__(self, rng, N):
        super().__init__(); self.rng=rng; self.N=N
        ns=rng.randint(2,4); self.names=[f"s{i}" for i in range(ns)]
        self.self_ok={n: rng.random()<.5 for n in self.names}
        self.states={n: State(n, allow_self_transition=self.self_ok[n]) for n in self.names}
        self.trans={n:[] for n in self.names}; self.probs={}
        for n in self.names:
            outs=rng.sample([m for m in self.names if m!=n], rng.randint(0,len(self.names)-1))
            budget=16
            for o in outs:
                trig=rng.choice([Trigger.NOT_TRIGGERED]*3+[Trigger.START_INACTIVE])
                # per simulant probs in sixteenths, keep row sums <= 1
                pr={i: Fraction(rng.choice([0,1,2,4,4,8]),16) for i in range(N)}
                self.probs[(n,o)]=pr
                t=Transition(self.states[n], self.states[o], probability_func=(lambda idx, pr=pr: pd.Series([float(pr[i]) for i in idx], index=idx, dtype=float)), triggered=trig)
                if trig!=Trigger.NOT_TRIGGERED: t._act=set(rng.sample(range(N), rng.randint(0,N)))
                self.states[n].add_transition(t); self.trans[n].append((o,t))
        self.machine=Machine("st", list(self.states.values())); self._sub_components=[self.machine]
    @property
    def name(self): return "m"
    @property
    def columns_created(self): return ["st","other"]
    def on_initialize_simulants(self,d):
        self.population_view.update(pd.DataFrame({"st":[self.rng.choice(self.names) for _ in d.index],"other":np.arange(len(d.index))}, index=d.index))
bad=0; checked=0; rej=0; taken=0
for seed in range(150):
    rng=random.Random(seed); N=rng.randint(1,10); SimulationContext._clear_context_cache()
    c=M(rng,N); sim=SimulationContext(components=[c], configuration={'population':{'population_size':N},'randomness':{'random_seed':seed}}); sim.setup(); sim.initialize_simulants()
    for n in c.names:
        for o,t in c.trans[n]:
            if t._active_index is not None: t.set_active(pd.Index(sorted(t._act),dtype="int64"))
    sim._lifecycle.set_state("time_step__prepare"); sim._lifecycle.set_state("time_step")
    before=sim.get_population(); idx=pd.Index(sorted(rng.sample(range(N), rng.randint(1,N))),dtype="int64")
    # expected
    exp=before.st.copy(); reject=False
    for n in c.names:
        sims=[i for i in idx if before.st[i]==n]
        if not sims or not c.trans[n]: continue
        draws=c.states[n].transition_set.random.get_draw(pd.Index(sims,dtype="int64"))
        for i in sims:
            ps=[(c.probs[(n,o)][i] if (t._active_index is None or i in t._act) else Fraction(0)) for o,t in c.trans[n]]
            ones=sum(1 for p in ps if p==1)
            if ones>1: reject=True
            tot=sum(ps)
            if ones==1: ps=[p/tot for p in ps]; tot=sum(ps)
            if c.self_ok[n]:
                if tot>1: reject=True
                ps=ps+[1-tot]; outs=[o for o,_ in c.trans[n]]+[n]
            else:
                if tot==0: reject=True; continue
                ps=[p/tot for p in ps]; outs=[o for o,_ in c.trans[n]]
            if reject: continue
            cum=0; k=0; d=Fraction(draws[i])
            for p in ps:
                cum+=p
                if d>cum: k+=1
            exp[i]=outs[min(k,len(outs)-1)]
    try:
        c.machine.transition(idx, sim._clock.event_time); ok=True
    except Exception as e:
        ok=False; err=e
    after=sim.get_population()
    if reject:
        rej+=1
        if ok: print("ACCEPTED unnormalisable", seed); bad+=1
        continue
    if not ok: print("CRASH", seed, type(err).__name__, str(err)[:100]); bad+=1; continue
    checked+=len(idx); taken+=int((after.st!=before.st).sum())
    if not after.st.equals(exp): print("MISMATCH", seed, after.st.tolist(), exp.tolist(), before.st.tolist(), list(idx)); bad+=1
    if not after.other.equals(before.other) or not after.tracked.equals(before.tracked): print("OTHER COLS", seed); bad+=1
print("simulants checked", checked, "moved", taken, "rejected-machines", rej, "bad", bad)
