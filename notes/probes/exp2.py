import vsrc
import pandas as pd, numpy as np
from vivarium import Component, InteractiveContext
from vivarium.framework.engine import SimulationContext

class StepMod(Component):
    def __init__(self, steps): super().__init__(); self.steps=steps; self.to_end={}
    @property
    def name(self): return "stepmod"
    def setup(self, builder):
        builder.time.register_step_size_modifier(self.mod)
        self.log=[]
        self.clock=builder.time.clock(); self.ss=builder.time.step_size()
        self.net=builder.time.simulant_next_event_times()
        self.mte=builder.time.move_simulants_to_end()
    def mod(self, index):
        return pd.Series({i: pd.Timedelta(days=self.steps[i]) for i in index if i in self.steps}, dtype='timedelta64[ns]').reindex(index)
    def on_time_step(self, event):
        self.log.append((str(self.clock().date()), self.ss().days, str(event.time.date()), list(event.index)))
        k=len(self.log)
        if k in self.to_end: self.mte(pd.Index(self.to_end[k]))

def run(pop, steps, days=12, to_end=None, cls=SimulationContext, stepper=None):
    SimulationContext._clear_context_cache()
    c = StepMod(steps); 
    cfg={'population':{'population_size':pop},'time':{'start':{'year':2020,'month':1,'day':1},'end':{'year':2020,'month':1,'day':1+days},'step_size':1}}
    sim = cls(components=[c], configuration=cfg, **({'setup':False} if cls is InteractiveContext else {}))
    c.to_end = to_end or {}
    sim.setup()
    if cls is SimulationContext: sim.initialize_simulants()
    if stepper: stepper(sim)
    else: sim.run()
    return c.log

print("pop=1, sim0 step 3:"); [print("  ",l) for l in run(1,{0:3})]
print("pop=2, both step 3:"); [print("  ",l) for l in run(2,{0:3,1:3})]
print("pop=3 steps 2,3,4; move sim0 to end at first event:"); [print("  ",l) for l in run(3,{0:2,1:3,2:4}, to_end={1:[0]})]
print("pop=3 steps 2,3,4; move sim1 to end at first event:"); [print("  ",l) for l in run(3,{0:2,1:3,2:4}, to_end={1:[1]})]
print("pop=2 steps 2,3 run():"); [print("  ",l) for l in run(2,{0:2,1:3})]
def stepper(sim):
    while sim.current_time < sim._clock.stop_time: sim.step()
print("pop=2 steps 2,3 InteractiveContext.step():"); [print("  ",l) for l in run(2,{0:2,1:3}, cls=InteractiveContext, stepper=stepper)]
