import vsrc, sys, hashlib, random, os
import pandas as pd, numpy as np
src=open('exp8.py').read().split("SimulationContext._clear_context_cache()")[0]
exec(src)
mode=sys.argv[1]; noise=int(sys.argv[2])
np.random.seed(noise); random.seed(noise)
from vivarium import InteractiveContext
for _ in range(noise%3): SimulationContext(components=[], configuration={'population':{'population_size':1}})
cfg={'population':{'population_size':30},'time':{'start':{'year':2020,'month':1,'day':1},'end':{'year':2020,'month':3,'day':1},'step_size':10},
     'randomness':{'key_columns':['entrance_time','age'],'map_size':10000,'random_seed':7}}
digs=[]
def dig(sim):
    p=sim.get_population(True) if mode!="interactive" else sim.get_population(untracked=True)
    p=p[sorted(p.columns)]
    digs.append(hashlib.sha1(p.to_csv().encode()).hexdigest()[:10]); np.random.random(noise); random.random()
if mode=="run":
    class Probe(Component):
        @property
        def name(self): return "probe"
        def setup(self,b): self.sim=None
        def on_collect_metrics(self,e): pass
    sim=SimulationContext(components=[Pop(),Mort(),Obs(),Disease()], configuration=cfg)
    sim.setup(); sim.initialize_simulants(); dig(sim)
    # emulate run() but digest at boundaries: use run_simulation-equivalent: run() in one go, digest only at end
    sim.run(); dig(sim); sim.finalize()
elif mode=="step":
    sim=SimulationContext(components=[Pop(),Mort(),Obs(),Disease()], configuration=cfg)
    sim.setup(); sim.initialize_simulants(); dig(sim)
    while sim.current_time < sim._clock.stop_time: sim.step(); dig(sim)
    sim.finalize()
else:
    sim=InteractiveContext(components=[Pop(),Mort(),Obs(),Disease()], configuration=cfg); dig(sim)
    sim.take_steps(2); dig(sim); sim.run_until(sim._clock.stop_time); dig(sim); sim.finalize()
r=sim.get_results()
rd=hashlib.sha1("".join(k+r[k].sort_values(list(r[k].columns)).to_csv(index=False) for k in sorted(r)).encode()).hexdigest()[:10]
print(mode, "hs", os.environ.get("PYTHONHASHSEED"), "noise", noise, "first", digs[0], "last", digs[-1], "n", len(digs), "results", rd)
