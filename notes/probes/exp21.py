import vsrc, random, warnings, math
import pandas as pd, numpy as np
from vivarium import Component
from vivarium.framework.engine import SimulationContext
from vivarium.framework.values import list_combiner, union_post_processor, rescale_post_processor
warnings.filterwarnings("ignore")
LOG=[]
class L(Component):
    def __init__(self, nm, prios): super().__init__(); self.nm=nm; self.p=prios
    @property
    def name(self): return self.nm
    @property
    def time_step_prepare_priority(self): return self.p[0]
    @property
    def time_step_priority(self): return self.p[1]
    @property
    def time_step_cleanup_priority(self): return self.p[2]
    @property
    def collect_metrics_priority(self): return self.p[3]
    def setup(self,b):
        self.clock=b.time.clock(); self.ss=b.time.step_size()
        for ch,pr in self.p[4]: b.event.register_listener(ch, (lambda e, ch=ch, pr=pr: LOG.append((ch,self.nm+"x",pr,self.clock(),e.time,e.step_size,len(e.index)))), pr)
    def _l(self,ch,pr,e): LOG.append((ch,self.nm,pr,self.clock(),e.time,e.step_size,len(e.index)))
    def on_time_step_prepare(self,e): self._l("time_step__prepare",self.p[0],e)
    def on_time_step(self,e): self._l("time_step",self.p[1],e)
    def on_time_step_cleanup(self,e): self._l("time_step__cleanup",self.p[2],e)
    def on_collect_metrics(self,e): self._l("collect_metrics",self.p[3],e)
    def on_simulation_end(self,e): self._l("simulation_end",5,e)
    def on_initialize_simulants(self,d): LOG.append(("init",self.nm,None,self.clock(),d.creation_time,d.creation_window,len(d.index)))
CH=["time_step__prepare","time_step","time_step__cleanup","collect_metrics"]
bad=0
for seed in range(40):
    rng=random.Random(seed); LOG.clear(); SimulationContext._clear_context_cache()
    comps=[L(f"c{i}",[rng.randint(0,9) for _ in range(4)]+[[(rng.choice(CH),rng.randint(0,9)) for _ in range(rng.randint(0,3))]]) for i in range(rng.randint(1,4))]
    simple=rng.random()<.4
    if simple:
        st,h=rng.randint(0,5),rng.randint(1,4); en=st+rng.randint(1,13)
        cfg={'time':{'start':st,'end':en,'step_size':h}}; plug={'required':{'clock':{'controller':'vivarium.framework.time.SimpleClock','builder_interface':'vivarium.framework.time.TimeInterface'}}}
        t0,t1,hh=st,en,h
    else:
        h=rng.choice([1,0.5,2.25,30.5,7]); days=rng.randint(1,40)
        cfg={'time':{'start':{'year':2020,'month':1,'day':1},'end':{'year':2020,'month':1+days//28,'day':1+days%28},'step_size':h}}; plug=None
        t0=pd.Timestamp(2020,1,1); t1=pd.Timestamp(2020,1+days//28,1+days%28); hh=pd.Timedelta(days=h)
    cfg['population']={'population_size':rng.randint(0,5)}
    sim=SimulationContext(components=comps, configuration=cfg, plugin_configuration=plug)
    sim.run_simulation()
    nsteps=math.ceil((t1-t0)/hh)
    inits=[l for l in LOG if l[0]=="init"]; ev=[l for l in LOG if l[0] in CH]; end=[l for l in LOG if l[0]=="simulation_end"]
    ok = all(l[3]==t0-hh and l[4]==t0-hh and l[5]==hh for l in inits)
    # expected log
    exp=[]
    for k in range(nsteps):
        for ch in CH:
            regs=[]
            for c in comps:   # registration order: setup() explicit listeners first, then hook listeners
                for (c2,pr) in c.p[4]:
                    if c2==ch: regs.append((pr,c.nm+"x"))
                regs.append((c.p[CH.index(ch)], c.nm))
            for pr,nm in sorted(regs, key=lambda x:x[0]):   # stable
                exp.append((ch,nm,pr,t0+k*hh,t0+(k+1)*hh,hh))
    got=[l[:6] for l in ev]
    if got!=exp or not ok or len(end)!=len(comps) or sim.current_time!=t0+nsteps*hh:
        bad+=1; print("BAD", seed, simple, len(got), len(exp), ok, len(end), sim.current_time, t0+nsteps*hh)
        for a,b in zip(got,exp):
            if a!=b: print("   first diff", a, b); break
print("bad", bad)
