import vsrc, random, warnings, math
import pandas as pd, numpy as np
from vivarium.framework.randomness.index_map import IndexMap
from vivarium.framework.randomness.exceptions import RandomnessError
warnings.filterwarnings("ignore")
# ---- reference model (mirrors the planned Lean model) ----
def drop_dup(m):                       # list of (key,pos): keep first per pos
    seen=set(); out=[]
    for k,p in m:
        if p not in seen: seen.add(p); out.append((k,p))
    return out
def model_update(old, batch, h, t, fuel=10000):
    # old: list of (sim,key,pos) sorted by sim ; batch: list of (sim,key)
    keys=[k for _,k,_ in old]+[k for _,k in batch]
    if len(set(keys))!=len(keys): return "err"
    cur=drop_dup([(k,p) for _,k,p in old]+[(k,h(k,t)) for _,k in batch])
    have={k for k,_ in cur}
    coll=sorted({k for _,k in batch if k not in have})
    salt=1
    while coll:
        fuel-=1
        if fuel==0: return "hang"
        upd=[(k,h(k,salt)) for k in coll]
        cur=drop_dup(cur+upd); have={k for k,_ in cur}
        coll=sorted({k for k,_ in upd if k not in have}); salt+=1
    pos=dict(cur)
    final=[(s,k,pos[k]) for s,k,_ in old]+[(s,k,pos[k]) for s,k in batch]
    return sorted(final, key=lambda x:x[0])
bad=0; n=0; coll_cases=0; errs=0
for seed in range(300):
    rng=random.Random(seed)
    ncols=rng.randint(1,3)
    size=rng.choice([s for s in range(8,120) if math.gcd(s, ncols*111111)==1])
    kinds=[rng.choice(["int","float","time"]) for _ in range(ncols)]
    cols=[f"k{i}" for i in range(ncols)]
    im=IndexMap(cols, size=size)
    def mkval(kind):
        if kind=="int": return rng.randint(0,30)
        if kind=="float": return rng.randint(0,400)/8
        return pd.Timestamp("2020-01-01")+pd.Timedelta(hours=rng.randint(0,500))
    def h(key, salt):
        idx = pd.MultiIndex.from_tuples([key], names=cols) if ncols>1 else pd.Index([key[0]], name=cols[0])
        # dtype care: build via frame to get right dtypes
        df=pd.DataFrame([key], columns=cols)
        for c,kd in zip(cols,kinds):
            df[c]=df[c].astype({"int":"int64","float":"float64","time":"datetime64[ns]"}[kd])
        idx=df.set_index(cols).index
        return int(im._hash(idx, salt=salt).iloc[0])
    old=[]; nextsim=0; t=pd.Timestamp("2020-01-01")
    for b in range(rng.randint(1,4)):
        k=rng.randint(1,max(1,size//4))
        batchkeys=[tuple(mkval(kd) for kd in kinds) for _ in range(k)]
        if rng.random()<0.85:   # mostly unique
            seen={kk for _,kk,_ in old}; bk=[]
            for kk in batchkeys:
                if kk not in seen: seen.add(kk); bk.append(kk)
            batchkeys=bk
        if not batchkeys: continue
        sims=list(range(nextsim, nextsim+len(batchkeys))); rng.shuffle(sims); nextsim+=len(batchkeys)
        df=pd.DataFrame(batchkeys, columns=cols, index=sims)
        for c,kd in zip(cols,kinds): df[c]=df[c].astype({"int":"int64","float":"float64","time":"datetime64[ns]"}[kd])
        exp=model_update(old, list(zip(sims,batchkeys)), h, t)
        try:
            im.update(df, t); got=[(ix[0], tuple(ix[1:]), int(v)) for ix,v in zip(im._map.index.tolist(), im._map.tolist())]
        except RandomnessError: got="err"
        n+=1
        if exp=="err": errs+=1
        if got!=exp:
            bad+=1; print("MISMATCH seed",seed,"batch",b,"ncols",ncols,"size",size); print("  got",got if got=="err" else got[:6]); print("  exp",exp if exp=="err" else exp[:6]); break
        if exp!="err":
            first=[h(kk,t) for kk in batchkeys]
            if len(set(first)|{p for _,_,p in old})<len(first)+len(old): coll_cases+=1
            old=exp
        t+=pd.Timedelta(days=1)
print("updates",n,"with collisions",coll_cases,"dup-rejected",errs,"bad",bad)
