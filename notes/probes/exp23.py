import vsrc, random, warnings
import pandas as pd, numpy as np
from vivarium import Component
from vivarium.framework.engine import SimulationContext
warnings.filterwarnings("ignore")
DAY=1
class Drv(Component):
    def __init__(self, rng, nmods, births): super().__init__(); self.rng=rng; self.nmods=nmods; self.births=births; self.script={}; self.log=[]; self.snooze_req={}
    @property
    def name(self): return "drv"
    def setup(self,b):
        for m in range(self.nmods): b.time.register_step_size_modifier(lambda idx, m=m: self.mod(m, idx))
        self.clock=b.time.clock(); self.ss=b.time.step_size(); self.net=b.time.simulant_next_event_times(); self.sss=b.time.simulant_step_sizes()
        self.mte=b.time.move_simulants_to_end(); self.creator=b.population.get_simulant_creator()
    def mod(self, m, idx):
        # value depends on (modifier, simulant, current clock day) -> deterministic script, NaT = no opinion
        now=self.clock()
        vals=[]
        for i in idx:
            v=self.script.setdefault((m,i,now), self.rng.choice([None,None,1,2,3,5,7,2.5,0.4]))
            vals.append(pd.NaT if v is None else pd.Timedelta(days=v))
        return pd.Series(vals, index=idx, dtype="timedelta64[ns]")
    def on_time_step(self,e):
        self.log.append(("ev", self.clock(), self.ss(), e.time, sorted(e.index)))
        k=len([l for l in self.log if l[0]=="ev"])
        if k in self.snooze_req: self.mte(pd.Index(self.snooze_req[k], dtype="int64")); self.log.append(("snooze", self.snooze_req[k]))
        if k in self.births: new=self.creator(self.births[k]); self.log.append(("birth", sorted(new)))
def model(N, drv, start, stop, mn, std):
    # mirrors Lean Clock model; times in days (floats ok: exact halves)
    import math
    def post(i, now):
        vs=[drv.script.get((m,i,now)) for m in range(drv.nmods)]
        vs=[v for v in vs if v is not None]
        m_=min(vs) if vs else std
        q=math.floor(m_/mn); return (1 if q<=0 else q)*mn
    now=start-mn; step=mn           # step_backward with initial global step = minimum (DateTimeClock)
    sims={i:[now+step, step] for i in range(N)}   # next_event_time = event_time, step_size = step
    snooze=set(); out=[]
    def step_forward():
        nonlocal now, step, snooze
        now=now+step
        for i,(nx,st) in list(sims.items()):
            if nx<=now or i in snooze:
                s=(stop+mn-now) if i in snooze else post(i, now)
                sims[i]=[now+s, s]
        snooze=set()
        if sims: step=min(nx for nx,_ in sims.values())-now
    step_forward()
    k=0
    while now<stop:
        ev=now+step; act=sorted(i for i,(nx,_) in sims.items() if nx<=ev)
        out.append(("ev", now, step, ev, act)); k+=1
        if k in drv.snooze_req: snooze|=set(drv.snooze_req[k]); out.append(("snooze", drv.snooze_req[k]))
        if k in drv.births:
            n0=len(sims); new=list(range(n0,n0+drv.births[k]))
            for i in new: sims[i]=[now+step, step]
            out.append(("birth", new))
        step_forward()
    return out
bad=0; tot=0
for seed in range(120):
    rng=random.Random(seed); N=rng.randint(1,6); nm=rng.randint(1,3)
    births={rng.randint(1,6): rng.randint(0,2) for _ in range(rng.randint(0,2))}
    SimulationContext._clear_context_cache()
    d=Drv(rng,nm,births); days=rng.randint(4,14); mn=rng.choice([1,0.5,2]); std=rng.choice([None,mn,2*mn,3*mn])
    d.snooze_req={rng.randint(1,6): sorted(rng.sample(range(N), rng.randint(1,N))) for _ in range(rng.randint(0,2))}
    cfg={'population':{'population_size':N},'time':{'start':{'year':2020,'month':1,'day':1},'end':{'year':2020,'month':1,'day':1+days},'step_size':mn,'standard_step_size':std}}
    sim=SimulationContext(components=[d], configuration=cfg)
    try:
        sim.setup(); sim.initialize_simulants(); sim.run(); err=None
    except Exception as e: err=e
    t0=pd.Timestamp(2020,1,1)
    conv=lambda x: (x-t0)/pd.Timedelta(days=1) if isinstance(x,pd.Timestamp) else x/pd.Timedelta(days=1)
    got=[(l[0],conv(l[1]),conv(l[2]),conv(l[3]),l[4]) if l[0]=="ev" else l for l in d.log]
    # model must replay the same script: script was filled lazily with keys (m,i,Timestamp) -> convert
    d.script={(m,i,conv(t)):v for (m,i,t),v in d.script.items()}
    exp=model(N,d,0.0,float(days),mn,std if std else mn)
    tot+=1
    if err or got!=exp:
        bad+=1; print("MISMATCH seed",seed,"N",N,"mn",mn,"std",std,"err",type(err).__name__ if err else None, str(err)[:80] if err else "")
        for a,b in zip(got,exp):
            if a!=b: print("   got",a); print("   exp",b); break
        if bad>4: break
print("schedules",tot,"bad",bad)
