import vsrc, random, warnings, itertools
import pandas as pd, numpy as np
from vivarium import Component
from vivarium.framework.engine import SimulationContext
warnings.filterwarnings("ignore")
PH=["time_step__prepare","time_step","time_step__cleanup","collect_metrics"]
SNAP={}
class Pop(Component):
    def __init__(self, rng): super().__init__(); self.rng=rng
    @property
    def name(self): return "pop"
    @property
    def columns_created(self): return ["g","h","x","y"]
    def setup(self,b): self.creator=b.population.get_simulant_creator(); self.tv=b.population.get_view(["tracked"]); self.val=b.value.register_value_producer("pv", source=lambda idx: pd.Series([float(i%4) for i in idx], index=idx))
    def on_initialize_simulants(self,d):
        r=self.rng
        self.population_view.update(pd.DataFrame({"g":pd.Series([r.choice("abc") for _ in d.index],index=d.index,dtype="str"),"h":pd.Series([r.choice("uv") for _ in d.index],index=d.index,dtype="str"),
            "x":pd.Series([float(r.randint(0,39))/4 for _ in d.index],index=d.index),"y":pd.Series([r.randint(0,5) for _ in d.index],index=d.index,dtype="int64")}, index=d.index))
    def on_time_step(self,e):
        r=self.rng
        self.creator(r.randint(0,2))
        pop=self.population_view.get(e.index)
        if len(pop):
            self.population_view.update(pd.Series([float(r.randint(0,39))/4 for _ in pop.index], index=pop.index, name="x"))
            if r.random()<.5: self.tv.update(pd.Series(False, index=pop.index[:1], name="tracked"))
class Snap(Component):
    @property
    def name(self): return "snap"
    @property
    def columns_required(self): return []
    @property
    def time_step_prepare_priority(self): return 0
    @property
    def time_step_priority(self): return 0
    @property
    def time_step_cleanup_priority(self): return 0
    @property
    def collect_metrics_priority(self): return 0
    def setup(self,b): self.pv=b.value.get_value("pv"); self.clock=b.time.clock()
    def _s(self,ph,e):
        p=self.population_view.get(e.index); p["pv"]=self.pv(e.index); SNAP.setdefault(ph,[]).append((e.time, p))
    def on_time_step_prepare(self,e): self._s(PH[0],e)
    def on_time_step(self,e): self._s(PH[1],e)
    def on_time_step_cleanup(self,e): self._s(PH[2],e)
    def on_collect_metrics(self,e): self._s(PH[3],e)
STRATS={ # name: (categories, mapper on row dict, register fn)
 "g": (["a","b","c"], lambda r: r["g"]),
 "h2": (["U","V"], lambda r: r["h"].upper()),
 "xb": (["lo","mid","hi"], lambda r: "lo" if r["x"]<3 else ("mid" if r["x"]<6 else "hi")),
 "pvs": (["p0","p1","p2","p3"], lambda r: "p%d"%int(r["pv"])),
}
class Obs(Component):
    def __init__(self, spec): super().__init__(); self.spec=spec
    @property
    def name(self): return "obs"
    def setup(self,b):
        sp=self.spec
        for s in sp["strats"]:
            ex=sp["excl_code"].get(s)
            if s=="g": b.results.register_stratification("g", list(STRATS["g"][0]), excluded_categories=ex, requires_columns=["g"])
            elif s=="h2": b.results.register_stratification("h2", list(STRATS["h2"][0]), excluded_categories=ex, mapper=lambda row: row["h"].upper(), is_vectorized=False, requires_columns=["h"])
            elif s=="xb": b.results.register_binned_stratification("x","xb",[0,3,6,10],["lo","mid","hi"], excluded_categories=ex)
            elif s=="pvs": b.results.register_stratification("pvs", list(STRATS["pvs"][0]), excluded_categories=ex, mapper=lambda df: df["pv"].map(lambda v:"p%d"%int(v)), is_vectorized=True, requires_values=["pv"])
        for o in sp["obs"]:
            kw=dict(name=o["name"], pop_filter=o["filter"], when=o["when"], requires_columns=["x","y","g"], additional_stratifications=o["add"], excluded_stratifications=o["exc"], to_observe=(lambda e, m=o["mod"]: e.time.day%m==0))
            if o["agg"]=="sumy": kw.update(aggregator_sources=["y"], aggregator=lambda df: df["y"].sum())
            b.results.register_adding_observation(**kw)
def model(spec, default, excl_cfg):
    out={}
    for o in spec["obs"]:
        names=tuple(sorted((set(default)|set(o["add"]))-set(o["exc"])))
        cats={s:[c for c in STRATS[s][0] if c not in (spec["excl_code"].get(s) if spec["excl_code"].get(s) is not None else excl_cfg.get(s,[]))] for s in names}
        res={k:0.0 for k in itertools.product(*[cats[s] for s in names])} if names else {("all",):0.0}
        for t,p in SNAP.get(o["when"],[]):
            if t.day%o["mod"]!=0: continue
            if p.empty: continue
            q=p.query(o["filter"]) if o["filter"] else p
            for _,r in q.iterrows():
                key=tuple(STRATS[s][1](r) for s in names) if names else ("all",)
                if key not in res: continue   # excluded category
                res[key]+= (r["y"] if o["agg"]=="sumy" else 1)
        out[o["name"]]=(names,res)
    return out
bad=0; tot=0; nontriv=0
for seed in range(200):
    rng=random.Random(seed); SNAP.clear(); SimulationContext._clear_context_cache()
    strats=rng.sample(list(STRATS), rng.randint(0,4))
    excl_code={s:(rng.sample(STRATS[s][0],1) if rng.random()<.3 else None) for s in strats}
    default=[s for s in strats if rng.random()<.4]
    excl_cfg={s:rng.sample(STRATS[s][0],1) for s in strats if rng.random()<.3}
    obs=[]
    for i in range(rng.randint(1,4)):
        add=[s for s in strats if rng.random()<.5]; exc=[s for s in default if rng.random()<.3]
        obs.append(dict(name=f"o{i}", filter=rng.choice(["tracked==True","","tracked==True and y > 2","x < 5"]), when=rng.choice(PH), add=add, exc=exc, agg=rng.choice(["count","sumy"]), mod=rng.choice([1,1,2])))
    spec=dict(strats=strats, excl_code=excl_code, obs=obs)
    cfg={'population':{'population_size':rng.randint(0,12)},'time':{'start':{'year':2020,'month':1,'day':1},'end':{'year':2020,'month':1,'day':rng.randint(2,6)},'step_size':1},
         'stratification':{'default':default,'excluded_categories':excl_cfg}}
    try:
        sim=SimulationContext(components=[Pop(rng),Obs(spec),Snap()], configuration=cfg); sim.run_simulation(); res=sim.get_results()
    except Exception as e:
        print("CRASH", seed, type(e).__name__, str(e)[:150]); bad+=1; continue
    exp=model(spec, default, excl_cfg)
    for o in obs:
        tot+=1
        names,er=exp[o["name"]]; df=res[o["name"]]
        cols=list(names) if names else ["stratification"]
        got={tuple(r[c] for c in cols): r["value"] for _,r in df.iterrows()}
        if got!=er: bad+=1; print("MISMATCH", seed, o, "\n  got", got, "\n  exp", er)
        if sum(er.values())>0: nontriv+=1
print("observations", tot, "nontrivial", nontriv, "bad", bad)
