import vsrc, warnings
import pandas as pd
from vivarium import Component
from vivarium.framework.engine import SimulationContext
warnings.filterwarnings("ignore")
class Pop(Component):
    @property
    def name(self): return "pop"
    @property
    def columns_created(self): return ["x"]
    def on_initialize_simulants(self,d): self.population_view.update(pd.Series(1.5, index=d.index, name="x"))
class Obs(Component):
    @property
    def name(self): return "obs"
    def setup(self,b):
        b.results.register_binned_stratification("x","xb",[0,3,6],["lo","hi"])
        b.results.register_adding_observation("n", additional_stratifications=["xb"], requires_columns=["x"])
for n in (1,2):
    SimulationContext._clear_context_cache()
    sim=SimulationContext(components=[Pop(),Obs()], configuration={'population':{'population_size':n},'time':{'start':{'year':2020,'month':1,'day':1},'end':{'year':2020,'month':1,'day':3},'step_size':1}})
    try: sim.run_simulation(); print("pop",n,"->",sim.get_results()["n"].to_dict("records"))
    except Exception as e: print("pop",n,"-> CRASH", type(e).__name__, e)
