import vsrc
import pandas as pd, numpy as np
from vivarium.framework.randomness.index_map import IndexMap
from vivarium.framework.randomness.stream import RandomnessStream
st=RandomnessStream("dp", lambda: pd.Timestamp("2020-01-01"), "1", IndexMap(size=100))
idx=pd.Index(range(10))
print("index  p=0 :", list(st.filter_for_probability(idx, 0.0)))
print("frame(no cols) p=0 :", list(st.filter_for_probability(pd.DataFrame(index=idx), 0.0).index))
print("frame(1 col) p=0 :", list(st.filter_for_probability(pd.DataFrame({'a':1}, index=idx), 0.0).index))
print("series p=0.5:", list(st.filter_for_probability(pd.Series(1,index=idx), 0.5).index), "index p=.5", list(st.filter_for_probability(idx, 0.5)))
