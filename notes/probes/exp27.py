import vsrc, warnings
import pandas as pd, numpy as np
from vivarium import Component
from vivarium.framework.engine import SimulationContext
from vivarium.framework.lifecycle import ConstraintError
warnings.filterwarnings("ignore")
OUT={}
class Helper(Component):
    @property
    def name(self): return "helper"
    def on_initialize_simulants(self,d): pass
class Probe(Component):
    @property
    def name(self): return "probe"
    @property
    def columns_created(self): return ["a","k"]
    def setup(self,b):
        self.b=b; self.n=0
        self.view=b.population.get_view(["a"]); self.stream=b.randomness.get_stream("s"); self.crn=b.randomness.get_stream("c", initializes_crn_attributes=True)
        self.pipe=b.value.register_value_producer("v", source=lambda idx: pd.Series(1.0,index=idx))
        self.table=b.lookup.build_table(3.0)
        self.creator=b.population.get_simulant_creator()
        self.state=b.lifecycle.current_state()
        b.event.register_listener("report", self.on_report)
        self.matrix("setup")
    def svc(self):
        b=self.b; idx=pd.Index([0]); self.n+=1; n=self.n
        return {
         "register_listener": lambda: b.event.register_listener("time_step", lambda e: None),
         "register_value_producer": lambda: b.value.register_value_producer(f"v{n}", source=lambda i: 1),
         "register_value_modifier": lambda: b.value.register_value_modifier("v", lambda i,v: v),
         "initializes_simulants": lambda: b.population.initializes_simulants(Helper().on_initialize_simulants) if n==1 else b.population.initializes_simulants(type(f"H{n}",(Helper,),{"name":property(lambda s: f"h{n}")})().on_initialize_simulants),
         "get_simulant_creator": lambda: b.population.get_simulant_creator(),
         "get_stream": lambda: b.randomness.get_stream(f"s{n}"),
         "build_table": lambda: b.lookup.build_table(1.0),
         "view.get": lambda: self.view.get(idx),
         "view.update": lambda: self.view.update(pd.Series(1, index=idx, name="a")),
         "pipeline": lambda: self.pipe(idx),
         "get_draw": lambda: self.stream.get_draw(idx),
         "filter_for_probability": lambda: self.stream.filter_for_probability(idx, 0.5),
         "filter_for_rate": lambda: self.stream.filter_for_rate(idx, 0.5),
         "choice": lambda: self.stream.choice(idx, [1,2]),
         "table": lambda: self.table(idx),
         "register_simulants": lambda: b.randomness.register_simulants(pd.DataFrame({"k":[float(1000+n)]}, index=[1000+n])),
        }
    def matrix(self, st):
        assert self.state()==st, (self.state(), st)
        for name,f in self.svc().items():
            try: f(); r="ok"
            except ConstraintError: r="REFUSED"
            except Exception as e: r="ok("+type(e).__name__+")"
            OUT[(name,st)]=r
    def on_post_setup(self,e): self.matrix("post_setup")
    def on_initialize_simulants(self,d):
        self.view_all=None
        self.population_view.update(pd.DataFrame({"a":1,"k":[float(i) for i in d.index]}, index=d.index))
        if self.state()=="population_creation": self.matrix("population_creation")
    def on_time_step_prepare(self,e): self.matrix("time_step__prepare")
    def on_time_step(self,e): self.matrix("time_step")
    def on_time_step_cleanup(self,e): self.matrix("time_step__cleanup")
    def on_collect_metrics(self,e): self.matrix("collect_metrics")
    def on_simulation_end(self,e): self.matrix("simulation_end")
    def on_report(self,e): self.matrix("report")
SimulationContext._clear_context_cache()
sim=SimulationContext(components=[Probe()], configuration={'population':{'population_size':2},'randomness':{'key_columns':['k']},'time':{'start':{'year':2020,'month':1,'day':1},'end':{'year':2020,'month':1,'day':2},'step_size':1}})
sim.run_simulation()
states=["setup","post_setup","population_creation","time_step__prepare","time_step","time_step__cleanup","collect_metrics","simulation_end","report"]
reg={"register_listener","register_value_producer","register_value_modifier","initializes_simulants","get_simulant_creator","get_stream","build_table"}
wr={"view.update","register_simulants"}
bad=0
for (name,st),r in OUT.items():
    if name in reg: exp = st=="setup"
    elif name in wr: exp = st not in ("setup","post_setup","simulation_end","report")
    else: exp = st not in ("setup","post_setup")
    if (r!="REFUSED")!=exp: bad+=1; print("DEVIATION", name, st, r, "expected", "admitted" if exp else "refused")
print("cells", len(OUT), "deviations", bad)
for name in sorted({k[0] for k in OUT}): print(f"{name:26s}", " ".join(("." if OUT[(name,s)]=="REFUSED" else ("o" if OUT[(name,s)]=="ok" else "e")) for s in states))
