import vsrc, random, warnings
from fractions import Fraction
import pandas as pd, numpy as np
from vivarium import Component
from vivarium.framework.engine import SimulationContext
from vivarium.framework.values import list_combiner, replace_combiner, union_post_processor, rescale_post_processor, DynamicValueError
warnings.filterwarnings("ignore")
TRACE=[]
class C(Component):
    def __init__(self, nm, acts): super().__init__(); self.nm=nm; self.acts=acts
    @property
    def name(self): return self.nm
    def setup(self,b):
        for a in self.acts:
            if a[0]=="src":
                _,pn,comb,post=a
                src=(lambda idx, pn=pn, comb=comb: (TRACE.append((pn,"src")), [pd.Series(0.25,index=idx)] if comb=="list" else pd.Series(0.25,index=idx))[1])
                b.value.register_value_producer(pn, source=src, preferred_combiner=list_combiner if comb=="list" else replace_combiner,
                    preferred_post_processor={"none":None,"union":union_post_processor,"rescale":rescale_post_processor,"mark":(lambda v,m,pn=pn:(TRACE.append((pn,"post")),v)[1])}[post])
            else:
                _,pn,k,comb=a
                if comb=="list": f=(lambda idx, pn=pn,k=k: (TRACE.append((pn,"m%d"%k)), pd.Series(Fraction(k%4,8).__float__(),index=idx))[1])
                else: f=(lambda idx, v, pn=pn,k=k: (TRACE.append((pn,"m%d"%k)), v*2+k if k%2 else v*v)[1])
                b.value.register_value_modifier(pn, f)
        self.get=b.value.get_value
bad=0; tot=0
for seed in range(150):
    rng=random.Random(seed); SimulationContext._clear_context_cache(); TRACE.clear()
    pipes={}
    for i in range(rng.randint(1,3)):
        comb=rng.choice(["replace","list"]); post=rng.choice(["none","mark","union"] if comb=="list" else ["none","mark","rescale"])
        pipes[f"p{i}"]=dict(comb=comb,post=post,nm=rng.randint(0,4),src=rng.random()<.85)
    acts=[]
    for pn,p in pipes.items():
        if p["src"]: acts.append(("src",pn,p["comb"],p["post"]))
        for k in range(p["nm"]): acts.append(("mod",pn,k+1,p["comb"]))
    # keep per-pipeline modifier order = registration order; shuffle across components while preserving relative order of mods of same pipe
    order=list(range(len(acts))); rng.shuffle(order)
    # stable reorder: mods of the same pipe must keep k order -> sort positions per pipe
    seq=[acts[i] for i in order]
    fixed=[]; counters={}
    for a in seq:
        if a[0]=="mod":
            c=counters.get(a[1],0)+1; counters[a[1]]=c; fixed.append(("mod",a[1],c,a[3]))
        else: fixed.append(a)
    ncomp=rng.randint(1,3); comps=[C(f"c{j}",[]) for j in range(ncomp)]
    for a in fixed: rng.choice(comps).acts.append(a)
    # registration order is component order then act order -> recompute k numbering in that real order
    real=[]; counters={}
    for c in comps:
        na=[]
        for a in c.acts:
            if a[0]=="mod": k=counters.get(a[1],0)+1; counters[a[1]]=k; na.append(("mod",a[1],k,a[3]))
            else: na.append(a)
        c.acts=na
    cfg={'population':{'population_size':4},'time':{'start':{'year':2020,'month':1,'day':1},'end':{'year':2021,'month':1,'day':1},'step_size':365/8}}
    try:
        sim=SimulationContext(components=comps, configuration=cfg, logging_verbosity=0); sim.setup(); sim.initialize_simulants()
    except Exception as e: print("SETUP", seed, type(e).__name__, e); bad+=1; continue
    idx=pd.Index([2,0,3])
    for pn,p in pipes.items():
        tot+=1; TRACE.clear(); skip=rng.random()<.3
        try: got=comps[0].get(pn)(idx, skip_post_processor=skip); err=None
        except DynamicValueError as e: got=None; err="nosrc"
        if not p["src"]:
            if err!="nosrc": print("NOSRC accepted", seed, pn); bad+=1
            continue
        if err: print("ERR", seed, pn); bad+=1; continue
        exptrace=[(pn,"src")]+[(pn,"m%d"%k) for k in range(1,p["nm"]+1)]+([(pn,"post")] if p["post"]=="mark" and not skip else [])
        if TRACE!=exptrace: print("TRACE", seed, pn, TRACE, exptrace); bad+=1
        if p["comb"]=="replace":
            v=Fraction(1,4)
            for k in range(1,p["nm"]+1): v = v*2+k if k%2 else v*v
            if p["post"]=="rescale" and not skip: v=v*Fraction(1,8)
            ok = list(got.index)==list(idx) and all(Fraction(x)==v for x in got.values)
        else:
            vals=[Fraction(1,4)]+[Fraction(k%4,8) for k in range(1,p["nm"]+1)]
            if p["post"]=="union" and not skip:
                if len(vals)==1: e_=vals[0]
                else:
                    pr=Fraction(1)
                    for x in vals: pr*= (1-x)
                    e_=1-pr
                ok = all(Fraction(x)==e_ for x in got.values)
            else:
                ok = isinstance(got,list) and len(got)==len(vals) and all(all(Fraction(x)==vv for x in s.values) for s,vv in zip(got,vals))
        if not ok: print("VALUE", seed, pn, p, skip, got); bad+=1
print("pipelines", tot, "bad", bad)
