import vsrc, random, warnings
import pandas as pd, numpy as np
from vivarium import Component
from vivarium.framework.engine import SimulationContext
warnings.filterwarnings("ignore")
LOG=[]
class P(Component):
    @property
    def name(self): return "p"
    def setup(self,b): self.st=b.lifecycle.current_state(); b.event.register_listener("report", lambda e: LOG.append("report")); LOG.append("setup")
    def on_post_setup(self,e): LOG.append("post_setup")
    def on_initialize_simulants(self,d): LOG.append("init")
    def on_time_step_prepare(self,e): LOG.append("time_step__prepare")
    def on_time_step(self,e): LOG.append("time_step")
    def on_time_step_cleanup(self,e): LOG.append("time_step__cleanup")
    def on_collect_metrics(self,e): LOG.append("collect_metrics")
    def on_simulation_end(self,e): LOG.append("simulation_end")
# model: resting state -> (method -> (ok?, new state, emitted))
STEP=["time_step__prepare","time_step","time_step__cleanup","collect_metrics"]
def model(state, m, steps_left):
    if m=="setup": return (state=="initialization", "post_setup", ["setup","post_setup"])
    if m=="initialize_simulants": return (state=="post_setup", "population_creation", ["init"])
    if m=="step": return (state in ("population_creation","collect_metrics"), "collect_metrics", STEP)
    if m=="finalize": return (state=="collect_metrics", "simulation_end", ["simulation_end"])
    if m=="report": return (state=="simulation_end", "report", ["report"])
    if m=="run":
        if state in ("population_creation","collect_metrics"): return (True, "collect_metrics" if steps_left>0 else state, STEP*steps_left)
        return (steps_left==0 and state not in ("initialization",), state, [])   # run() with nothing to do is a no-op after the clock exists
bad=0; tot=0
for seed in range(200):
    rng=random.Random(seed); LOG.clear(); SimulationContext._clear_context_cache()
    nsteps=rng.randint(1,4)
    sim=SimulationContext(components=[P()], configuration={'population':{'population_size':2},'time':{'start':{'year':2020,'month':1,'day':1},'end':{'year':2020,'month':1,'day':1+nsteps},'step_size':1}}, logging_verbosity=0)
    state="initialization"; done=0
    legal=["setup","initialize_simulants"]+["step"]*nsteps+["finalize","report"]
    calls=[]
    i=0
    while i<len(legal):
        if rng.random()<.45: calls.append(rng.choice(["setup","initialize_simulants","step","run","finalize","report","set:"+rng.choice(["setup","time_step","report","collect_metrics","nonexistent"])]))
        else: calls.append(legal[i]); i+=1
    for m in calls:
        tot+=1; before=len(LOG)
        if m.startswith("set:"):
            tgt=m[4:]
            try: sim._lifecycle.set_state(tgt); ok=True
            except Exception: ok=False
            # direct state change: only accept if legal; if accepted we must track it, so restrict to illegal/no-op expectations
            cur=sim._lifecycle.current_state
            if ok:
                state=cur  # legal direct transition (rare); keep model in sync
            elif cur!=state or len(LOG)!=before: print("SET changed", seed, m, cur, state); bad+=1
            continue
        exp_ok,new,emit=model(state,m,nsteps-done)
        try: getattr(sim,m)(); ok=True
        except Exception as e: ok=False
        cur=sim._lifecycle.current_state
        if state in STEP[:3] or state in ("setup",):   # model only covers resting states; skip if a direct set moved us mid-phase
            state=cur; continue
        if ok!=exp_ok: print("OUTCOME", seed, m, "from", state, "ok", ok, "exp", exp_ok); bad+=1; state=cur; continue
        if ok:
            if cur!=new or LOG[before:]!=emit: print("EFFECT", seed, m, state, cur, new, LOG[before:], emit); bad+=1
            if m=="step": done+=1
            if m=="run": done=nsteps
            state=cur
        else:
            if cur!=state or len(LOG)!=before: print("REFUSED BUT CHANGED", seed, m, state, cur, LOG[before:]); bad+=1; state=cur
print("calls", tot, "bad", bad)
