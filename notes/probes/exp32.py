import vsrc, sys, hashlib, dill, os
import pandas as pd, numpy as np
from richcomps import *
cfg={'population':{'population_size':30},'time':{'start':{'year':2020,'month':1,'day':1},'end':{'year':2020,'month':3,'day':1},'step_size':10},
     'randomness':{'key_columns':['entrance_time','age'],'map_size':10000,'random_seed':7}}
def dig(sim):
    p=sim.get_population(); p=p[sorted(p.columns)]; return hashlib.sha1(p.to_csv().encode()).hexdigest()[:10]
def finish(sim):
    ds=[]
    while sim.current_time < sim._clock.stop_time: sim.step(); ds.append(dig(sim))
    sim.finalize(); r=sim.get_results()
    return ds, hashlib.sha1("".join(k+r[k].to_csv(index=False) for k in sorted(r)).encode()).hexdigest()[:10]
mode=sys.argv[1]
if mode=="full":
    sim=SimulationContext(components=[Pop(),Mort(),Obs(),Disease()], configuration=cfg, logging_verbosity=0); sim.setup(); sim.initialize_simulants()
    print("FULL", *finish(sim))
elif mode=="save":
    n=int(sys.argv[2]); sim=SimulationContext(components=[Pop(),Mort(),Obs(),Disease()], configuration=cfg, logging_verbosity=0); sim.setup(); sim.initialize_simulants()
    for _ in range(n): sim.step()
    sim.write_backup(f"/tmp/scratch/bk{n}.pkl"); print("SAVED", n)
else:
    n=int(sys.argv[2])
    with open(f"/tmp/scratch/bk{n}.pkl","rb") as f: sim=dill.load(f)
    print("RESUMED", n, *finish(sim))
