import vsrc
exec(open('exp15.py').read().split("def mk():")[0])
comps=lambda: [Init("A",["a"],rv=["v"]), Pipe("P","v",mods=[(["z"],)]), Init("Z",["z"],rc=["y"]), Init("Y",["y"],rc=["x"]), Init("X",["x"],rc=["w"]), Init("W",["w"])]
o=run(comps()); print("order", o, "A after Z:", o.index("Z")<o.index("A"))
