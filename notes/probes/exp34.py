import vsrc, warnings
import pandas as pd, numpy as np
from vivarium import Component
from vivarium.framework.engine import SimulationContext
warnings.filterwarnings("ignore")
def attempt(label, f):
    try: r=f(); print(f"{label:55s} -> ok", "" if r is None else r)
    except Exception as e: print(f"{label:55s} -> {type(e).__name__}: {str(e)[:70]}")
class A(Component):
    def __init__(self, nm, cols, vals, extra=None): super().__init__(); self.nm=nm; self.cols=cols; self.vals=vals; self.extra=extra
    @property
    def name(self): return self.nm
    @property
    def columns_created(self): return self.cols
    def setup(self,b): self.creator=b.population.get_simulant_creator(); self.full=b.population.get_view(self.cols+(self.extra or []))
    def on_initialize_simulants(self,d):
        self.full.update(pd.DataFrame({c:self.vals[c] for c in self.cols+(self.extra or [])}, index=d.index))
def sim(comps,n=3, **cfg):
    SimulationContext._clear_context_cache()
    s=SimulationContext(components=comps, configuration={'population':{'population_size':n}, **cfg}, logging_verbosity=0); s.setup(); s.initialize_simulants(); return s
print("--- C13 initial-value conflicts")
attempt("two components same column same values (sloppy dup)", lambda: sim([A("a",["x"],{"x":1,"y":2}), A("b",["y"],{"y":2,"x":1},extra=["x"])]).get_population().to_dict("list"))
attempt("two components conflicting initial values", lambda: sim([A("a",["x"],{"x":1}), A("b",["y"],{"y":2,"x":9},extra=["x"])]).get_population().to_dict("list"))
s=sim([A("a",["x"],{"x":1})]); s._lifecycle.set_state("time_step__prepare")
comp=s._component_manager.get_component("a")
attempt("birth: initializer adds a NEW column", lambda: (setattr(comp,'cols',["x"]), setattr(comp,'extra',None), comp.creator(2)) and None)
class B(Component):
    @property
    def name(self): return "b"
    @property
    def columns_created(self): return ["x"]
    def setup(self,b): self.creator=b.population.get_simulant_creator(); self.v=b.population.get_view(["x","zz"]); self.mode="init"
    def on_initialize_simulants(self,d):
        if self.mode=="init": self.v.update(pd.Series(1,index=d.index,name="x"))
        else: self.v.update(pd.DataFrame({"x":1,"zz":5},index=d.index))
s=sim([B()]); s._lifecycle.set_state("time_step__prepare"); b=s._component_manager.get_component("b"); b.mode="birth"; before=s.get_population()
attempt("birth: update with a new column zz", lambda: b.creator(2))
print("   table after rejected birth:", s.get_population().to_dict("list"), "| rows before", len(before))
print("--- C12 sub-view / missing column")
class V(Component):
    @property
    def name(self): return "v"
    @property
    def columns_created(self): return ["x","y"]
    def setup(self,b): self.pv=b.population.get_view(["x","y"],"x > 1"); self.future=b.population.get_view(["x","nope"])
    def on_initialize_simulants(self,d): self.population_view.update(pd.DataFrame({"x":np.arange(len(d.index)),"y":10},index=d.index))
v=V(); s=sim([v],5); idx=pd.Index([4,3,2,1,0])
attempt("subview inherits query x>1", lambda: v.pv.subview(["y"]).get(idx).index.tolist())
attempt("subview with foreign column", lambda: v.pv.subview(["tracked"]))
attempt("subview with no columns", lambda: v.pv.subview([]))
attempt("get on view with a column that does not exist", lambda: v.future.get(idx))
attempt("get empty index", lambda: v.pv.get(pd.Index([],dtype='int64')).shape)
