import vsrc, warnings, sys
import pandas as pd, numpy as np
from vivarium import Component
from vivarium.framework.engine import SimulationContext
warnings.filterwarnings("ignore")
class Pop(Component):
    def __init__(self, births, keycols): super().__init__(); self.births=births; self.keycols=keycols
    @property
    def name(self): return "pop"
    @property
    def columns_created(self): return ["k1","k2","val"]
    def setup(self,b):
        self.crn=b.randomness.get_stream("init", initializes_crn_attributes=True); self.rs=b.randomness.get_stream("val"); self.step=b.randomness.get_stream("stepdraw")
        self.reg=b.randomness.register_simulants; self.creator=b.population.get_simulant_creator(); self.trace={}
        self.clock=b.time.clock()
    def on_initialize_simulants(self,d):
        n=len(d.index)
        if n==0: return
        k1=self.crn.get_draw(d.index,"k1")+float((self.clock()-pd.Timestamp("2019-12-31")).days)
        df=pd.DataFrame({"k1":k1,"k2":d.creation_time}, index=d.index)
        self.reg(df[self.keycols])
        df["val"]=self.rs.get_draw(d.index)
        self.population_view.update(df)
    def on_time_step(self,e):
        self.creator(self.births)
        pop=self.population_view.get(e.index)
        dr=self.step.get_draw(pop.index)
        for i in pop.index: self.trace.setdefault((pop.k1[i], pop.k2[i]), []).append((e.time, dr[i]))
def run(births, keycols, size):
    SimulationContext._clear_context_cache()
    p=Pop(births,keycols)
    sim=SimulationContext(components=[p], configuration={'population':{'population_size':6},'randomness':{'key_columns':keycols,'map_size':size,'random_seed':3},
        'time':{'start':{'year':2020,'month':1,'day':1},'end':{'year':2020,'month':1,'day':7},'step_size':1}}, logging_verbosity=0)
    sim.run_simulation(); return p, sim
for keycols,size in ((["k1"],61),(["k1"],1009)):
    a,sa=run(1,keycols,size); b,sb=run(3,keycols,size)
    common=set(a.trace)&set(b.trace)
    same=sum(1 for k in common if a.trace[k]==b.trace[k]); 
    print(keycols,"size",size,"common keys",len(common),"identical trajectories",same)
