import vsrc
import pandas as pd, numpy as np
from vivarium import Component
from vivarium.framework.engine import SimulationContext

class Pop(Component):
    @property
    def name(self): return "pop"
    @property
    def columns_created(self): return ["a","b","c"]
    def on_initialize_simulants(self, pop_data):
        n=len(pop_data.index)
        self.population_view.update(pd.DataFrame({"a":np.arange(n),"b":np.arange(n)*1.5,"c":["x"]*n}, index=pop_data.index))
    def setup(self, builder): self.creator = builder.population.get_simulant_creator()

SimulationContext._clear_context_cache()
c=Pop()
sim=SimulationContext(components=[c], configuration={'population':{'population_size':4}})
sim.setup(); sim.initialize_simulants()
sim._lifecycle.set_state("time_step__prepare")
before = sim.get_population()
print(before.dtypes.to_dict())
outcomes=[]
for trial in range(1):
    upd = pd.DataFrame({"a":[10,11],"b":[7,8]}, index=[1,2])   # a ok (int), b wrong dtype (int into float col)
    try:
        c.population_view.update(upd); print("accepted")
    except Exception as e: print("rejected:", type(e).__name__, str(e)[:100])
    after = sim.get_population()
    print("unchanged after rejection:", after.equals(before)); print(after)
import os; print("set order:", list(set(["a","b"])), "PYTHONHASHSEED", os.environ.get("PYTHONHASHSEED"))
