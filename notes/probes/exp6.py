import vsrc
import pandas as pd, numpy as np
from vivarium.framework.state_machine import Transition, State, Trigger
a=State("a"); b=State("b")
t=Transition(a,b, probability_func=lambda idx: pd.Series(0.7,index=idx), triggered=Trigger.START_INACTIVE)
try:
    print(t.probability(pd.Index([3,1,2])))
except Exception as e: print("ERR", type(e).__name__, e)
t.set_active(pd.Index([2]))
try:
    print(t.probability(pd.Index([3,1,2])))
except Exception as e: print("ERR", type(e).__name__, e)
