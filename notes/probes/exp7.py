import vsrc, os, tempfile
import pandas as pd, numpy as np
from vivarium.framework.artifact import Artifact
from vivarium.framework.artifact import hdf
d=tempfile.mkdtemp(dir='/tmp/scratch'); p=os.path.join(d,'a.hdf')
art=Artifact(p)
art.write("x.y", {"k":[1,2]})
art.write("t.u.v", pd.DataFrame({"value":[1.0,2.0]}, index=pd.MultiIndex.from_tuples([(1,'a'),(2,'b')], names=['i','s'])))
print("keys", art.keys, "file", sorted(hdf.get_keys(p)))
for label, fn in [("replace None", lambda: art.replace("x.y", None)),
                  ("write unserialisable", lambda: art.write("q.r", {"s": {1,2}})),
                  ("replace unserialisable", lambda: art.replace("t.u.v", object())),
                  ("write malformed", lambda: art.write("bad", 1)),
                  ("write after junk", lambda: art.write("q.r", [1]))]:
    try: fn(); print(label, "-> accepted")
    except Exception as e: print(label, "-> rejected", type(e).__name__, str(e)[:80])
    print("    keys", art.keys, "file", sorted(hdf.get_keys(p)), "fresh", Artifact(p).keys)
