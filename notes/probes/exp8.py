import vsrc
import pandas as pd, numpy as np
from vivarium import Component
from vivarium.framework.engine import SimulationContext
from vivarium.framework.state_machine import Machine, State, Transition

class Pop(Component):
    @property
    def name(self): return "pop"
    @property
    def columns_created(self): return ["age","sex","entrance_time","color"]
    def setup(self, builder):
        self.creator = builder.population.get_simulant_creator()
        self.crn = builder.randomness.get_stream("pop_crn", initializes_crn_attributes=True)
        self.rs = builder.randomness.get_stream("pop_other")
        self.register = builder.randomness.register_simulants
        self.clock=builder.time.clock()
    def on_initialize_simulants(self, pop_data):
        idx=pop_data.index; n=len(idx)
        age = self.crn.get_draw(idx, "age")*80 if n else pd.Series([],dtype=float,index=idx)
        df = pd.DataFrame({"age":age, "entrance_time":pop_data.creation_time}, index=idx)
        self.register(df[["entrance_time","age"]])
        df["sex"] = self.rs.choice(idx, ["m","f"], additional_key="sex") if n else pd.Series([],dtype=object,index=idx)
        df["color"] = self.rs.choice(idx, ["r","g","b"], p=[.5,.25,.25], additional_key="color") if n else pd.Series([],dtype=object,index=idx)
        self.population_view.update(df)
    def on_time_step(self, event):
        new = self.creator(2, {"sim_state":"time_step"})
        pop = self.population_view.get(event.index)
        pop["age"] += event.step_size/pd.Timedelta(days=365.25)
        self.population_view.update(pop[["age"]])

class Mort(Component):
    @property
    def name(self): return "mort"
    @property
    def columns_required(self): return ["tracked","age","sex"]
    def setup(self, builder):
        data = pd.DataFrame([{"sex":s,"age_start":a,"age_end":a+40,"value":v} for s,v0 in (("m",.5),("f",.3)) for a,v in ((0,v0),(40,v0*2),(80,v0*4))])
        self.table = builder.lookup.build_table(data, key_columns=["sex"], parameter_columns=["age"], value_columns=["value"])
        self.rate = builder.value.register_rate_producer("mortality_rate", source=self.table, requires_columns=["age","sex"])
        builder.value.register_value_modifier("mortality_rate", self.mod)
        self.rs = builder.randomness.get_stream("mort")
    def mod(self, index, rate): return rate*1.1
    def on_time_step(self, event):
        pop = self.population_view.get(event.index, query="tracked == True")
        dead = self.rs.filter_for_rate(pop.index, self.rate(pop.index))
        self.population_view.update(pd.Series(False, index=dead, name="tracked"))

class Obs(Component):
    @property
    def name(self): return "obs"
    def setup(self, builder):
        builder.results.register_stratification("sex", ["m","f"], requires_columns=["sex"])
        builder.results.register_stratification("color", ["r","g","b"], excluded_categories=["b"], requires_columns=["color"])
        builder.results.register_binned_stratification("age","age_group",[0,40,80,200],["young","old","ancient"])
        builder.results.register_adding_observation("count", additional_stratifications=["sex","color","age_group"], requires_columns=["sex","color","age"])
        builder.results.register_adding_observation("agesum", additional_stratifications=["sex"], aggregator_sources=["age"], aggregator=lambda df: df["age"].sum(), requires_columns=["age"])
        builder.results.register_concatenating_observation("rows", requires_columns=["age","sex"])

class Disease(Component):
    @property
    def name(self): return "disease_init"
    @property
    def columns_created(self): return ["dstate"]
    def __init__(self):
        super().__init__()
        s=State("s", allow_self_transition=True); i=State("i", allow_self_transition=True); r=State("r")
        s.add_transition(Transition(s,i, probability_func=lambda idx: pd.Series(0.3,index=idx)))
        i.add_transition(Transition(i,r, probability_func=lambda idx: pd.Series(0.5,index=idx)))
        self.machine = Machine("dstate",[s,i,r]); self._sub_components=[self.machine]
    def on_initialize_simulants(self, pop_data):
        self.population_view.update(pd.Series("s", index=pop_data.index, name="dstate"))
    def on_time_step(self, event):
        self.machine.transition(event.index, event.time)

SimulationContext._clear_context_cache()
cfg={'population':{'population_size':50},'time':{'start':{'year':2020,'month':1,'day':1},'end':{'year':2020,'month':3,'day':1},'step_size':10},
     'randomness':{'key_columns':['entrance_time','age'],'map_size':10000,'random_seed':7}}
sim=SimulationContext(components=[Pop(),Mort(),Obs(),Disease()], configuration=cfg)
sim.run_simulation()
pop=sim.get_population()
print(pop.dtypes.to_dict()); print(len(pop), pop.tracked.sum(), pop.dstate.value_counts().to_dict())
for k,v in sim.get_results().items(): print(k, v.shape); print(v.head(12))
