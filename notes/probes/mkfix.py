import subprocess, shutil, pathlib, sys
FIX = {
 "F1": [("src/vivarium/framework/time.py", [("if self._individual_clocks and index.any():\n            update_index", "if self._individual_clocks and not index.empty:\n            update_index"),
                                           ("if self._individual_clocks and index.any():\n            self._simulants_to_snooze", "if self._individual_clocks and not index.empty:\n            self._simulants_to_snooze")])],
 "F2": [("src/vivarium/framework/time.py", [("update_index = self.get_active_simulants(index, self.time)\n", "update_index = self.get_active_simulants(index, self.time).union(\n                self._simulants_to_snooze\n            )\n")])],
 "F3": [("src/vivarium/interface/interactive.py", [("        super().step()\n        self._clock._clock_step_size = old_step_size", "        super().step()\n        if step_size is not None:\n            self._clock._clock_step_size = old_step_size")])],
 "F4": [("src/vivarium/framework/randomness/index_map.py", [("""        final_mapping.index = final_mapping.index.join(final_mapping_index).reorder_levels(
            [self.SIM_INDEX_COLUMN] + self._key_columns
        )
""", """        final_mapping = final_mapping.reindex(final_keys)
        final_mapping.index = final_mapping_index
""")])],
 "F5": [("src/vivarium/framework/population/population_view.py", [("""            for column in update_columns:
                column_update = self._update_column_and_ensure_dtype(
                    population_update[column],
                    state_table[column],
                    self._manager.adding_simulants,
                )
                self._manager.population[column] = column_update
""", """            column_updates = {
                column: self._update_column_and_ensure_dtype(
                    population_update[column],
                    state_table[column],
                    self._manager.adding_simulants,
                )
                for column in update_columns
            }
            for column, column_update in column_updates.items():
                self._manager.population[column] = column_update
""")])],
 "F6": [("src/vivarium/framework/population/manager.py", [('elif "tracked" not in query:', 'elif not re.search(r"\\btracked\\b", query):'), ("from __future__ import annotations\n\nfrom collections.abc", "from __future__ import annotations\n\nimport re\nfrom collections.abc")])],
 "F7": [("src/vivarium/framework/state_machine.py", [("return activated.append(null)", "return pd.concat([activated, null]).reindex(index)")])],
 "F8": [("src/vivarium/framework/artifact/hdf.py", [("""    with tables.open_file(str(path), "a") as store:
        if entity_key.group_prefix not in store:""", """    encoded_data = bytes(json.dumps(data), "utf-8")
    with tables.open_file(str(path), "a") as store:
        if entity_key.group_prefix not in store:"""), ('fnode.write(bytes(json.dumps(data), "utf-8"))', "fnode.write(encoded_data)")]),
        ("src/vivarium/framework/artifact/artifact.py", [("""                f"Trying to replace non-existent key {entity_key} in artifact."
            )
        self.remove(entity_key)""", """                f"Trying to replace non-existent key {entity_key} in artifact."
            )
        if data is None:
            raise ArtifactException(
                f"Attempting to replace key {entity_key} with no data."
            )
        if not isinstance(data, (pd.DataFrame, pd.Series)):
            # Fail before the existing data is removed if the new data can't be stored.
            json.dumps(data)
        self.remove(entity_key)"""), ("import re\nimport warnings\n", "import json\nimport re\nimport warnings\n"), ("from typing import Any, Dict, List, Optional, Union\n", "from typing import Any, Dict, List, Optional, Union\n\nimport pandas as pd\n")])],
 "F13": [("src/vivarium/framework/results/manager.py", [("            data = data.squeeze()\n", "            if isinstance(data, pd.DataFrame):\n                data = data.squeeze(axis=1)\n")])],
 "F14": [("src/vivarium/framework/randomness/stream.py", [("        if population.empty:\n            return population", "        if len(population) == 0:\n            return population")])],
}
for name, files in FIX.items():
    work = pathlib.Path("/tmp/scratch/fx"); shutil.rmtree(work, ignore_errors=True)
    (work/"a").mkdir(parents=True); (work/"b").mkdir(parents=True)
    for rel, reps in files:
        src = pathlib.Path("/repo")/rel
        for side in ("a","b"):
            dst = work/side/rel; dst.parent.mkdir(parents=True, exist_ok=True); shutil.copy(src, dst)
            if name == "F2":   # F2 is stacked on F1 (same lines)
                t = dst.read_text()
                for old, new in FIX["F1"][0][1]: t = t.replace(old, new)
                dst.write_text(t)
        p = work/"b"/rel; s = p.read_text()
        for old, new in reps:
            assert s.count(old) == 1, (name, rel, old[:40], s.count(old))
            s = s.replace(old, new)
        p.write_text(s)
    out = subprocess.run(["diff", "-ruN", "a", "b"], cwd=work, capture_output=True, text=True).stdout
    pathlib.Path(f"/verif/notes/fixes/{name}.patch").write_text(out)
    print(name, out.count("\n@@"), "hunks")
shutil.rmtree("/tmp/scratch/fx", ignore_errors=True)
