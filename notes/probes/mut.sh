#!/bin/bash
# usage: mut.sh <name> <file> <python-replace-old> <python-replace-new> <probe> 
name=$1; file=$2; old=$3; new=$4; probe=$5
rm -rf /tmp/scratch/mc && mkdir -p /tmp/scratch/mc && cp -r /tmp/scratch/rc/src /tmp/scratch/mc/src
/venv/bin/python - "$file" "$old" "$new" <<'PY'
import sys
p='/tmp/scratch/mc/src/vivarium/'+sys.argv[1]; s=open(p).read()
assert s.count(sys.argv[2])>=1, "pattern not found"
open(p,'w').write(s.replace(sys.argv[2], sys.argv[3], 1))
PY
out=$(cd /tmp/scratch && VSRC=/tmp/scratch/mc/src timeout 600 /venv/bin/python $probe 2>&1 | grep -v "USING\|^20..-\|^.\[3" | tail -3 | cut -c1-160)
echo "== $name: $out"
rm -rf /tmp/scratch/mc
