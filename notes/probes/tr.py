import ast, pathlib
root=pathlib.Path('/repo/src/vivarium')
for p in sorted(root.rglob('*.py')):
    t=ast.parse(p.read_text())
    for n in ast.walk(t):
        if isinstance(n, ast.Call):
            f=n.func
            name = f.attr if isinstance(f, ast.Attribute) else (f.id if isinstance(f, ast.Name) else None)
            if name in ('add_constraint','_add_constraint'):
                tgt = ast.unparse(n.args[0]) if n.args else '?'
                kw = {k.arg: ast.unparse(k.value) for k in n.keywords}
                print(f"{p.relative_to(root)}:{n.lineno}  {tgt:40s} {kw}")
            if name=='add_phase':
                print(f"{p.relative_to(root)}:{n.lineno}  add_phase {[ast.unparse(a) for a in n.args]} { {k.arg: ast.unparse(k.value) for k in n.keywords} }")
            if name=='set_state':
                print(f"{p.relative_to(root)}:{n.lineno}  set_state {[ast.unparse(a) for a in n.args]}")
