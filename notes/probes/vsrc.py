import sys, types, warnings
sys.path.insert(0, __import__('os').environ.get('VSRC','/repo/src'))
m = types.ModuleType('vivarium._version'); m.__version__ = '3.0.10'
sys.modules['vivarium._version'] = m
warnings.filterwarnings('ignore')
import vivarium
print('USING', vivarium.__file__, file=sys.stderr)
