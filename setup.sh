#!/bin/bash
# Run once after a fresh restore (offline): regenerate Gen/ from /repo, build the Lean modules of every
# registered check (MANIFEST.json), smoke-test the import of the implementation under test.
set -e
cd "$(dirname "$(readlink -f "$0")")"
export PYTHONDONTWRITEBYTECODE=1
/venv/bin/python -W ignore -m vcheck.translate
TARGETS=$(/venv/bin/python -W ignore - <<'PY'
import json, importlib
ids = [c["property_id"] for c in json.load(open("MANIFEST.json"))["checks"]]
mods = []
for i in ids:
    p = importlib.import_module(f"vcheck.props.{i.lower()}").PROP
    for m in list(p.build_targets) + list(p.lean_modules):
        if m not in mods:
            mods.append(m)
print(" ".join(mods))
PY
)
cd lean
lake build $TARGETS 2>&1 | tail -5
cd ..
/venv/bin/python -W ignore -c "from vcheck import impl; v = impl.load(); print('implementation under test:', v.__file__)"
