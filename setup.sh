#!/bin/bash
# Run once after a fresh restore (offline): regenerate Gen/ from /repo, build the Lean library.
set -e
cd "$(dirname "$(readlink -f "$0")")"
export PYTHONDONTWRITEBYTECODE=1
/venv/bin/python -W ignore -m vcheck.translate
cd lean
lake build 2>&1 | tail -5
cd ..
/venv/bin/python -W ignore -c "from vcheck import impl; v = impl.load(); print('implementation under test:', v.__file__)"
