#!/bin/bash
# tools/audit_all.sh : the audit a stranger would run. Clean build of the whole Lean project in a scratch copy,
# forbidden-token grep (comments stripped), #print axioms for EVERY theorem of every Props module, leanchecker
# on every Props module. Prints a summary; exit 0 iff everything is clean.
set -u
VERIF="$(dirname "$(dirname "$(readlink -f "$0")")")"
SCR="$(mktemp -d /tmp/vaudit.XXXXXX)"; trap 'rm -rf "$SCR"' EXIT
rsync -a --exclude .lake --exclude '.build.lock' "$VERIF/lean/" "$SCR/lean/"
cd "$SCR/lean"
rc=0
echo "== clean build"; /usr/bin/time -f "%es %MKB" lake build 2>&1 | tail -3 || rc=1
lake build >/dev/null 2>&1 || { echo "BUILD FAILED"; rc=1; }
echo "== forbidden tokens (comments stripped)"
python3 - <<'PY' || rc=1
import re, pathlib, sys
bad = re.compile(r"\bsorry\b|\badmit\b|^\s*axiom\s|native_decide|bv_decide|implemented_by|\bunsafe\s|maxHeartbeats\s+0\b", re.M)
hits = []
for f in list(pathlib.Path("VivModel").rglob("*.lean")) + list(pathlib.Path("Driver").rglob("*.lean")):
    src = re.sub(r"/-.*?-/", "", f.read_text(), flags=re.S); src = re.sub(r"--.*", "", src)
    hits += [f"{f}: {m.group(0).strip()}" for m in bad.finditer(src)]
print("\n".join(hits) or "none"); sys.exit(1 if hits else 0)
PY
echo "== Mathlib imports in Model/ or Driver/"; grep -rn "^import Mathlib" VivModel/Model Driver VivModel/Gen && rc=1 || echo none
echo "== axioms of every property theorem"
python3 - <<'PY' > Audit.lean
import re, pathlib
mods = sorted(p.stem for p in pathlib.Path("VivModel/Props").glob("*.lean"))
print("\n".join(f"import VivModel.Props.{m}" for m in mods))
for m in mods:
    src = pathlib.Path(f"VivModel/Props/{m}.lean").read_text()
    src = re.sub(r"/-.*?-/", "", src, flags=re.S); src = re.sub(r"--.*", "", src)
    ns = re.search(r"^namespace\s+(\S+)", src, re.M).group(1)
    for n in re.findall(r"^\s*(?:private\s+|protected\s+)?theorem\s+(\S+)", src, re.M):
        print(f"#print axioms {ns}.{n}")
PY
lake env lean Audit.lean > axioms.txt 2>&1
python3 - <<'PY' || rc=1
import re, sys
t = open("axioms.txt").read()
std = {"propext", "Classical.choice", "Quot.sound"}
n = bad = 0
for m in re.finditer(r"'([^']+)' (does not depend on any axioms|depends on axioms: \[([^\]]*)\])", t):
    n += 1
    ax = set(a.strip() for a in (m.group(3) or "").replace("\n", " ").split(",") if a.strip())
    if not ax <= std:
        bad += 1; print("NON-STANDARD", m.group(1), sorted(ax - std))
errs = [l for l in t.splitlines() if re.search(r": error", l)]
print(f"{n} theorems audited, {bad} with non-standard axioms, {len(errs)} errors"); print("\n".join(errs[:5]))
sys.exit(1 if bad or errs or n == 0 else 0)
PY
echo "== leanchecker on every Props module"
MODS=$(ls VivModel/Props/*.lean | sed 's#/#.#g; s#\.lean$##')
/usr/bin/time -f "%es %MKB" lake env leanchecker $MODS 2>&1 | tail -3 || rc=1
echo "== result: rc=$rc"; exit $rc
