#!/usr/bin/env python3
"""tools/mkmutant.py <out.patch> <relpath under src/vivarium> <old> <new> [<relpath> <old> <new> ...]
Writes a unified diff that replaces the first occurrence of <old> by <new> in each file."""
import difflib, pathlib, sys
out = sys.argv[1]; args = sys.argv[2:]
patch = ""
files = {}
for k in range(0, len(args), 3):
    rel, old, new = args[k:k+3]
    p = pathlib.Path("/repo/src/vivarium") / rel
    s = files.get(rel, p.read_text())
    old = old.encode().decode("unicode_escape"); new = new.encode().decode("unicode_escape")
    if old not in s:
        sys.exit(f"pattern not found in {rel}: {old!r}")
    files[rel] = s.replace(old, new, 1)
for rel, s in files.items():
    p = pathlib.Path("/repo/src/vivarium") / rel
    patch += "".join(difflib.unified_diff(p.read_text().splitlines(True), s.splitlines(True),
                                           f"a/src/vivarium/{rel}", f"b/src/vivarium/{rel}"))
pathlib.Path(out).parent.mkdir(parents=True, exist_ok=True)
pathlib.Path(out).write_text(patch)
print(out, len(patch.splitlines()), "lines")
