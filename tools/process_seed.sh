#!/bin/bash
# tools/process_seed.sh <seed worktree> <name under seeded/> <check id> : store a seeder's deliverables, confirm the
# demonstration both ways (exit 1 with the change in the worktree, exit 0 on /repo/src) and run the check against it.
WT="$1"; NAME="$2"; ID="$3"; V="$(dirname "$(dirname "$(readlink -f "$0")")")"
mkdir -p "$V/seeded/$NAME"; cp "$WT/seed/patch.diff" "$WT/seed/demo.py" "$WT/seed/README.md" "$V/seeded/$NAME/" || exit 3
( cd "$WT" && git diff --stat -- src | tail -1 )
( cd "$WT" && timeout 900 /venv/bin/python seed/demo.py >/dev/null 2>&1; echo "demo with change: exit $?"; timeout 900 /venv/bin/python seed/demo.py /repo/src >/dev/null 2>&1; echo "demo on /repo/src: exit $?" )
cd "$V"; for s in 0 1; do VERIF_SEED=$s tools/with_mutant.sh "seeded/$NAME/patch.diff" "$ID" 2>&1 | grep -v "^KNOWN" | tail -2 | cut -c1-220; done
for f in replays/$ID-seed0-quick-*.json; do [ -f "$f" ] && python3 -c "
import json,sys; d=json.load(open('$f')); print('  replay:', d['kind'], d.get('signature'), str(d.get('message'))[:200].replace(chr(10),' '))"; done 2>/dev/null | head -4
