#!/usr/bin/env python3
"""tools/register.py <id> <level text> <level note> <technique> : add / replace a check in MANIFEST.json"""
import json, sys
pid, text, note, tech = sys.argv[1:5]
m = json.load(open("/verif/MANIFEST.json"))
m["checks"] = [c for c in m["checks"] if c["property_id"] != pid]
m["checks"].append({"property_id": pid, "quick_cmd": f"./check {pid} --tier quick", "thorough_cmd": f"./check {pid} --tier thorough",
                    "evidence_file": f"evidence/{pid}.json", "replay_cmd_template": f"./check {pid} --replay {{path}}", "engine": "VivModel",
                    "level_claimed": {"category": "proof", "text": text, "design_ref": f"DESIGN.md 5 {pid} and 12"},
                    "level_note": note, "technique": tech})
m["checks"].sort(key=lambda c: c["property_id"])
for e in m["engines"]:
    e["serves_properties"] = [c["property_id"] for c in m["checks"]]
json.dump(m, open("/verif/MANIFEST.json", "w"), indent=2)
print("registered", pid, "->", [c["property_id"] for c in m["checks"]])
