#!/usr/bin/env python3
"""tools/seed_table.py : rewrite the table between the SEEDED-TABLE markers of DESIGN.md from seeded/*/meta.json"""
import glob, json, pathlib, re
V = pathlib.Path(__file__).resolve().parent.parent
rows = []
for d in sorted(glob.glob(str(V / "seeded" / "*"))):
    mf = pathlib.Path(d) / "meta.json"
    if not mf.exists():
        continue
    m = json.load(open(mf))
    st = m.get("status") or ("caught" if "MISSED" not in m.get("detected_by", "") else "missed-then-strengthened")
    rows.append(f"| `seeded/{pathlib.Path(d).name}` | {m['breaks']} | {st} | {m['needs']} | {m['detected_by']} |")
caught = sum(1 for r in rows if "| caught |" in r)
table = ("| change | property | first run | what it needs to manifest | detection (and what was strengthened when it was missed) |\n"
         "|---|---|---|---|---|\n" + "\n".join(rows) +
         f"\n\nTotals: {len(rows)} seeded changes, {caught} caught by the check as it stood, {len(rows) - caught} missed at first and caught "
         "after the strengthening described in the last column (every one of them is re-run by `tools/selftest.sh`).\n")
p = V / "DESIGN.md"
s = p.read_text()
s = re.sub(r"<!-- SEEDED-TABLE-BEGIN -->.*?<!-- SEEDED-TABLE-END -->", "<!-- SEEDED-TABLE-BEGIN -->\n" + table + "<!-- SEEDED-TABLE-END -->", s, flags=re.S)
p.write_text(s)
print(len(rows), "rows,", caught, "caught at once")
