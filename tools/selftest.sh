#!/bin/bash
# tools/selftest.sh [-j N] [-s SEED] [id ...] : run every mutants/<id>/*.patch and seeded/<id>/patch.diff through
# tools/with_mutant.sh and print one line per patch: expected (break -> 1, harmless -> 0) vs observed exit code and
# whether the violation came with a failing input. Not a registered check (it edits nothing, works on scratch copies).
VERIF="$(dirname "$(dirname "$(readlink -f "$0")")")"; cd "$VERIF"
J=4; SEED=0
while getopts "j:s:" o; do case $o in j) J=$OPTARG;; s) SEED=$OPTARG;; esac; done; shift $((OPTIND-1))
IDS="${*:-$(ls mutants | sort)}"
run_one() {
  p="$1"; id="$2"; seed="$3"
  case "$(basename "$p")" in harmless-*) want=0;; *) want=1;; esac
  # a seeded change that a later repair of /repo made harmless (meta.json "neutralised_by") must now pass
  [ -f "$(dirname "$p")/meta.json" ] && grep -q '"neutralised_by"' "$(dirname "$p")/meta.json" && want=0
  out=$(VERIF_SEED=$seed timeout 1800 tools/with_mutant.sh "$p" "$id" 2>&1); rc=$?
  nf=$(echo "$out" | grep -c "no-failing-input-found"); vi=$(echo "$out" | grep -c "^VIOLATION")
  kind="-"; [ "$vi" -gt 0 ] && { [ "$nf" -eq "$vi" ] && kind="no-failing-input-found" || kind="failing-input"; }
  ok=OK; [ "$rc" != "$want" ] && ok=MISMATCH
  echo "$ok $id $(echo "$p" | sed 's#^mutants/##; s#^seeded/#seeded:#') expected=$want got=$rc $kind"
}
export -f run_one
for id in $IDS; do
  for p in mutants/$id/*.patch seeded/$id/patch.diff seeded/$id-[0-9]/patch.diff; do [ -f "$p" ] && echo "$p $id $SEED"; done
done | xargs -P "$J" -L 1 bash -c 'run_one $0 $1 $2' | sort -k2,2 -k3,3
