#!/bin/bash
# tools/with_mutant.sh <patch-file> <check args...>
# Copies ${VERIF_REPO:-/repo}/src to a scratch directory outside /repo and /verif, applies the patch
# (paths relative to the repository root, `git diff` format), runs ./check with VERIF_REPO pointing
# at the copy, removes the copy. Exit status = exit status of the check (3 = patch did not apply).
set -u
VERIF="$(dirname "$(dirname "$(readlink -f "$0")")")"
PATCH="$(readlink -f "$1")"; shift
SRC="${VERIF_REPO:-/repo}"
SCR="$(mktemp -d /tmp/vmut.XXXXXX)"
trap 'rm -rf "$SCR"' EXIT
mkdir -p "$SCR/src"; cp -r "$SRC/src/vivarium" "$SCR/src/vivarium"
find "$SCR" -name __pycache__ -type d -exec rm -rf {} + 2>/dev/null
( cd "$SCR" && patch -p1 --no-backup-if-mismatch -s < "$PATCH" ) || { echo "patch did not apply" >&2; exit 3; }
VERIF_REPO="$SCR" "$VERIF/check" "$@"
rc=$?
# (the runner itself restores the generated tables of the real tree after a table-changing run)
exit $rc
