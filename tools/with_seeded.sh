#!/bin/bash
# tools/with_seeded.sh <id-dir under seeded/> <check args...>
# Applies seeded/<dir>/patch.diff to /repo itself (git apply), runs ./check, and undoes it straight afterwards
# (git checkout -- .). Nothing is ever committed to /repo.
set -u
VERIF="$(dirname "$(dirname "$(readlink -f "$0")")")"
D="$VERIF/seeded/$1"; shift
git -C /repo diff --quiet || { echo "/repo has uncommitted changes; refusing" >&2; exit 3; }
git -C /repo apply "$D/patch.diff" || { echo "patch did not apply" >&2; exit 3; }
trap 'git -C /repo checkout -- . ; find /repo/src -name __pycache__ -type d -exec rm -rf {} + 2>/dev/null' EXIT
"$VERIF/check" "$@"
