"""Defaults of a C07 case (shared by the check and by the probe module, which must stay importable on its own)."""

DEFAULTS = {"drive": "manual", "early": True, "order": "hco", "n_extra": 0, "crn": True, "pop": 2, "steps": 1, "form": "pos",
            "idx": "one", "contexts": [], "late_views": False, "untrack": False, "custom": [], "bad_adds": [], "shuffle": False,
            "order_seed": 0, "prior": [], "restore": None, "as_sub": False, "birth_count": 1, "interactive": "step",
            "listener_kind": "method", "step_days": 1, "mode": "classic", "artifact": False}


def normalise(case):
    c = dict(DEFAULTS)
    c.update(case)
    if "holder_first" in case and "order" not in case:      # cases of the first version of this check
        c["order"] = "hco" if case["holder_first"] else "cho"
    c["prior"] = [dict(p, case=normalise(p.get("case", {}))) for p in (c["prior"] or [])]
    return c
