"""Probe components and the simulation driver of C07 (services x lifecycle states).

Module level (not closures) so that `dill` can restore a backup of the whole context - probes, handles and
the cells recorded so far - in this or in another process (`python -m vcheck.c07_probes <backup> <spec.json>`).

One case = one simulation (optionally preceded by other simulations in the same process, optionally backed up
and restored half-way). A `Holder` component obtains every kind of handle during its setup, a `Caller`
component (or the harness itself, between the context's methods) issues every service call through them in
every lifecycle state and in several calling contexts. Every call is recorded as a cell

    {"svc": label, "st": state, "ctx": calling context, "out": admitted | refused | admitted:<Exception>,
     "chk": None | "<what is wrong with the result / the effect>", "op": [model operation tokens]}

and every handle creation / run-time `add_constraint` as an event in the same ordered list, so that the Lean
driver can replay the whole program. The STATE label of a cell is the harness's own knowledge of where it is
(which hook is running, which context method returned last), never read back from the lifecycle manager.
"""
from __future__ import annotations

import functools
import json
import os
import random
import shutil
import subprocess
import sys
import tempfile

from . import impl

STATES = ["setup", "post_setup", "population_creation", "time_step__prepare", "time_step", "time_step__cleanup",
          "collect_metrics", "simulation_end", "report"]
LOOP = ["time_step__prepare", "time_step", "time_step__cleanup", "collect_metrics"]
ALL_STATES = ["initialization"] + STATES

EV = "framework/event.py"
VA = "framework/values.py"
PO = "framework/population/manager.py"
RA = "framework/randomness/manager.py"
LO = "framework/lookup/manager.py"
EN = "framework/engine.py"

impl.load()
import pandas as pd  # noqa: E402
from vivarium import Component  # noqa: E402
from vivarium.framework.engine import SimulationContext  # noqa: E402
from vivarium.framework.lifecycle import ConstraintError, LifeCycleError  # noqa: E402
from vivarium.framework.values import list_combiner, union_post_processor  # noqa: E402
from vivarium.interface.interactive import InteractiveContext  # noqa: E402


# --------------------------------------------------------------------------------------------- small picklable callables
# (module-level functions / classes instead of lambdas wherever the callable ends up inside the pickled context)

class Const:
    """callable object: a pipeline source / modifier / ppf returning a constant"""

    def __init__(self, value):
        self.value = value

    def __call__(self, index, *a, **k):
        return pd.Series(self.value, index=index, dtype=float)


class AddOne:
    def __call__(self, index, value):
        return value + 1.0


def src_union(index):
    return [pd.Series(0.25, index=index)]


def src_boom(index):
    raise RuntimeError("probe source fails")


def ppf_two(draws):
    return draws * 0.0 + 2.0


def nat_modifier(index):
    return pd.Series(pd.NaT, index=index, dtype="timedelta64[ns]")


class Recorder:
    """listener / initializer that counts its invocations under a tag"""

    def __init__(self, probe, tag):
        self.probe, self.tag = probe, tag
        self.name = "recorder"      # LifeCycleState.add_handlers reads `listener.__self__.name`

    def fire(self, *a, **k):
        self.probe.fired[self.tag] = self.probe.fired.get(self.tag, 0) + 1

    def __call__(self, *a, **k):
        self.fire()


def fire_function(event, recorder=None):
    recorder.fire()


class NamelessRecorder:
    """like Recorder, but the object has no `name` (LifeCycleState.add_handlers used to read `listener.__self__.name`: F34)"""

    def __init__(self, probe, tag):
        self.probe, self.tag = probe, tag

    def fire(self, *a, **k):
        self.probe.fired[self.tag] = self.probe.fired.get(self.tag, 0) + 1


def listener_of(probe, tag):
    """the listener registered by the probe calls, as the KIND of callable the case asks for"""
    rec = Recorder(probe, tag)
    kind = probe.case.get("listener_kind", "method")
    if kind == "method":
        return rec.fire
    if kind == "lambda":
        return lambda event: rec.fire()
    if kind == "partial":            # functools.partial has no __name__
        return functools.partial(fire_function, recorder=rec)
    if kind == "nameless_method":    # a bound method of an object without `name`
        return NamelessRecorder(probe, tag).fire
    return rec                       # a callable object (no __name__ either)


class Helper:
    """a named non-component object whose bound methods may be constrained / registered"""

    def __init__(self, name, probe=None, tag=None):
        self.name = name
        self.probe = probe
        self.tag = tag

    def m(self, x=1, y=0):
        return x + y

    def on_initialize_simulants(self, d):
        if self.probe is not None and len(d.index):       # (creations of nobody - zero-count births, creator probes - do not count)
            key = "init:" + str(self.tag)
            self.probe.fired[key] = self.probe.fired.get(key, 0) + 1

    def __call__(self):
        return 0


class NestedSource:
    """source of the probe pipeline `nest`: when armed, runs the matrix from INSIDE the pipeline call
    (a constrained method of another object - and, for `nest` itself, of the same object - is in progress)"""

    def __init__(self, probe):
        self.probe = probe

    def __call__(self, index):
        p = self.probe
        if p.armed is not None:
            st, ctx = p.armed
            p.armed = None
            p.caller.matrix(st, ctx)
        return pd.Series(2.0, index=index)


class NestedModifier:
    def __init__(self, probe):
        self.probe = probe

    def __call__(self, index, value):
        p = self.probe
        if p.armed_mod is not None:
            st, ctx = p.armed_mod
            p.armed_mod = None
            p.caller.matrix(st, ctx)
        return value


# --------------------------------------------------------------------------------------------- shared probe state

class ProbeState:
    def __init__(self, case):
        self.case = case
        self.h = {}               # handles by kind
        self.events = []          # ordered program: state marks, handle creations, add_constraint calls, cells
        self.n = 0
        self.fired = {}           # effect recorders
        self.done = set()         # (state, ctx) matrices already run
        self.sim = None
        self.caller = None
        self.holder = None
        self.armed = None
        self.armed_mod = None
        self.untracked = []       # simulants the harness itself untracked
        self.cur = None           # last state mark emitted
        self.npop = 0             # simulants created so far (harness's own count)
        self.births_done = set()
        self.mod_admitted = 0     # register_value_modifier calls on `mt` that were admitted
        self.upd_serial = 0
        self.custom = []          # [(label, owner id, method, mode, states)]
        self.rng = random.Random(case.get("order_seed", 0))
        self.step_no = 0
        self.notes = []
        self.quiet = False        # a context that is only finished off for the sake of history records nothing
        self.creator_grew = []    # creator calls outside the loop states after which the state table had more rows

    # -- program recording
    def mark(self, st):
        if self.cur != st:
            self.cur = st
            self.events.append({"e": "st", "st": st})

    def new(self, op, out="ok"):
        self.events.append({"e": "new", "op": [str(x) for x in op], "out": out})

    def fresh(self):
        self.n += 1
        return self.n


def attempt(f):
    """outcome class of one service call: refused (ConstraintError), admitted, admitted:<other exception>"""
    try:
        return "admitted", f()
    except ConstraintError:
        return "refused", None
    except Exception as e:  # noqa: BLE001 - admitted by the lifecycle, failed for another reason
        return "admitted:" + type(e).__name__, None


def lst(xs):
    return ",".join(xs) if xs else "-"


# --------------------------------------------------------------------------------------------- components

class Holder(Component):
    """obtains the handles (at the start or at the end of its setup)"""

    def __init__(self, probe):
        super().__init__()
        self.probe = probe
        probe.holder = self

    @property
    def name(self):
        return "holder"

    @property
    def columns_created(self):
        return ["a", "k", "c"]

    @property
    def configuration_defaults(self):
        return {"holder": {"data_sources": {"tbl": 5.0}}}

    def probe_m1(self, x, y=0):
        return x + y

    def probe_m2(self):
        return 7

    def _noise(self, b, tag):
        for j in range(self.probe.case["n_extra"]):
            b.value.register_value_producer(f"noise_{tag}_{j}", source=Const(0.0))
            b.randomness.get_stream(f"noise_{tag}_{j}")
            b.population.get_view(["a"])

    def setup(self, b):
        p, case = self.probe, self.probe.case
        p.mark("setup")
        if not case["early"]:
            self._noise(b, "pre")
        h = p.h
        h["b"] = b
        # ---- views
        h["view"] = b.population.get_view(["a"]); p.new(["view", "view"])
        h["view_q"] = b.population.get_view(["a", "tracked"], "a >= 0"); p.new(["view", "view_q"])
        h["view_all"] = b.population.get_view([]); p.new(["view", "view_all"])
        h["view_str"] = b.population.get_view(columns="a", query=""); p.new(["view", "view_str"])      # str column, keywords
        h["view_tup"] = b.population.get_view(("a", "k")); p.new(["view", "view_tup"])
        h["view_mgr"] = b.population._manager.get_view(["a"]); p.new(["view", "view_mgr"])           # manager route
        h["sub"] = h["view"].subview(["a"]); p.new(["subview", "sub", "view"])
        h["sub_nested"] = h["view_tup"].subview(["a", "k"]).subview("a")
        p.new(["subview", "sub_mid", "view_tup"]); p.new(["subview", "sub_nested", "sub_mid"])
        h["sub_user"] = h["view"].subview(["a"]); p.new(["subview", "sub_user", "view"])             # target of a user constraint
        h["view_get_bound"] = h["view"].get          # bound methods captured at creation
        h["view_update_bound"] = h["view"].update
        # ---- streams
        h["stream"] = b.randomness.get_stream("s"); p.new(["stream", "stream"])
        h["stream_crn"] = b.randomness.get_stream("s_crn", initializes_crn_attributes=True); p.new(["stream", "stream_crn"])
        h["stream_kw"] = b.randomness.get_stream(decision_point="s_kw", initializes_crn_attributes=False)
        p.new(["stream", "stream_kw"])
        h["stream_mgr"] = b.randomness._manager.get_randomness_stream("s_mgr"); p.new(["stream", "stream_mgr"])
        h["draw_bound"] = h["stream"].get_draw
        # ---- pipelines
        h["pipe_early"] = b.value.get_value("w"); p.new(["value", "w"])              # obtained BEFORE its source is registered (by `other`)
        h["pipe_unsourced"] = b.value.get_value("nosrc"); p.new(["value", "nosrc"])  # never sourced, modified
        b.value.register_value_modifier("nosrc", AddOne()); p.new(["modifier", "nosrc"])
        h["pipe"] = b.value.register_value_producer("v", source=Const(1.0)); p.new(["producer", "v"])
        h["pipe_rate"] = b.value.register_rate_producer("vr", source=Const(0.5)); p.new(["producer", "vr"])
        h["pipe_got"] = b.value.get_value("v"); p.new(["value", "v"])
        h["pipe_kw"] = b.value.register_value_producer(
            value_name="vk", source=Const(4.0), requires_columns=["a"], requires_values=[], requires_streams=[])
        p.new(["producer", "vk"])
        h["pipe_union"] = b.value.register_value_producer(
            "vu", source=src_union, preferred_combiner=list_combiner, preferred_post_processor=union_post_processor)
        p.new(["producer", "vu"])
        h["pipe_mgr"] = b.value._manager.register_value_producer("vm", source=Const(6.0)); p.new(["producer", "vm"])
        h["pipe_boom"] = b.value.register_value_producer("boom", source=src_boom); p.new(["producer", "boom"])
        h["pipe_mt"] = b.value.register_value_producer("mt", source=Const(1.0)); p.new(["producer", "mt"])
        h["pipe_nest"] = b.value.register_value_producer("nest", source=NestedSource(p)); p.new(["producer", "nest"])
        b.value.register_value_modifier("nest", NestedModifier(p)); p.new(["modifier", "nest"])
        b.value.register_value_modifier("mf", AddOne()); p.new(["modifier", "mf"])          # modifier first, source second
        h["pipe_mf"] = b.value.register_value_producer("mf", source=Const(1.0)); p.new(["producer", "mf"])
        h["pipe_fw"] = b.value.get_value("simulant_step_size")          # a pipeline the framework (the clock) registered
        p.new(["producer", "simulant_step_size"])                       # ... during the managers' setup, before any component
        p.new(["value", "simulant_step_size"])
        h["pipe_call_bound"] = h["pipe"]._call
        # ---- lookup tables
        h["table"] = b.lookup.build_table(3.0); p.new(["table", "table", "scalar"])
        h["table_multi"] = b.lookup.build_table((1.0, 2.0), value_columns=["p", "q"]); p.new(["table", "table_multi", "scalar"])
        h["table_cat"] = b.lookup.build_table(
            pd.DataFrame({"c": [0, 1, 2], "value": [1.0, 2.0, 3.0]}), key_columns=["c"], value_columns=["value"])
        p.new(["table", "table_cat", "keyed"])
        h["table_interp"] = b.lookup.build_table(
            pd.DataFrame({"k_start": [0.0, 5.0], "k_end": [5.0, 5000.0], "value": [1.0, 2.0]}),
            parameter_columns=["k"], value_columns=["value"])
        p.new(["table", "table_interp", "keyed"])
        h["table_mgr"] = b.lookup._manager.build_table(8.0, (), (), ()); p.new(["table", "table_mgr", "scalar"])
        h["table_comp"] = self.build_lookup_table(b, 9.0); p.new(["table", "table_comp", "scalar"])      # Component route
        h["table_cfg"] = self.lookup_tables["tbl"]; p.new(["table", "table_cfg", "scalar"])            # built from configuration
        # ---- other services obtained at setup
        h["creator"] = b.population.get_simulant_creator()
        h["creator_mgr"] = b.population._manager.get_simulant_creator()      # manager route
        h["add_constraint"] = b.lifecycle.add_constraint
        # ---- run-time constraints (user `add_constraint`)
        self._custom(b)
        if case["early"]:
            self._noise(b, "post")

    # run-time constraints -----------------------------------------------------------------
    NAMES = {"helper1": "probe_helper", "helper2": "probe_helper", "helper3": "probe_helper3"}

    def _add(self, owner_id, method_name, bound_method, mode, states, container, is_bound=True):
        """one user add_constraint call; records the program event with the outcome class"""
        p = self.probe
        seq = tuple(states) if container == "tuple" else list(states)
        kw = {"allow_during": seq} if mode == "allow" else {"restrict_during": seq}
        if mode == "both":
            kw = {"allow_during": seq, "restrict_during": seq}
        if mode == "neither":
            kw = {}
        try:
            p.h["add_constraint"](bound_method, **kw)
            out = "ok"
        except ConstraintError:
            out = "err:constraint"
        except LifeCycleError:
            out = "err:lifecycle"
        except ValueError:
            out = "err:value"
        except TypeError:
            out = "err:type"
        except Exception as e:  # noqa: BLE001
            out = "err:" + type(e).__name__
        allow = lst(states) if mode in ("allow", "both") else "-"
        restrict = lst(states) if mode in ("restrict", "both") else "-"
        # the global id is NAME based: helper1 and helper2 are different objects with the same name
        p.events.append({"e": "add", "op": ["add", owner_id, self.NAMES.get(owner_id, owner_id), method_name,
                                            "1" if is_bound else "0", allow, restrict],
                         "out": out, "mode": mode, "states": list(states)})
        return out

    def _custom(self, b):
        p, h = self.probe, self.probe.h
        h["helper1"] = Helper("probe_helper"); p.new(["obj", "helper1"])
        h["helper2"] = Helper("probe_helper"); p.new(["obj", "helper2"])      # same name, another object
        h["helper3"] = Helper("probe_helper3"); p.new(["obj", "helper3"])
        p.new(["obj", "holder"])
        targets = {"holder.m1": ("holder", "probe_m1", lambda: self.probe_m1),
                   "holder.m2": ("holder", "probe_m2", lambda: self.probe_m2),
                   "helper1.m": ("helper1", "m", lambda: h["helper1"].m),
                   "helper3.m": ("helper3", "m", lambda: h["helper3"].m),
                   "sub_user.get": ("sub_user", "get", lambda: h["sub_user"].get)}
        for i, c in enumerate(p.case.get("custom", [])):
            if c.get("when", "setup") != "setup":
                continue
            oid, m, get = targets[c["target"]]
            out = self._add(oid, m, get(), c["mode"], c["states"], c.get("container", "list"))
            if out == "ok":
                p.custom.append((c["target"], oid, m, c["mode"], c["states"]))
        for kind in p.case.get("bad_adds", []):
            if kind == "both":
                self._add("helper3", "m", h["helper3"].m, "both", ["setup"], "list")
            elif kind == "neither":
                self._add("helper3", "m", h["helper3"].m, "neither", [], "list")
            elif kind == "empty_tuple":
                self._add("helper3", "m", h["helper3"].m, "allow", [], "tuple")
            elif kind == "unknown_state":
                self._add("helper3", "m", h["helper3"].m, "allow", ["setup", "no_such_state"], "list")
            elif kind == "unknown_restrict":
                self._add("helper3", "m", h["helper3"].m, "restrict", ["no_such_state"], "tuple")
            elif kind == "twice_view_get":          # widen an already constrained framework handle: must be refused
                self._add("view", "get", h["view"].get, "allow", list(ALL_STATES), "list")
            elif kind == "twice_view_update":
                self._add("view", "update", h["view"].update, "restrict", ["initialization"], "list")
            elif kind == "twice_stream":
                self._add("stream", "get_draw", h["stream"].get_draw, "allow", list(ALL_STATES), "tuple")
            elif kind == "twice_pipeline":
                self._add("v", "_call", h["pipe"]._call, "allow", list(ALL_STATES), "list")
            elif kind == "twice_table":
                self._add("table", "call", h["table"].call, "allow", list(ALL_STATES), "list")
            elif kind == "twice_manager":
                self._add(RA, "self.get_randomness_stream", b.randomness._manager.get_randomness_stream, "allow",
                          list(ALL_STATES), "list")
            elif kind == "twice_manager_values":
                self._add(VA, "self.register_value_producer", b.value._manager.register_value_producer, "restrict",
                          ["initialization"], "list")
            elif kind == "function":
                self._add("fn", "src_union", src_union, "allow", ["setup"], "list", is_bound=False)
            elif kind == "dunder":
                self._add("helper3", "__call__", h["helper3"].__call__, "allow", ["setup"], "list")
            elif kind == "same_name":               # helper2 has helper1's name: refused as "already constrained" iff helper1.m is
                self._add("helper2", "m", h["helper2"].m, "allow", ["report"], "list")

    def late_adds(self, st):
        """run-time constraints added AFTER setup (the interface stays usable in every state)"""
        p, h = self.probe, self.probe.h
        targets = {"helper3.m": ("helper3", "m", lambda: h["helper3"].m),
                   "holder.m2": ("holder", "probe_m2", lambda: self.probe_m2),
                   "sub_user.get": ("sub_user", "get", lambda: h["sub_user"].get)}
        for c in p.case.get("custom", []):
            if c.get("when", "setup") == st and c["target"] in targets:
                oid, m, get = targets[c["target"]]
                out = self._add(oid, m, get(), c["mode"], c["states"], c.get("container", "list"))
                if out == "ok":
                    p.custom.append((c["target"], oid, m, c["mode"], c["states"]))

    def on_initialize_simulants(self, d):
        p = self.probe
        frame = pd.DataFrame({"a": 1, "k": [float(i) for i in d.index], "c": 1}, index=d.index)
        self.population_view.update(frame)
        if p.case["crn"] and len(d.index):
            p.h["b"].randomness.register_simulants(frame[["k"]])


class Other(Component):
    """registers the source of the pipeline that `holder` fetched with get_value before (when it is set up later)"""

    def __init__(self, probe):
        super().__init__()
        self.probe = probe

    @property
    def name(self):
        return "other"

    def setup(self, b):
        p = self.probe
        p.mark("setup")
        p.h["pipe_w_reg"] = b.value.register_value_producer("w", source=Const(5.0)); p.new(["producer", "w"])
        p.h["other_b"] = b


class Parent(Component):
    """wraps the probes as sub-components (they are set up by the component manager right after the parent)"""

    def __init__(self, subs):
        super().__init__()
        self._sub_components = list(subs)

    @property
    def name(self):
        return "parent"


class Caller(Component):
    """issues every service call from its hooks in every state"""

    def __init__(self, probe):
        super().__init__()
        self.probe = probe
        probe.caller = self

    @property
    def name(self):
        return "caller"

    @property
    def columns_created(self):
        return ["z"]

    @property
    def initialization_requirements(self):
        return {"requires_columns": ["a", "k", "c"], "requires_values": [], "requires_streams": []}

    # ---- hooks
    def setup(self, b):
        self.b = b
        b.event.register_listener("report", self.on_report)
        self.matrix("setup", "listener")

    def on_post_setup(self, e):
        p = self.probe
        if "add_constraint" in p.h:
            p.mark("post_setup")
            p.holder.late_adds("post_setup")
        self._late_view("post_setup")
        self.matrix("post_setup", "listener")

    def on_initialize_simulants(self, d):
        p = self.probe
        if (d.user_data or {}).get("sim_state") == "setup":
            p.npop = len(d.index)
            self._late_view("population_creation")
            self.new_index = d.index
            self.matrix("population_creation", "listener")
        elif "probe_birth" in (d.user_data or {}):
            st = d.user_data["probe_birth"]
            p.npop += len(d.index)
            self.new_index = d.index
            self.matrix(st, "init@birth" if len(d.index) else "init@birth0")
        self.new_index = None

    def _loop(self, st, e):
        p = self.probe
        if st == "time_step__prepare":
            p.step_no += 1
        if st == "time_step" and p.step_no == 1:
            p.mark(st)
            p.holder.late_adds("time_step")
        if st == "time_step__prepare" and p.step_no == 1 and p.case.get("untrack") and p.npop >= 2 and not p.untracked:
            # the harness untracks the last simulant through the handle `holder` obtained
            victim = p.npop - 1
            p.h["view_all"].update(pd.Series(False, index=pd.Index([victim]), name="tracked"))
            p.untracked.append(victim)
        self.matrix(st, "listener")
        ctxs = p.case.get("contexts", [])
        if "birth" in ctxs and (st, "birth") not in p.births_done:
            p.births_done.add((st, "birth"))
            n = p.case.get("birth_count", 1)
            p.mark(st)
            p.h["creator"](n, {"probe_birth": st})
        if "nested" in ctxs:
            if (st, "nested@source") not in p.done:
                p.mark(st)
                p.armed = (st, "nested@source")
                p.h["pipe_nest"](pd.Index([0]))
                p.armed = None
            if (st, "nested@modifier") not in p.done and st in ("time_step", "collect_metrics"):
                p.armed_mod = (st, "nested@modifier")
                p.h["pipe_nest"](pd.Index([0]))
                p.armed_mod = None

    def on_time_step_prepare(self, e):
        self._loop("time_step__prepare", e)

    def on_time_step(self, e):
        self._loop("time_step", e)

    def on_time_step_cleanup(self, e):
        self._loop("time_step__cleanup", e)

    def on_collect_metrics(self, e):
        self._loop("collect_metrics", e)

    def on_simulation_end(self, e):
        self._late_view("simulation_end")
        self.matrix("simulation_end", "listener")
        if "nested" in self.probe.case.get("contexts", []):
            p = self.probe
            p.armed = ("simulation_end", "nested@source")
            p.h["pipe_nest"](pd.Index([0]))
            p.armed = None

    def on_report(self, e):
        self._late_view("report")
        self.matrix("report", "listener")

    def _late_view(self, st):
        """get_view stays available after setup: such views must carry the same restrictions"""
        p = self.probe
        if not p.case.get("late_views") or "b" not in p.h or ("late", st) in p.done:
            return
        p.done.add(("late", st))
        p.mark(st)
        out, v = attempt(lambda: p.h["b"].population.get_view(["a"]))
        p.new(["view", "late_" + st], "ok" if out == "admitted" else out)
        if out == "admitted":
            p.h["late_" + st] = v

    # ---- the matrix
    def matrix(self, st, ctx):
        p = self.probe
        if p.quiet or (st, ctx) in p.done:
            return
        p.done.add((st, ctx))
        after_setup_hooks(p)
        p.mark(st)
        calls = build_calls(p, st, ctx, self.b if hasattr(self, "b") else None, getattr(self, "new_index", None))
        order = list(range(len(calls)))
        if p.case.get("shuffle"):
            p.rng.shuffle(order)
        for i in order:
            label, op, thunk, check, needs = calls[i]
            cell = {"e": "cell", "svc": label, "st": st, "ctx": ctx, "op": [str(x) for x in op], "chk": None}
            if any(k not in p.h for k in needs):
                cell["out"] = "unavailable"
                p.events.append(cell)
                continue
            out, res = attempt(thunk)
            cell["out"] = out
            if out == "admitted" and callable(check):
                try:
                    cell["chk"] = check(res)
                except Exception as e:  # noqa: BLE001
                    cell["chk"] = f"validator raised {type(e).__name__}: {e}"
            p.events.append(cell)


# --------------------------------------------------------------------------------------------- the calls

def idx_for(p, kind):
    n = p.npop
    if kind == "empty" or n == 0:
        return pd.Index([], dtype="int64")
    if kind == "one":
        return pd.Index([0])
    if kind == "range":
        return pd.RangeIndex(n)
    if kind == "rev":
        return pd.Index(list(range(n))[::-1])
    if kind == "untracked" and p.untracked:
        return pd.Index(sorted({0, p.untracked[0]}))
    return pd.Index(list(range(n)))


def build_calls(p, st, ctx, b, new_index):
    """[(label, model op, thunk, validator | None, handles needed)] - everything is derived from the case's configuration"""
    case, h = p.case, p.h
    if b is None:
        b = h.get("b")
    form = case.get("form", "pos")
    init_ctx = ctx.startswith("init@") or st == "population_creation"
    ikind = case.get("idx", "one")
    if st in ("initialization", "setup", "post_setup"):      # nobody exists yet; every call must be refused anyway
        idx = pd.Index([0]) if ikind != "empty" else pd.Index([], dtype="int64")
    else:
        idx = idx_for(p, ikind)
    empty = "1" if len(idx) == 0 else "0"
    n = p.fresh()
    tag = f"{st}|{ctx}"
    C = []

    def add(label, op, thunk, check=None, needs=()):
        C.append((label, op, thunk, check, tuple(needs)))

    # ------------------------------------------------------------------ registration services
    def is_type(name):
        return lambda r: None if type(r).__name__ == name else f"returned {type(r).__name__}, expected {name}"

    def is_callable(r):
        return None if callable(r) else "result is not callable"

    add("register_listener", ["svc", EV, "self.register_listener"],
        lambda: b.event.register_listener("time_step", listener_of(p, "listener:" + tag)))
    add("register_listener@kw", ["svc", EV, "self.register_listener"],
        lambda: b.event.register_listener(name="collect_metrics", listener=listener_of(p, "listener_kw:" + tag), priority=9))
    add("register_listener@manager", ["svc", EV, "self.register_listener"],
        lambda: b.event._manager.register_listener("time_step", listener_of(p, "listener_mgr:" + tag), 0))
    add("register_listener!bad", ["svc", EV, "self.register_listener"],
        lambda: b.event.register_listener("time_step", listener_of(p, "listener_bad:" + tag), priority=99))
    add("register_value_producer", ["svc", VA, "self.register_value_producer"],
        lambda: b.value.register_value_producer(f"v{n}", source=Const(1.0)), is_type("Pipeline"))
    add("register_value_producer@rate", ["svc", VA, "self.register_value_producer"],
        lambda: b.value.register_rate_producer(f"vr{n}", source=Const(1.0)), is_type("Pipeline"))
    add("register_value_producer@kw", ["svc", VA, "self.register_value_producer"],
        lambda: b.value.register_value_producer(value_name=f"vk{n}", source=Const(1.0), requires_columns=["a"],
                                                requires_values=["v"], requires_streams=["s"]), is_type("Pipeline"))
    add("register_value_producer@manager", ["svc", VA, "self.register_value_producer"],
        lambda: b.value._manager.register_value_producer(f"vm{n}", Const(1.0)), is_type("Pipeline"))
    add("register_value_producer!bad", ["svc", VA, "self.register_value_producer"],
        lambda: b.value.register_value_producer("v", source=Const(1.0)), needs=["pipe"])

    def reg_mt():
        b.value.register_value_modifier("mt", AddOne())
        p.mod_admitted += 1
    add("register_value_modifier", ["svc", VA, "self.register_value_modifier"], reg_mt)
    add("register_value_modifier@kw", ["svc", VA, "self.register_value_modifier"],
        lambda: b.value.register_value_modifier(value_name=f"unused{n}", modifier=AddOne(), requires_columns=["a"]))
    add("register_value_modifier@step_size", ["svc", VA, "self.register_value_modifier"],
        lambda: b.time.register_step_size_modifier(nat_modifier))
    add("register_value_modifier@manager", ["svc", VA, "self.register_value_modifier"],
        lambda: b.value._manager.register_value_modifier(f"unused_m{n}", AddOne()))
    add("initializes_simulants", ["svc", PO, "self.register_simulant_initializer"],
        lambda: b.population.initializes_simulants(Helper(f"h{n}", p, tag).on_initialize_simulants))
    add("initializes_simulants@kw", ["svc", PO, "self.register_simulant_initializer"],
        lambda: b.population.initializes_simulants(initializer=Helper(f"hk{n}", p, "kw:" + tag).on_initialize_simulants, creates_columns=[],
                                                   requires_columns=["a"], requires_values=[], requires_streams=[]))
    add("initializes_simulants@manager", ["svc", PO, "self.register_simulant_initializer"],
        lambda: b.population._manager.register_simulant_initializer(Helper(f"hm{n}", p, "mgr:" + tag).on_initialize_simulants))
    add("initializes_simulants!bad", ["svc", PO, "self.register_simulant_initializer"],
        lambda: b.population.initializes_simulants(src_union))
    add("get_simulant_creator", ["svc", PO, "self.get_simulant_creator"], lambda: b.population.get_simulant_creator(), is_callable)
    add("get_simulant_creator@manager", ["svc", PO, "self.get_simulant_creator"],
        lambda: b.population._manager.get_simulant_creator(), is_callable)
    add("get_stream", ["svc", RA, "self.get_randomness_stream"], lambda: b.randomness.get_stream(f"s{n}"), is_type("RandomnessStream"))
    add("get_stream@crn", ["svc", RA, "self.get_randomness_stream"],
        lambda: b.randomness.get_stream(f"sc{n}", initializes_crn_attributes=True), is_type("RandomnessStream"))
    add("get_stream@kw", ["svc", RA, "self.get_randomness_stream"],
        lambda: b.randomness.get_stream(decision_point=f"sk{n}", initializes_crn_attributes=False), is_type("RandomnessStream"))
    add("get_stream@manager", ["svc", RA, "self.get_randomness_stream"],
        lambda: b.randomness._manager.get_randomness_stream(f"sm{n}"), is_type("RandomnessStream"))
    add("get_stream!bad", ["svc", RA, "self.get_randomness_stream"], lambda: b.randomness.get_stream("s"), needs=["stream"])
    add("build_table", ["svc", LO, "self.build_table"], lambda: b.lookup.build_table(1.0), is_type("ScalarTable"))
    add("build_table@frame", ["svc", LO, "self.build_table"],
        lambda: b.lookup.build_table(pd.DataFrame({"a": [0, 1], "value": [1.0, 2.0]}), key_columns=["a"], value_columns=["value"]),
        is_type("CategoricalTable"))
    add("build_table@kw", ["svc", LO, "self.build_table"],
        lambda: b.lookup.build_table(data=[1.0, 2.0], key_columns=(), parameter_columns=(), value_columns=("x", "y")),
        is_type("ScalarTable"))
    add("build_table@component", ["svc", LO, "self.build_table"],
        lambda: p.holder.build_lookup_table(b, 2.0), is_type("ScalarTable"))
    add("build_table@manager", ["svc", LO, "self.build_table"],
        lambda: b.lookup._manager.build_table(1.0, (), (), ()), is_type("ScalarTable"))
    add("build_table!bad", ["svc", LO, "self.build_table"], lambda: b.lookup.build_table(None))

    # ------------------------------------------------------------------ artifact data (builder.data.load, Component.get_data)
    AR = "framework/artifact/manager.py"
    if case.get("artifact"):
        is75 = lambda r: None if r == 7.5 else f"loaded {r!r}, the artifact holds 7.5"    # noqa: E731
        add("data.load", ["svc", AR, "self.load"], lambda: b.data.load("probe.number"), is75)
        add("data.load@filter", ["svc", AR, "self.load"], lambda: b.data.load("probe.data", sex="Male"),
            lambda r: None if list(r["value"]) == [2.0] else f"loaded {r.to_dict('list')}, the Male row holds 2.0")
        add("data.load@component", ["svc", AR, "self.load"], lambda: p.holder.get_data(b, "probe.number"), is75)
        add("data.load@manager", ["svc", AR, "self.load"], lambda: b.data._manager.load("probe.number"), is75)
    add("data.load!bad", ["svc", AR, "self.load"], lambda: b.data.load("no.such_key"))

    # ------------------------------------------------------------------ views
    tracked_out = [s for s in p.untracked]

    def expect_rows(filters_untracked):
        return [int(i) for i in idx if not (filters_untracked and int(i) in tracked_out)]

    def view_check(cols, filters_untracked):
        want_rows = expect_rows(filters_untracked)

        def chk(r):
            if not isinstance(r, pd.DataFrame):
                return f"returned {type(r).__name__}"
            if cols is not None and sorted(r.columns) != sorted(cols):
                return f"columns {sorted(r.columns)}, the view was configured with {sorted(cols)}"
            if sorted(int(i) for i in r.index) != sorted(want_rows):
                return f"rows {list(r.index)}, expected {want_rows}"
            return None
        return chk

    def vget(key):
        v = h[key]
        if form == "kw":
            return v.get(index=idx, query="")
        return v.get(idx)

    add("view.get", ["call", "view", "get", empty], lambda: vget("view"), view_check(["a"], True), ["view"])
    add("view.get@query", ["call", "view_q", "get", empty], lambda: vget("view_q"), view_check(["a", "tracked"], False), ["view_q"])
    add("view.get@all", ["call", "view_all", "get", empty], lambda: vget("view_all"), view_check(None, False), ["view_all"])
    add("view.get@str", ["call", "view_str", "get", empty], lambda: vget("view_str"), view_check(["a"], True), ["view_str"])
    add("view.get@tuple", ["call", "view_tup", "get", empty], lambda: vget("view_tup"), view_check(["a", "k"], True), ["view_tup"])
    add("view.get@manager", ["call", "view_mgr", "get", empty], lambda: vget("view_mgr"), view_check(["a"], True), ["view_mgr"])
    add("view.get@extra_query", ["call", "view", "get", empty], lambda: h["view"].get(idx, query="a >= 0"),
        view_check(["a"], True), ["view"])
    add("view.get@bound", ["call", "view", "get", empty], lambda: h["view_get_bound"](idx), view_check(["a"], True), ["view_get_bound"])
    add("view.get@component", ["call", "view_comp", "get", empty], lambda: h["view_comp"].get(idx),
        view_check(["a", "k", "c"], True), ["view_comp"])
    add("view.get@popmgr", ["call", "view_popmgr", "get", empty], lambda: h["view_popmgr"].get(idx),
        view_check(["tracked"], False), ["view_popmgr"])
    add("view.get!bad", ["call", "view", "get", empty], lambda: h["view"].get(pd.Index([10 ** 6])), None, ["view"])
    for lst_ in STATES:
        key = "late_" + lst_
        if key in h:
            add("view.get@late:" + lst_, ["call", key, "get", empty], functools.partial(lambda k: h[k].get(idx), key),
                view_check(["a"], True), [key])

    # updates: during initial creation every update must cover the whole new population, at a birth the new simulants, and
    # must not conflict with what `holder` wrote (1); elsewhere a serial number is written and read back
    if init_ctx and new_index is not None:
        uidx, uval = new_index, 1
    else:
        uidx = idx
        p.upd_serial += 1
        uval = 100 + p.upd_serial

    def table_now():
        return h["b"].population._manager._population if "b" in h else None

    def upd(key, col="a", frame=False, bound=False):
        def go():
            data = pd.DataFrame({col: uval}, index=uidx) if frame else pd.Series(uval, index=uidx, name=col)
            f = h["view_update_bound"] if bound else h[key].update
            if form == "kw" and not bound:
                return f(population_update=data)
            return f(data)
        return go

    def upd_check(_r):
        t = table_now()
        if t is None or init_ctx or len(uidx) == 0:
            return None
        got = [int(x) for x in t.loc[uidx, "a"]]
        return None if all(g == uval for g in got) else f"wrote {uval} to {list(uidx)}, the state table holds {got}"

    add("view.update", ["call", "view", "update", empty], upd("view"), upd_check, ["view"])
    add("view.update@query", ["call", "view_q", "update", empty], upd("view_q"), upd_check, ["view_q"])
    add("view.update@all", ["call", "view_all", "update", empty], upd("view_all"), upd_check, ["view_all"])
    add("view.update@frame", ["call", "view_tup", "update", empty], upd("view_tup", frame=True), upd_check, ["view_tup"])
    add("view.update@manager", ["call", "view_mgr", "update", empty], upd("view_mgr"), upd_check, ["view_mgr"])
    add("view.update@bound", ["call", "view", "update", empty], upd("view", bound=True), upd_check, ["view_update_bound"])
    add("view.update@component", ["call", "view_comp", "update", empty], upd("view_comp"), upd_check, ["view_comp"])
    # the caller's own column: the only kind of update that can WORK while the initial population is being created
    zidx = new_index if (init_ctx and new_index is not None) else uidx

    def upd_z():
        return p.caller.population_view.update(pd.Series(0, index=zidx, name="z"))
    if p.caller is not None and p.caller._population_view is not None and "view_caller" not in h:
        h["view_caller"] = p.caller._population_view
        back = p.cur
        p.mark("setup")
        p.new(["view", "view_caller"])
        if back is not None:
            p.mark(back)
    add("view.update@creates_column", ["call", "view_caller", "update", "1" if len(zidx) == 0 else "0"], upd_z, None, ["view_caller"])
    add("view.update!bad", ["call", "view", "update", empty],
        lambda: h["view"].update(pd.Series(1, index=pd.Index([0]), name="no_such_column")), None, ["view"])
    for lst_ in STATES:
        key = "late_" + lst_
        if key in h:
            add("view.update@late:" + lst_, ["call", key, "update", empty], upd(key), upd_check, [key])
    # sub-views (F10: no constraint at all)
    add("subview.get", ["call", "sub", "get", empty], lambda: h["sub"].get(idx), view_check(["a"], True), ["sub"])
    add("subview.update", ["call", "sub", "update", empty], upd("sub"), upd_check, ["sub"])
    add("subview.get@nested", ["call", "sub_nested", "get", empty], lambda: h["sub_nested"].get(idx), view_check(["a"], True), ["sub_nested"])
    add("subview.update@nested", ["call", "sub_nested", "update", empty], upd("sub_nested"), upd_check, ["sub_nested"])
    add("subview.get@component", ["call", "sub_comp", "get", empty], lambda: h["sub_comp"].get(idx), view_check(["k"], True), ["sub_comp"])

    # ------------------------------------------------------------------ pipelines
    def series_is(value, tol=0.0):
        def chk(r):
            if not isinstance(r, pd.Series):
                return f"returned {type(r).__name__}"
            if list(r.index) != list(idx):
                return f"index {list(r.index)}, asked for {list(idx)}"
            bad = [float(x) for x in r if not abs(float(x) - value) <= tol]
            return f"values {bad[:3]}, the configured value is {value}" if bad else None
        return chk

    step_days = case.get("step_days", 1)
    yearly = 0.5 * (step_days * 86400.0 / (60 * 60 * 24 * 365.0))
    add("pipeline", ["pcall", "v"], lambda: h["pipe"](idx), series_is(1.0), ["pipe"])
    add("pipeline@rate", ["pcall", "vr"], lambda: h["pipe_rate"](idx), series_is(yearly, 1e-12), ["pipe_rate"])
    add("pipeline@get_value", ["pcall", "v"], lambda: h["pipe_got"](idx), series_is(1.0), ["pipe_got"])
    add("pipeline@skip_post", ["pcall", "v"], lambda: h["pipe"](idx, skip_post_processor=True), series_is(1.0), ["pipe"])
    add("pipeline@rate_skip_post", ["pcall", "vr"], lambda: h["pipe_rate"](idx, skip_post_processor=True), series_is(0.5), ["pipe_rate"])
    add("pipeline@early", ["pcall", "w"], lambda: h["pipe_early"](idx), series_is(5.0), ["pipe_early"])
    add("pipeline@kw_registered", ["pcall", "vk"], lambda: h["pipe_kw"](idx), series_is(4.0), ["pipe_kw"])
    add("pipeline@union", ["pcall", "vu"], lambda: h["pipe_union"](idx), series_is(0.25), ["pipe_union"])
    add("pipeline@manager", ["pcall", "vm"], lambda: h["pipe_mgr"](idx), series_is(6.0), ["pipe_mgr"])
    add("pipeline@direct", ["pcall", "v"], lambda: h["pipe"]._call(idx), series_is(1.0), ["pipe"])
    add("pipeline@bound", ["pcall", "v"], lambda: h["pipe_call_bound"](idx), series_is(1.0), ["pipe_call_bound"])
    # fetched at call time: `get_value` carries no constraint, the object it returns does
    add("pipeline@get_value_now", ["pcall", "v"], lambda: b.value.get_value("v")(idx), series_is(1.0), ["pipe"])
    if isinstance(p.sim, InteractiveContext):
        add("pipeline@context", ["pcall", "v"], lambda: p.sim.get_value("v")(idx), series_is(1.0), ["pipe"])
    add("pipeline@modified_first", ["pcall", "mf"], lambda: h["pipe_mf"](idx), series_is(2.0), ["pipe_mf"])
    add("pipeline@framework", ["pcall", "simulant_step_size"], lambda: h["pipe_fw"](idx),
        lambda r: None if list(r.index) == list(idx) else f"index {list(r.index)}, asked for {list(idx)}", ["pipe_fw"])
    add("pipeline!bad", ["pcall", "boom"], lambda: h["pipe_boom"](idx), None, ["pipe_boom"])
    add("pipeline@unsourced", ["pcall", "nosrc"], lambda: h["pipe_unsourced"](idx), None, ["pipe_unsourced"])
    if "pipe_pre" in h:
        add("pipeline@pre_setup", ["pcall", "v"], lambda: h["pipe_pre"](idx), series_is(1.0), ["pipe_pre"])
    if not ctx.startswith("nested"):
        add("pipeline@nest", ["pcall", "nest"], lambda: h["pipe_nest"](idx), series_is(2.0), ["pipe_nest"])
    else:   # the same object is in progress: a re-entrant call
        add("pipeline@reentrant", ["pcall", "nest"], lambda: h["pipe_nest"](idx), series_is(2.0), ["pipe_nest"])

    # ------------------------------------------------------------------ streams
    def draws_ok(r):
        if not isinstance(r, pd.Series):
            return f"returned {type(r).__name__}"
        if list(r.index) != list(idx):
            return f"index {list(r.index)}, asked for {list(idx)}"
        return None if all(0.0 <= float(x) < 1.0 for x in r) else "draws outside [0, 1)"

    def index_is(want):
        def chk(r):
            return None if list(r) == list(want) else f"returned {list(r)}, expected {list(want)}"
        return chk

    def all_equal(v):
        def chk(r):
            if list(r.index) != list(idx):
                return f"index {list(r.index)}, asked for {list(idx)}"
            return None if all(x == v for x in r) else f"values {list(r)[:3]}, expected {v}"
        return chk

    for suffix, key, sid in (("", "stream", "stream"), ("@crn", "stream_crn", "stream_crn"), ("@kw_stream", "stream_kw", "stream_kw"),
                             ("@manager", "stream_mgr", "stream_mgr")):
        full = suffix in ("", "@crn")
        s = functools.partial(lambda k: h[k], key)
        if form == "kw":
            add("get_draw" + suffix, ["call", sid, "get_draw", empty], functools.partial(lambda s: s().get_draw(index=idx, additional_key=None), s), draws_ok, [key])
        else:
            add("get_draw" + suffix, ["call", sid, "get_draw", empty], functools.partial(lambda s: s().get_draw(idx), s), draws_ok, [key])
        if not full:
            continue
        if form == "kw":
            add("filter_for_probability" + suffix, ["call", sid, "filter_for_probability", empty],
                functools.partial(lambda s: s().filter_for_probability(population=idx, probability=1.0), s), index_is(idx), [key])
            add("choice" + suffix, ["call", sid, "choice", empty],
                functools.partial(lambda s: s().choice(index=idx, choices=[1, 2], p=[0.0, 1.0]), s), all_equal(2), [key])
        else:
            add("filter_for_probability" + suffix, ["call", sid, "filter_for_probability", empty],
                functools.partial(lambda s: s().filter_for_probability(idx, 1.0), s), index_is(idx), [key])
            add("choice" + suffix, ["call", sid, "choice", empty],
                functools.partial(lambda s: s().choice(idx, [1, 2]), s), None, [key])
        add("filter_for_rate" + suffix, ["call", sid, "filter_for_rate", empty],
            functools.partial(lambda s: s().filter_for_rate(idx, 0.0), s), index_is([]), [key])
        add("sample_from_distribution" + suffix, ["call", sid, "sample_from_distribution", empty],
            functools.partial(lambda s: s().sample_from_distribution(idx, ppf=ppf_two), s), all_equal(2.0), [key])
    add("choice@weights", ["call", "stream", "choice", empty],
        lambda: h["stream"].choice(idx, [1, 2], p=[0.0, 1.0], additional_key="k"), all_equal(2), ["stream"])
    add("get_draw@additional_key", ["call", "stream", "get_draw", empty], lambda: h["stream"].get_draw(idx, additional_key="k"),
        draws_ok, ["stream"])
    add("get_draw@bound", ["call", "stream", "get_draw", empty], lambda: h["draw_bound"](idx), draws_ok, ["draw_bound"])
    add("get_draw!bad", ["call", "stream", "get_draw", "0"], lambda: h["stream"].get_draw(None), None, ["stream"])

    # ------------------------------------------------------------------ lookup tables
    def frame_is(vals):
        def chk(r):
            if list(r.index) != list(idx):
                return f"index {list(r.index)}, asked for {list(idx)}"
            if len(idx) == 0:
                return None
            got = [tuple(float(x) for x in row) for row in r.itertuples(index=False)] if isinstance(r, pd.DataFrame) \
                else [(float(x),) for x in r]
            return None if all(g == tuple(vals) for g in got) else f"values {got[:2]}, the table was built from {vals}"
        return chk

    add("table", ["call", "table", "call", empty], lambda: h["table"](idx) if form != "kw" else h["table"](index=idx),
        frame_is([3.0]), ["table"])
    add("table@multi", ["call", "table_multi", "call", empty], lambda: h["table_multi"](idx), frame_is([1.0, 2.0]), ["table_multi"])
    add("table@categorical", ["call", "table_cat", "call", empty], lambda: h["table_cat"](idx), frame_is([2.0]), ["table_cat"])   # c == 1
    add("table@interpolated", ["call", "table_interp", "call", empty], lambda: h["table_interp"](idx),
        frame_is([1.0]) if p.npop <= 5 else None, ["table_interp"])          # k == simulant number < 5
    add("table@manager", ["call", "table_mgr", "call", empty], lambda: h["table_mgr"](idx), frame_is([8.0]), ["table_mgr"])
    add("table@component", ["call", "table_comp", "call", empty], lambda: h["table_comp"](idx), frame_is([9.0]), ["table_comp"])
    add("table@config", ["call", "table_cfg", "call", empty], lambda: h["table_cfg"](idx), frame_is([5.0]), ["table_cfg"])
    add("table@direct", ["call", "table", "call", empty], lambda: h["table"].call(idx), frame_is([3.0]), ["table"])
    add("table!bad", ["call", "table_cat", "call", "0"], lambda: h["table_cat"](pd.Index([10 ** 6])), None, ["table_cat"])

    # ------------------------------------------------------------------ simulant registration, context services
    # keys with a fractional part (whole-number float keys collide in IndexMap._hash and every collision costs a re-hash)
    def reg_frame(j):
        return pd.DataFrame({"k": [0.001 * n + 0.0001 * j]}, index=[100000 * j + n])
    add("register_simulants", ["svc", RA, "self.register_simulants"], lambda: b.randomness.register_simulants(reg_frame(1)))
    add("register_simulants@kw", ["svc", RA, "self.register_simulants"],
        lambda: b.randomness.register_simulants(simulants=reg_frame(2)))
    add("register_simulants@manager", ["svc", RA, "self.register_simulants"],
        lambda: b.randomness._manager.register_simulants(reg_frame(3)))
    add("register_simulants!bad", ["svc", RA, "self.register_simulants"], lambda: b.randomness.register_simulants(None))
    if p.sim is not None:
        def pop_check(untracked):
            def chk(r):
                want = [i for i in range(p.npop) if untracked or i not in tracked_out]
                if not isinstance(r, pd.DataFrame):
                    return f"returned {type(r).__name__}"
                return None if sorted(int(i) for i in r.index) == want or init_ctx else f"rows {list(r.index)}, expected {want}"
            return chk
        add("context.get_population", ["svc", EN, "self.get_population"], lambda: p.sim.get_population(True), pop_check(True))
        add("context.get_population@kw", ["svc", EN, "self.get_population"], lambda: p.sim.get_population(untracked=False), pop_check(False))

    # ------------------------------------------------------------------ the simulant creator (a writer since F35), every route
    # count 0: where the call is admitted it runs every initializer on an empty index and changes nothing; where it is refused
    # it must be refused BEFORE the state table grows ("refused" means not performed). Not issued from inside an initializer
    # at a birth (a creation nested in a creation resets the manager's `adding_simulants` flag under the outer one).
    if not ctx.startswith("init@"):
        popman = b.population._manager

        # one simulant where the property refuses the call (nothing may happen), none where it admits it
        count = 0 if st in ("population_creation",) + tuple(LOOP) else 1

        def rows():
            return -1 if popman._population is None else len(popman._population)

        def creator_call(get):
            def go():
                before = rows()
                try:
                    r = get()(count, {"probe_creator": tag})
                finally:
                    after = rows()
                    if after != before and st not in LOOP:
                        p.creator_grew.append(f"{st} [{ctx}]: the state table went from {before} to {after} rows")
                return r
            return go
        zero = lambda r: None if len(r) == 0 else f"created {list(r)}, asked for 0 simulants"    # noqa: E731
        cop = ["create", str(count)]
        add("create_simulants", cop, creator_call(lambda: h["creator"]), zero, ["creator"])
        add("create_simulants@manager", cop, creator_call(lambda: h["creator_mgr"]), zero, ["creator_mgr"])
        add("create_simulants@attribute", cop, creator_call(lambda: popman._create_simulants), zero)
        add("create_simulants@kw", cop, creator_call(lambda: (lambda c, d: h["creator"](count=c, population_configuration=d))),
            zero, ["creator"])
        if p.sim is not None and hasattr(p.sim, "simulant_creator"):
            add("create_simulants@engine", cop, creator_call(lambda: p.sim.simulant_creator), zero)

    # ------------------------------------------------------------------ run-time constraints added by the user
    for label, oid, m, mode, states in p.custom:
        if label == "holder.m1":
            add("custom:" + label, ["call", oid, m, "0"], lambda: p.holder.probe_m1(2, y=3),
                lambda r: None if r == 5 else f"returned {r}, expected 5")
        elif label == "holder.m2":
            add("custom:" + label, ["call", oid, m, "0"], lambda: p.holder.probe_m2(), lambda r: None if r == 7 else f"returned {r}, expected 7")
        elif label in ("helper1.m", "helper3.m"):
            add("custom:" + label, ["call", oid, m, "0"], functools.partial(lambda o: h[o].m(4, 1), oid),
                lambda r: None if r == 5 else f"returned {r}, expected 5")
        elif label == "sub_user.get":
            add("custom:" + label, ["call", oid, m, empty], lambda: h["sub_user"].get(idx), view_check(["a"], True), ["sub_user"])
    if "helper2" in h:
        # an object that only SHARES THE NAME of a constrained one carries no constraint itself
        add("custom:helper2.m", ["call", "helper2", "m", "0"], lambda: h["helper2"].m(1, 1), lambda r: None if r == 2 else f"returned {r}")
    return C


# --------------------------------------------------------------------------------------------- driving one simulation

def configuration(case):
    day0 = 1
    cfg = {"population": {"population_size": case["pop"]},
           "time": {"start": {"year": 2020, "month": 1, "day": day0},
                    "end": {"year": 2020, "month": 1, "day": day0 + case["steps"] * case.get("step_days", 1)},
                    "step_size": case.get("step_days", 1)}}
    # a small index map: every draw samples `map_size` numbers, every registration hashes against it
    cfg["randomness"] = {"map_size": case.get("map_size", 1009)}
    if case["crn"]:
        cfg["randomness"]["key_columns"] = ["k"]
    if case.get("artifact_path"):
        cfg["input_data"] = {"artifact_path": case["artifact_path"]}
    return cfg


def components(case, p):
    holder, caller, other = Holder(p), Caller(p), Other(p)
    order = case.get("order", "hco")
    by = {"h": holder, "c": caller, "o": other}
    comps = [by[ch] for ch in order]
    if case.get("as_sub"):
        comps = [Parent(comps)]
    return comps


def after_setup_hooks(p):
    """handles that exist only once the component's setup has returned"""
    h = p.h
    if p.holder is not None and p.holder._population_view is not None and "view_comp" not in h:
        back = p.cur
        p.mark("setup")
        h["view_comp"] = p.holder.population_view
        p.new(["view", "view_comp"])
        h["sub_comp"] = h["view_comp"].subview(["k"])
        p.new(["subview", "sub_comp", "view_comp"])
        h["view_popmgr"] = h["b"].population._manager._view       # the population manager's own view of `tracked`
        p.new(["view", "view_popmgr"])
        if back is not None:
            p.mark(back)


def outside(p, st):
    """the harness calls the services itself, between two methods of the context (no listener is running)"""
    if "outside" in p.case.get("contexts", []):
        after_setup_hooks(p)
        p.caller.matrix(st, "outside")


def drive(case, p, sim_factory):
    """runs the whole simulation; returns the (possibly restored) probe state"""
    drive_kind = case.get("drive", "manual")
    steps = case["steps"]
    restore = case.get("restore")
    if drive_kind == "run_simulation":
        sim = sim_factory(SimulationContext)
        p.sim = sim
        sim.run_simulation()
        return p
    if drive_kind in ("manual", "run_backup"):
        sim = sim_factory(SimulationContext)
        p.sim = sim
        if "outside" in case.get("contexts", []):
            # state `initialization`: only the context's own services exist
            p.mark("initialization")
            for label, f in (("context.get_population", lambda: sim.get_population(True)),):
                out, _ = attempt(f)
                p.events.append({"e": "cell", "svc": label, "st": "initialization", "ctx": "outside",
                                 "op": ["svc", EN, "self.get_population"], "out": out, "chk": None})
        sim.setup()
        outside(p, "post_setup")
        sim.initialize_simulants()
        outside(p, "population_creation")
        if drive_kind == "run_backup":
            d = tempfile.mkdtemp(prefix="c07bk")
            try:
                sim.run(backup_path=os.path.join(d, "b.pkl"), backup_freq=1e-9)
            finally:
                shutil.rmtree(d, ignore_errors=True)
        else:
            for k in range(steps):
                if restore and restore["after"] == k:
                    p = do_restore(p, restore, steps - k)
                    if restore.get("fresh"):
                        return p
                    sim = p.sim
                sim.step()
                outside(p, "collect_metrics")
        sim.finalize()
        outside(p, "simulation_end")
        sim.report(print_results=False)
        outside(p, "report")
        return p
    # interactive drives
    if drive_kind == "interactive_nosetup":
        sim = sim_factory(InteractiveContext, setup=False)
        p.sim = sim
        p.mark("initialization")
        # a pipeline fetched through the context BEFORE setup: the very object that `holder` sources later
        p.h["pipe_pre"] = sim.get_value("v")
        p.new(["value", "v"])
        for label, op, f in (("context.get_population", ["svc", EN, "self.get_population"], lambda: sim.get_population()),
                             ("pipeline@pre_setup", ["pcall", "v"], lambda: p.h["pipe_pre"](pd.Index([0])))):
            out, _ = attempt(f)
            p.events.append({"e": "cell", "svc": label, "st": "initialization", "ctx": "outside", "op": op, "out": out, "chk": None})
        sim.setup()
    else:
        sim = sim_factory(InteractiveContext)
        p.sim = sim
    outside(p, "population_creation")
    how = case.get("interactive", "step")
    if how == "step":
        for _ in range(steps):
            sim.step()
            outside(p, "collect_metrics")
    elif how == "take":
        sim.take_steps(steps, with_logging=False)
        outside(p, "collect_metrics")
    elif how == "run_until":
        sim.run_until(sim._clock.stop_time, with_logging=False)
        outside(p, "collect_metrics")
    else:
        sim.run(with_logging=False)
        outside(p, "collect_metrics")
    sim.finalize()
    outside(p, "simulation_end")
    sim.report(print_results=False)
    outside(p, "report")
    return p


def do_restore(p, restore, remaining):
    """dill backup of the whole context (as `SimulationContext.write_backup` does) and restore, here or in a fresh process"""
    import dill
    d = tempfile.mkdtemp(prefix="c07rs")
    try:
        path = os.path.join(d, "backup.pkl")
        p.sim.write_backup(path)
        if not restore.get("fresh"):
            with open(path, "rb") as f:
                sim2 = dill.load(f)
            p2 = [c for c in all_components(sim2) if c.name == "caller"][0].probe
            p2.notes.append("restored-in-process")
            # the ORIGINAL context is finished off first (ends in `report`): the restored one must not see its state
            if restore.get("finish_original"):
                try:
                    p.quiet = True
                    p.case = dict(p.case, contexts=[], late_views=False)
                    p.sim.step()
                    p.sim.finalize()
                    p.sim.report(print_results=False)
                except Exception as e:  # noqa: BLE001
                    p2.notes.append(f"original failed: {type(e).__name__}")
            return p2
        spec = os.path.join(d, "spec.json")
        with open(spec, "w") as f:
            json.dump({"remaining": remaining}, f)
        env = dict(os.environ, PYTHONHASHSEED=str(restore.get("hashseed", 7)))
        r = subprocess.run([sys.executable, "-m", "vcheck.c07_probes", path, spec], capture_output=True, text=True, env=env,
                           cwd=os.path.dirname(os.path.dirname(os.path.abspath(__file__))), timeout=120)
        if r.returncode != 0:
            raise RuntimeError("restore process failed: " + r.stderr[-800:])
        data = json.loads(r.stdout)
        p.events = data["events"]
        p.fired = data["fired"]
        p.mod_admitted = data["mod_admitted"]
        p.notes = data["notes"] + ["restored-in-fresh-process"]
        p.final = data["final"]
        return p
    finally:
        shutil.rmtree(d, ignore_errors=True)


def all_components(sim):
    return list(sim._component_manager._components)


def finish(p):
    """what the oracle needs besides the cells (effects of the registrations, final value of the modified pipeline)"""
    fin = {"mt": None, "mod_admitted": p.mod_admitted, "fired": dict(p.fired), "creator_grew": list(p.creator_grew)}
    try:
        if "pipe_mt" in p.h:
            fin["mt"] = float(p.h["pipe_mt"](pd.Index([0])).iloc[0])
    except Exception as e:  # noqa: BLE001
        fin["mt"] = f"{type(e).__name__}"
    return fin


def run_prior(prior):
    """an EARLIER simulation in the same process, differently configured, stopped at some point of its life;
    returns how far it really got (the check reports it: history that silently failed is no history)"""
    case = dict(prior["case"])
    p = ProbeState(case)
    SimulationContext._clear_context_cache()
    comps = components(case, p)
    until = prior.get("until", "report")
    try:
        if prior.get("interactive"):
            sim = InteractiveContext(components=comps, configuration=configuration(case), logging_verbosity=0, setup=False)
        else:
            sim = SimulationContext(components=comps, configuration=configuration(case), logging_verbosity=0)
        p.sim = sim
        if until == "initialization":
            return "prior-reached:initialization"
        SimulationContext.setup(sim)
        if until == "post_setup":
            return "prior-reached:post_setup"
        sim.initialize_simulants()
        if until == "population_creation":
            return "prior-reached:population_creation"
        sim.step()
        if until == "collect_metrics":
            return "prior-reached:collect_metrics"
        sim.finalize()
        if until == "simulation_end":
            return "prior-reached:simulation_end"
        sim.report(print_results=False)
        return "prior-reached:report"
    except Exception as e:  # noqa: BLE001 - the earlier simulation is only history
        return f"prior-failed:{type(e).__name__}"


def run_case(case):
    from .c07_defaults import normalise
    case = normalise(case)
    prior_notes = [run_prior(prior) for prior in case.get("prior", []) or []]
    SimulationContext._clear_context_cache()
    tmp = None
    if case.get("artifact"):
        from vivarium.framework.artifact import Artifact
        tmp = tempfile.mkdtemp(prefix="c07art")
        case = dict(case, artifact_path=os.path.join(tmp, "probe.hdf"))
        art = Artifact(case["artifact_path"])
        art.write("probe.data", pd.DataFrame({"sex": ["Female", "Male"], "value": [1.0, 2.0]}).set_index("sex"))
        art.write("probe.number", 7.5)
    try:
        return _run_main(case, prior_notes)
    finally:
        if tmp:
            shutil.rmtree(tmp, ignore_errors=True)


def _run_main(case, prior_notes):
    p = ProbeState(case)
    p.notes += prior_notes
    comps = components(case, p)

    def factory(cls, **kw):
        return cls(components=comps, configuration=configuration(case), logging_verbosity=0, **kw)

    # handles that only exist after `Component.setup` returned are picked up in post_setup by the caller
    err = None
    try:
        p = drive(case, p, factory)
    except Exception as e:  # noqa: BLE001
        err = f"{type(e).__name__}: {e}"[:400]
    final = getattr(p, "final", None) or finish(p)
    return {"events": p.events, "error": err, "final": final, "notes": p.notes}


def main():
    """fresh-process half of a restore: load the backup, continue to the end, print the recorded program"""
    import dill
    path, spec = sys.argv[1], json.load(open(sys.argv[2]))
    with open(path, "rb") as f:
        sim = dill.load(f)
    p = [c for c in all_components(sim) if c.name == "caller"][0].probe
    p.sim = sim
    for _ in range(spec["remaining"]):
        sim.step()
        outside(p, "collect_metrics")
    sim.finalize()
    outside(p, "simulation_end")
    sim.report(print_results=False)
    outside(p, "report")
    json.dump({"events": p.events, "fired": p.fired, "mod_admitted": p.mod_admitted, "notes": p.notes, "final": finish(p)},
              sys.stdout, default=str)


if __name__ == "__main__":
    main()
