"""Importable probe components / managers for the C20 check (`vcheck/props/c20.py`).

They must live in an importable module because one of the routes by which components reach a
simulation is the `components:` block of a model specification, which the
`ComponentConfigurationParser` turns into objects from strings such as
`vcheck.c20_probes.Probe('7')` (string arguments only). Everything the probes need to know is looked
up in `STATE`, which the harness fills before each simulation:

    specs     node id (str) -> node spec {"id", "n", "d", "c", "sub", "defs"}
    log       list the probes append to
    probes    key paths every probe reads through builder.configuration in setup
    attempts  [[name, path, value, how]] writes tried from setup
    delete / deleter   F18 probe
    read / write / delete_fn   helper callables supplied by the harness
"""
from __future__ import annotations

import json

from . import impl

impl.load()
from vivarium import Component  # noqa: E402
from vivarium.manager import Manager  # noqa: E402

STATE: dict = {}
_CLASS_CACHE: dict = {}          # canonical defaults -> class; deliberately process-wide (class-level state must be able to leak)


def reset(**kw):
    STATE.clear()
    STATE.update(kw)
    STATE.setdefault("log", [])
    STATE.setdefault("memo", {})
    STATE.setdefault("handles", [])


def _nest(pairs):
    out = {}
    for path, v in pairs:
        node = out
        parts = path.split(".")
        for k in parts[:-1]:
            node = node.setdefault(k, {})
        node[parts[-1]] = v
    return out


class Probe(Component):
    """defaults through the `configuration_defaults` property"""

    def __init__(self, node_id: str):
        super().__init__()
        self.node_id = str(node_id)
        self.spec = STATE["specs"][self.node_id]
        self._children = None
        self.accesses = 0

    @property
    def name(self):
        return self.spec["n"]

    @property
    def configuration_defaults(self):
        return _nest(self.spec["d"])

    def _make_children(self):
        return [build(STATE["specs"][str(c)], fresh=self.spec.get("sub") == "fresh") for c in self.spec["c"]]

    @property
    def sub_components(self):
        self.accesses += 1
        kind = self.spec.get("sub", "list")
        if kind == "fresh":                       # created lazily, NEW objects on every access
            return self._make_children()
        if self._children is None:
            self._children = self._make_children()
        if kind == "tuple":
            return tuple(self._children)
        if kind == "gen":
            return (c for c in self._children)
        if kind == "copy":                        # the same objects in a new list on every access
            return list(self._children)
        return self._children

    def setup(self, builder):
        st = STATE
        seen = [st["read"](builder.configuration, p) for p in st["probes"]]
        tried = [[self.name, p, st["write"](builder.configuration, p, v, how)] for n, p, v, how in st["attempts"] if n == self.name]
        st["log"].append(["comp", self.name, seen, tried])
        st["handles"].append(builder.configuration)
        if st.get("deleter") == self.name and st.get("delete"):
            st.setdefault("deleted", []).append([self.name, st["delete"][0], st["delete_fn"](builder.configuration, *st["delete"])])


def class_for(defaults_pairs):
    """a Probe subclass declaring its defaults as the class attribute CONFIGURATION_DEFAULTS; one class per distinct
    defaults for the whole process, registered in this module so that the parser can import it by path"""
    key = json.dumps(defaults_pairs, sort_keys=False)
    if key not in _CLASS_CACHE:
        name = f"K{len(_CLASS_CACHE)}"
        cls = type(name, (Probe,), {"CONFIGURATION_DEFAULTS": _nest(defaults_pairs), "__module__": __name__,
                                    "configuration_defaults": Component.configuration_defaults})
        globals()[name] = cls
        _CLASS_CACHE[key] = cls
    return _CLASS_CACHE[key]


def class_of(spec):
    return class_for(spec["d"]) if spec.get("defs") == "class_attr" else Probe


def build(spec, fresh=False):
    """object for a node; the same id gives the same object unless the parent creates its children afresh"""
    memo = STATE["memo"]
    if fresh:
        return class_of(spec)(str(spec["id"]))
    if spec["id"] not in memo:
        memo[spec["id"]] = class_of(spec)(str(spec["id"]))
    return memo[spec["id"]]


def spec_string(spec) -> str:
    """what the `components:` block says for this node (relative to the package path `vcheck.c20_probes`)"""
    return f"{class_of(spec).__name__}('{spec['id']}')"


class ProbeManager(Manager):
    """an optional plugin (plugin configuration `optional:`): a manager with a name and defaults of the harness's choice"""

    @property
    def name(self):
        return STATE.get("opt_manager", {}).get("n", "probe_manager")

    @property
    def configuration_defaults(self):
        return _nest(STATE.get("opt_manager", {}).get("d", []))

    def setup(self, builder):
        st = STATE
        seen = [st["read"](builder.configuration, p) for p in st["probes"]]
        tried = [[self.name, p, st["write"](builder.configuration, p, v, how)] for n, p, v, how in st["attempts"] if n == self.name]
        st["log"].append(["optmgr", self.name, seen, tried])
