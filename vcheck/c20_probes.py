"""Importable probe components / managers for the C20 check (`vcheck/props/c20.py`).

They must live in an importable module because one of the routes by which components reach a
simulation is the `components:` block of a model specification, which the
`ComponentConfigurationParser` turns into objects from strings such as
`vcheck.c20_probes.Probe('7')` (string arguments only). Everything the probes need to know is looked
up in `STATE`, which the harness fills before each simulation:

    specs     node id (str) -> node spec {"id", "n", "d", "c", "sub", "defs"}
    log       list the probes append to
    probes    key paths every probe reads through builder.configuration in setup
    attempts  [[name, path, value, how]] writes tried from setup
    delete / deleter   F18 probe
    setup_boom  name of the probe whose `setup` raises ProbeBoom (after logging); node spec "boom": "sub" / "defs" makes
                the `sub_components` / `configuration_defaults` property of that probe raise
    read / write / delete_fn   helper callables supplied by the harness
"""
from __future__ import annotations

import json

from . import impl

impl.load()
from vivarium import Component  # noqa: E402
from vivarium.manager import Manager  # noqa: E402

STATE: dict = {}                 # the state of the simulation that is being built / driven right now
_CLASS_CACHE: dict = {}          # canonical defaults -> class; deliberately process-wide (class-level state must be able to leak)


def reset(**kw):
    """a NEW state object for the next simulation; every probe keeps a reference to the state it was created under, so
    several simulations can be alive at once (and be driven alternately, see `use`) without sharing anything here"""
    global STATE
    STATE = dict(kw)
    STATE.setdefault("log", [])
    STATE.setdefault("memo", {})
    STATE.setdefault("handles", [])
    STATE.setdefault("dicts", [])
    return STATE


def use(state):
    """make `state` the current one (before building objects for / constructing the simulation it belongs to)"""
    global STATE
    STATE = state
    return STATE


_BY_CONFIGURATION: dict = {}     # id(configuration tree of a simulation) -> (tree, state of that simulation)


def attach(configuration, state):
    """tell the probes which state belongs to the simulation whose builder hands out `configuration`: an object may be
    reused in a later simulation, or two simulations may be alive at once – what an object logs goes to the simulation that
    is setting it up"""
    if len(_BY_CONFIGURATION) > 64:
        _BY_CONFIGURATION.clear()
    _BY_CONFIGURATION[id(configuration)] = (configuration, state)


def state_of(builder, default):
    hit = _BY_CONFIGURATION.get(id(builder.configuration))
    return hit[1] if hit is not None and hit[0] is builder.configuration else default


def _nest(pairs):
    out = {}
    for path, v in pairs:
        node = out
        parts = path.split(".")
        for k in parts[:-1]:
            node = node.setdefault(k, {})
        node[parts[-1]] = v
    return out


class ProbeBoom(Exception):
    """raised ON PURPOSE by a probe (lesson 16): by its `sub_components` / `configuration_defaults` property (node spec
    "boom": "sub" / "defs") or at the end of its `setup` (state "setup_boom" = name); the harness catches it where a caller
    could and carries on with the same context"""


class Probe(Component):
    """defaults through the `configuration_defaults` property"""

    def __init__(self, node_id: str):
        super().__init__()
        self.node_id = str(node_id)
        self.st = STATE
        self.spec = STATE["specs"][self.node_id]
        self._children = None
        self._same = None
        self.accesses = 0

    @property
    def name(self):
        return self.spec["n"]

    @property
    def configuration_defaults(self):
        if self.spec.get("boom") == "defs":
            raise ProbeBoom(f"configuration_defaults of {self.name}")
        if self.spec.get("defs") == "property_same":          # the SAME dict object on every access
            if self._same is None:
                self._same = _nest(self.spec["d"])
                self.st["dicts"].append([self.name, self._same, _nest(self.spec["d"])])
            return self._same
        return _nest(self.spec["d"])

    def _make_children(self):
        return [build(self.st["specs"][str(c)], fresh=self.spec.get("sub") == "fresh", st=self.st) for c in self.spec["c"]]

    def children_list(self):
        if self._children is None:
            self._children = self._make_children()
        return self._children

    @property
    def sub_components(self):
        self.accesses += 1
        if self.spec.get("boom") == "sub":
            raise ProbeBoom(f"sub_components of {self.name}")
        kind = self.spec.get("sub", "list")
        holes = self.spec.get("holes") or []
        if kind == "fresh":                       # created lazily, NEW objects on every access
            seq = self._make_children()
        elif self.spec.get("share") is not None:  # the very same LIST OBJECT another parent returns
            seq = build(self.st["specs"][str(self.spec["share"])], st=self.st).children_list()
        else:
            seq = self.children_list()
        if holes:                                 # None / empty list / empty tuple among the sub-components
            seq = with_holes(seq, holes)
        if kind == "tuple":
            return tuple(seq)
        if kind == "gen":
            return (c for c in seq)
        if kind == "copy":                        # the same objects in a new list on every access
            return list(seq)
        return seq

    def setup(self, builder):
        st = state_of(builder, self.st)
        seen = [st["read"](builder.configuration, p) for p in st["probes"]]
        tried = [[self.name, p, st["write"](builder.configuration, p, v, how)] for n, p, v, how in st["attempts"] if n == self.name]
        st["log"].append(["comp", self.name, seen, tried])
        st["handles"].append(builder.configuration)
        if st.get("deleter") == self.name and st.get("delete"):
            st.setdefault("deleted", []).append([self.name, st["delete"][0], st["delete_fn"](builder.configuration, *st["delete"])])
        if st.get("setup_boom") == self.name:     # after it has logged, read and tried its writes
            raise ProbeBoom(f"setup of {self.name}")


def with_holes(seq, holes):
    """insert None / [] / () placeholders into a sequence of components"""
    out = list(seq)
    for idx, kind in holes:
        out.insert(min(idx, len(out)), None if kind == "none" else [] if kind == "elist" else ())
    return out


# container / truth-value / equality protocols a component class may legally define (the library's own
# state_machine.TransitionSet defines __len__, __iter__ and __hash__)
class _Len0:
    def __len__(self):
        return 0


class _Len3:
    def __len__(self):
        return 3


class _BoolFalse:
    def __bool__(self):
        return False


class _BoolTrue:
    def __bool__(self):
        return True


class _Len0BoolTrue:                 # empty container that says it is truthy
    def __len__(self):
        return 0

    def __bool__(self):
        return True


class _Len3BoolFalse:                # non-empty container that says it is falsy
    def __len__(self):
        return 3

    def __bool__(self):
        return False


class _IterLen0:                     # like an empty TransitionSet: iterable, sized, identity hash
    def __iter__(self):
        return iter(())

    def __len__(self):
        return 0

    def __hash__(self):
        return hash(id(self))


class _EqName:                       # equal to everything with the same name
    def __eq__(self, other):
        return getattr(other, "name", None) == self.name

    def __hash__(self):
        return hash(self.name)


class _EqNever:                      # not even equal to itself
    def __eq__(self, other):
        return False

    def __hash__(self):
        return id(self)


class _EqAlways:                     # equal to anything
    def __eq__(self, other):
        return True

    def __hash__(self):
        return 0


PROTOS = {"plain": None, "len0": _Len0, "len3": _Len3, "bool_false": _BoolFalse, "bool_true": _BoolTrue,
          "len0_bool_true": _Len0BoolTrue, "len3_bool_false": _Len3BoolFalse, "iter_len0": _IterLen0,
          "eq_name": _EqName, "eq_never": _EqNever, "eq_always": _EqAlways}
FALSY_PROTOS = ("len0", "bool_false", "len3_bool_false", "iter_len0")


def class_of(spec):
    """the class for a node: Probe, plus the protocol mix-in, plus CONFIGURATION_DEFAULTS as a class attribute when the
    node declares its defaults that way; one class per combination for the whole process, registered in this module so
    that the component configuration parser can import it by path"""
    proto = spec.get("proto", "plain")
    attr = spec.get("defs") == "class_attr"
    if proto == "plain" and not attr:
        return Probe
    key = json.dumps([proto, spec["d"] if attr else None], sort_keys=False)
    if key not in _CLASS_CACHE:
        name = f"K{len(_CLASS_CACHE)}"
        bases = ((PROTOS[proto],) if PROTOS[proto] else ()) + (Probe,)
        body = {"__module__": __name__}
        if attr:
            body["CONFIGURATION_DEFAULTS"] = _nest(spec["d"])
            body["configuration_defaults"] = Component.configuration_defaults
        cls = type(name, bases, body)
        globals()[name] = cls
        _CLASS_CACHE[key] = cls
    return _CLASS_CACHE[key]


def _observe(obj):
    """library components do not log: wrap the bound `setup` of the object and of everything below it"""
    def w(builder, _orig=obj.setup, _n=obj.name, _st=STATE):
        st = state_of(builder, _st)
        st["log"].append(["comp", _n, [st["read"](builder.configuration, p) for p in st["probes"]], []])
        return _orig(builder)
    obj.setup = w
    for c in obj.sub_components:
        _observe(c)


def build_machine(spec):
    """a real vivarium.framework.state_machine.Machine: states, their transition sets (EMPTY – hence falsy – for every
    terminal state) and transitions, from the children of the node"""
    from vivarium.framework.state_machine import Machine, State, TransientState, Transition
    specs = STATE["specs"]
    spec = specs[str(spec["id"])]
    states = {}
    order = []
    for cid in spec["c"]:
        st = specs[str(cid)]
        _, sid, transient = st["lib"]
        obj = (TransientState if transient else State)(sid)
        states.setdefault(sid, obj)
        order.append((st, obj))
    for st, obj in order:
        tset = specs[str(st["c"][0])]
        for tid in tset["c"]:
            _, src, dst = specs[str(tid)]["lib"]
            obj.add_transition(Transition(obj, states[dst]))
    m = Machine(spec["lib"][1], states=[o for _, o in order])
    _observe(m)
    return m


def build(spec, fresh=False, st=None):
    """object for a node; the same id gives the same object unless the parent creates its children afresh"""
    global STATE
    st = STATE if st is None else st
    memo = st["memo"]
    if not fresh and spec["id"] in memo:
        return memo[spec["id"]]
    prev, STATE = STATE, st                       # objects are created under the state of THEIR simulation
    try:
        obj = build_machine(spec) if spec.get("lib") else class_of(spec)(str(spec["id"]))
    finally:
        STATE = prev
    if not fresh:
        memo[spec["id"]] = obj
    return obj


def spec_string(spec) -> str:
    """what the `components:` block says for this node (relative to the package path `vcheck.c20_probes`)"""
    return f"{class_of(spec).__name__}('{spec['id']}')"


class ProbeManager(Manager):
    """an optional plugin (plugin configuration `optional:`): a manager with a name and defaults of the harness's choice"""

    def __init__(self):
        self.st = STATE                           # created by the plugin manager inside the constructor of its simulation

    @property
    def name(self):
        return self.st.get("opt_manager", {}).get("n", "probe_manager")

    @property
    def configuration_defaults(self):
        return _nest(self.st.get("opt_manager", {}).get("d", []))

    def setup(self, builder):
        st = state_of(builder, self.st)
        seen = [st["read"](builder.configuration, p) for p in st["probes"]]
        tried = [[self.name, p, st["write"](builder.configuration, p, v, how)] for n, p, v, how in st["attempts"] if n == self.name]
        st["log"].append(["optmgr", self.name, seen, tried])
        if st.get("setup_boom") == self.name:
            raise ProbeBoom(f"setup of manager {self.name}")
