"""./check <id> [--tier quick|thorough] [--replay path] | ./check --list | ./check --all"""
import argparse
import importlib
import os
import sys

from . import runner

IDS = [f"C{i:02d}" for i in range(1, 21)]


def get_prop(pid: str):
    mod = importlib.import_module(f"vcheck.props.{pid.lower()}")
    return mod.PROP


def main(argv=None) -> int:
    ap = argparse.ArgumentParser()
    ap.add_argument("id", nargs="?")
    ap.add_argument("--tier", default=os.environ.get("VERIF_TIER", "quick"), choices=["quick", "thorough"])
    ap.add_argument("--replay")
    ap.add_argument("--list", action="store_true")
    a = ap.parse_args(argv)
    if a.list:
        for i in IDS:
            try:
                get_prop(i)
                print(i)
            except ModuleNotFoundError:
                pass
        return 0
    try:
        seed = int(os.environ.get("VERIF_SEED", "0"))
    except ValueError:
        seed = 0
    prop = get_prop(a.id)
    if a.replay:
        return runner.run_replay(prop, a.replay)
    return runner.run_check(prop, a.tier, seed)


if __name__ == "__main__":
    sys.exit(main())
