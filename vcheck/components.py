"""Importable library of parametrised probe components for whole-simulation checks (C01, C18).

A *program spec* (JSON) selects and parametrises the components; `build(spec)` returns fresh instances,
`configuration(spec)` the configuration dict and `plugins(spec)` the plugin configuration.
Everything here is deterministic given the framework's randomness: components use no entropy of
their own. Classes are module-level so that `dill` can restore a backup in another process; every component
accepts its spec as a dict or as the hex-encoded JSON string the model-specification route needs
(`vcheck.components.Pop('7b22…')`, component arguments in a specification file are plain strings).

spec keys (all but the first block optional; an absent key means the behaviour of the first version of the library):
  clock: "datetime" | "simple"          step: days (datetime; may be fractional) | ticks (simple)
  n_steps: planned number of steps      pop: initial population size     seed: random_seed    additional_seed
  crn_keys: 0..3 (number of key columns; 0 = no CRN)      map_size      uid_kind: "float" | "int" (dtype of the key column uid)
  births: list of births per step (cycled)                birth_phase: listener channel used for births
  newborn: None | {"age0": sixteenths}  (births carry user data; newborn age = age0/16 + creation window fraction)
  pop_extra: None | {"dist": None | "ppf" | "scipy", "p2d": bool, "residual": None | "local" | "stored"}
  perm: bool    (components hand reversed indexes / reversed frames to streams, pipelines, tables and updates)
  mort: None | {"mods": k, "scale": sixteenths (through CONFIGURATION: mort.scale), "form": "rate" | "prob", "kinds": callables used as modifiers}
  disease: None | {"states": 2..4, "p": [sixteenths...], "self": bool, "back": bool, "excess": bool (modifier on mortality_rate from
            THIS component), "trig": None | {"at": step, "every": m} (triggered transition activated by the component), "transient": bool}
  stepmod: None | {"every": k, "mult": m, "vary": bool}   (per-simulant clocks: simulants with id % every == 0 ask for m * step)
  obs: None | {"strats": 0..3, "when": phase, "concat": bool, "defaults": [...], "values": 0..5 required value pipelines,
               "rich": bool (every other kind of observation / stratification), "cfg_excl": bool, "report": bool (Observer subclass)}
  extras: None | {"pafs": [...], "cat": bool (categorical table), "tables": bool (tables declared as configuration data_sources),
                  "ds": None | "name" | "pos" (Component.build_lookup_table with three value columns, consumed by name / by position),
                  "art": None | {"draw": 0..2, "via": "load" | "ds"} (needs spec["artifact_path"], see write_artifact),
                  "late": step | None, "private": bool, "foreign": bool}
  order: permutation hints for the component order
"""
from __future__ import annotations

import functools
import json

from . import impl

impl.load()

import numpy as np  # noqa: E402
import pandas as pd  # noqa: E402
from vivarium import Component  # noqa: E402
from vivarium.framework.randomness import RESIDUAL_CHOICE  # noqa: E402
from vivarium.framework.results import Observer  # noqa: E402
from vivarium.framework.state_machine import Machine, State, Transient, Transition, Trigger  # noqa: E402

YEAR = 365.25
START = (2020, 1, 1)


def decode(spec):
    """a spec as the component receives it: a dict, or hex-encoded JSON (model-specification route)"""
    if isinstance(spec, str):
        return json.loads(bytes.fromhex(spec).decode())
    return spec


def encode(spec) -> str:
    return json.dumps(spec, sort_keys=True).encode().hex()


def _is_dt(spec):
    return spec["clock"] == "datetime"


def _rev(x, spec):
    """reversed order (labels kept) when the program asks for permuted requests"""
    return x[::-1] if spec.get("perm") else x


class _Spec(Component):
    def __init__(self, spec):
        super().__init__()
        self.spec = decode(spec)


class _Ppf:
    """picklable percent-point function for sample_from_distribution"""

    def __init__(self, scale):
        self.scale = scale

    def __call__(self, draws, shift=0.0):
        return np.floor(draws * 64) / 64 * self.scale + shift


class Pop(_Spec):
    def __init__(self, spec):
        super().__init__(spec)
        self.step_no = 0
        # weights kept in component state (what a backup has to carry)
        self.weights = [0.5, RESIDUAL_CHOICE, 0.25] if (self.spec.get("pop_extra") or {}).get("residual") == "stored" else None

    @property
    def name(self):
        return "pop"

    @property
    def columns_created(self):
        cols = ["age", "sex", "entrance_time", "color", "uid"]
        if (self.spec.get("pop_extra") or {}).get("dist"):
            cols.append("bmi")
        return cols

    def setup(self, builder):
        self.creator = builder.population.get_simulant_creator()
        self.crn = builder.randomness.get_stream("pop_crn", initializes_crn_attributes=True)
        self.rs = builder.randomness.get_stream("pop_other")
        self.register = builder.randomness.register_simulants
        self.keys = ["entrance_time", "age", "uid"][: self.spec["crn_keys"]] if self.spec["crn_keys"] else []
        if self.spec["crn_keys"] == 1:
            self.keys = ["age"]
        ph = self.spec.get("birth_phase", "time_step")
        if ph != "time_step":
            builder.event.register_listener(ph, self.births, priority=3)

    def on_initialize_simulants(self, pop_data):
        idx = pop_data.index
        n = len(idx)
        px = self.spec.get("pop_extra") or {}
        nb = self.spec.get("newborn")
        if n:
            age = self.crn.get_draw(idx, "age") * 80
            uid = np.floor(self.crn.get_draw(idx) * 2 ** 30)      # (no additional key: the call form with the default)
            if nb and "age0" in pop_data.user_data:
                # births carry user data; the creation window enters as an exact fraction of a year / of 36 ticks
                w = pop_data.creation_window
                frac = (w / pd.Timedelta(days=YEAR)) if _is_dt(self.spec) else w / 36.0
                # (a draw-derived exact offset keeps the newborns of one step apart: age may be a CRN key column)
                age = np.floor(age / 80 * 2 ** 24) / 2 ** 28 + pop_data.user_data["age0"] / 16.0 + frac
        else:
            age = pd.Series([], dtype=float, index=idx)
            uid = pd.Series([], dtype=float, index=idx)
        if self.spec.get("uid_kind") == "int":
            uid = uid.astype("int64")
        df = pd.DataFrame({"age": age, "entrance_time": pop_data.creation_time, "uid": uid}, index=idx)
        if self.keys:
            self.register(df[self.keys])
        if n:
            ridx = _rev(idx, self.spec)
            df["sex"] = self.rs.choice(ridx, ["m", "f"], additional_key="sex")
            if px.get("p2d"):
                # one weight row per simulant (2-d p), from the simulant's age
                a = df.loc[ridx, "age"].to_numpy()
                p = np.stack([1 + (a > 40), np.ones(len(a)), 1 + (a <= 40)], axis=1).astype(float)
                df["color"] = self.rs.choice(ridx, np.array(["r", "g", "b"]), p=p, additional_key="color")
            elif px.get("residual") == "local":
                df["color"] = self.rs.choice(ridx, ("r", "g", "b"), p=[0.5, RESIDUAL_CHOICE, 0.25], additional_key="color")
            elif px.get("residual") == "stored":
                df["color"] = self.rs.choice(ridx, ("r", "g", "b"), p=self.weights, additional_key="color")
            else:
                df["color"] = self.rs.choice(ridx, ["r", "g", "b"], p=[0.5, 0.25, 0.25], additional_key="color")
            if px.get("dist") == "ppf":
                df["bmi"] = self.rs.sample_from_distribution(ridx, ppf=_Ppf(8.0), additional_key="bmi", shift=20.0)
            elif px.get("dist") == "scipy":
                from scipy import stats
                df["bmi"] = self.rs.sample_from_distribution(ridx, distribution=stats.uniform, additional_key="bmi", loc=20.0, scale=8.0)
        else:
            df["sex"] = pd.Series([], dtype=object, index=idx)
            df["color"] = pd.Series([], dtype=object, index=idx)
            if px.get("dist"):
                df["bmi"] = pd.Series([], dtype=float, index=idx)
        self.population_view.update(_rev(df, self.spec))

    def births(self, event):
        b = self.spec["births"]
        k = b[self.step_no % len(b)] if b else 0
        if self.spec.get("birth_phase", "time_step") != "time_step":
            self.step_no += 1
        if k:
            cfg = {"sim_state": "time_step"}
            if self.spec.get("newborn"):
                cfg["age0"] = self.spec["newborn"]["age0"]
            self.creator(k, cfg)

    def on_time_step(self, event):
        if self.spec.get("birth_phase", "time_step") == "time_step":
            self.births(event)
            self.step_no += 1
        pop = self.population_view.get(_rev(event.index, self.spec))
        if len(pop):
            dt = event.step_size / pd.Timedelta(days=YEAR) if _is_dt(self.spec) else event.step_size / 36.0
            pop["age"] = pop["age"] + dt
            if self.weights is not None:
                # the stored weights are used again in every step: a few simulants may change colour
                pick = pop.index[pop.index % 3 == 0]
                if len(pick):
                    new = self.rs.choice(pick, ("r", "g", "b"), p=self.weights, additional_key="recolor")
                    self.population_view.update(new.rename("color"))
            self.population_view.update(pop[["age"]])


def _plain_mod(index, rate):
    """a module-level function used as a value modifier"""
    return rate * 1.25


class _AddMod:
    """callable object used as a value modifier"""

    def __init__(self, v):
        self.v = v

    def __call__(self, index, rate):
        return rate + self.v


def _scaled(k, index, rate):
    return rate * k


class Mort(_Spec):
    # class-level defaults: the framework must read them, never change them
    CONFIGURATION_DEFAULTS = {"mort": {"scale": 16, "floor": {"value": 0.0, "unit": "per_year"}}}

    @property
    def name(self):
        return "mort"

    @property
    def columns_required(self):
        return ["tracked", "age", "sex"]

    def setup(self, builder):
        m = self.spec["mort"]
        self.scale = builder.configuration.mort.scale / 16.0
        data = pd.DataFrame([{"sex": s, "age_start": a, "age_end": a + 40, "value": v * self.scale}
                             for s, v0 in (("m", 2.5), ("f", 1.5)) for a, v in ((0, v0), (40, v0 * 2), (80, v0 * 4))])
        self.table = builder.lookup.build_table(data, key_columns=["sex"], parameter_columns=["age"], value_columns=["value"])
        if _is_dt(self.spec):
            self.rate = builder.value.register_rate_producer("mortality_rate", source=self.table, requires_columns=["age", "sex"])
        else:
            self.rate = builder.value.register_value_producer("mortality_rate", source=self._simple_rate, requires_columns=["age", "sex"])
        kinds = m.get("kinds") or ["method", "method2"]
        for k in range(m["mods"]):
            kind = kinds[k % len(kinds)]
            f = {"method": self.mod, "method2": self.mod2, "function": _plain_mod, "object": _AddMod(1 / 128),
                 "partial": functools.partial(_scaled, 0.875), "lambda": (lambda index, rate: rate * 1.0625)}[kind]
            builder.value.register_value_modifier("mortality_rate", f)
        self.rs = builder.randomness.get_stream("mort")

    def _simple_rate(self, index):
        return self.table(index) * 0.05

    def mod(self, index, rate):
        return rate * 1.1

    def mod2(self, index, rate):
        return rate + 0.01

    def on_time_step(self, event):
        pop = self.population_view.get(event.index, query="tracked == True")
        if len(pop):
            idx = _rev(pop.index, self.spec)
            if self.spec["mort"].get("form") == "prob":
                rate = self.rate(idx)
                dead = self.rs.filter_for_probability(idx, 1 - np.exp(-rate.to_numpy()), "dies")
            else:
                dead = self.rs.filter_for_rate(idx, self.rate(idx))
            self.population_view.update(pd.Series(False, index=dead, name="tracked"))


class _Prob:
    """picklable per-transition probability function (sixteenths); with `perm` the probability differs between simulants
    and the Series comes back in REVERSED row order (correctly labelled)"""

    def __init__(self, p, perm=False):
        self.p, self.perm = p, perm

    def __call__(self, index):
        if not self.perm or self.p == 16:
            return pd.Series(self.p / 16.0, index=index)
        index = pd.Index(index)
        return pd.Series(np.where(np.asarray(index) % 2 == 0, self.p / 16.0, self.p / 32.0), index=index)[::-1]


class _Passing(State, Transient):
    """a transient state: whoever enters moves on within the same step"""


class Disease(_Spec):
    def __init__(self, spec):
        super().__init__(spec)
        d = self.spec["disease"]
        names = ["s", "i", "r", "q"][: d["states"]]
        states = []
        for k, n in enumerate(names):
            cls = _Passing if (d.get("transient") and 0 < k < len(names) - 1 and k == 1) else State
            states.append(cls(n, allow_self_transition=(d.get("self", True) or k == len(names) - 1)))
        for k in range(len(states) - 1):
            p = 16 if isinstance(states[k], _Passing) else d["p"][k % len(d["p"])]
            states[k].add_transition(Transition(states[k], states[k + 1], probability_func=_Prob(p, bool(self.spec.get("perm")))))
        if d["states"] >= 3 and d.get("back"):
            states[-1].add_transition(Transition(states[-1], states[0], probability_func=_Prob(d["p"][-1])))
        self.trig = None
        if d.get("trig") and d["states"] >= 3:
            # a triggered transition s -> last state, inactive until this component activates it for some simulants
            self.trig = Transition(states[0], states[-1], probability_func=_Prob(4), triggered=Trigger.START_INACTIVE)
            states[0].add_transition(self.trig)
        self.machine = Machine("dstate", states)
        self._sub_components = [self.machine]
        self.steps = 0

    @property
    def name(self):
        return "disease_init"

    @property
    def columns_created(self):
        return ["dstate"]

    def setup(self, builder):
        if self.spec["disease"].get("excess") and self.spec.get("mort"):
            # a modifier of ANOTHER component's pipeline, registered before or after its source (component order)
            builder.value.register_value_modifier("mortality_rate", self.excess, requires_columns=["dstate"])
            self.view = builder.population.get_view(["dstate", "tracked"])

    def excess(self, index, rate):
        st = self.view.get(index)["dstate"]
        return rate + (st != "s").astype(float).reindex(rate.index) * 0.5

    def on_initialize_simulants(self, pop_data):
        self.population_view.update(pd.Series("s", index=pop_data.index, name="dstate"))

    def on_time_step(self, event):
        t = self.spec["disease"].get("trig")
        if self.trig is not None and self.steps == t["at"]:
            self.trig.set_active(event.index[event.index % t["every"] == 0])
        self.steps += 1
        self.machine.transition(_rev(event.index, self.spec), event.time)


class StepMod(_Spec):
    """per-simulant clocks: some simulants ask for a longer step"""

    @property
    def name(self):
        return "stepmod"

    def setup(self, builder):
        self.step = builder.time.step_size()
        self.clock = builder.time.clock()
        builder.time.register_step_size_modifier(self.modifier)
        self.base = (pd.Timedelta(days=self.spec["step"]) if _is_dt(self.spec) else self.spec["step"])
        self.start = pd.Timestamp(*START) if _is_dt(self.spec) else 0
        if self.spec["stepmod"].get("living"):
            self.tracked_view = builder.population.get_view(["tracked"])

    def modifier(self, index):
        sm = self.spec["stepmod"]
        everybody = False
        if sm.get("vary"):
            # time-varying requests: in every third base interval EVERY simulant asks for the long step, so the
            # global step itself changes during the run
            k = int((self.clock() - self.start) / self.base)
            everybody = k % 3 == 1
        if sm.get("living"):
            # every TRACKED simulant asks for the long step, the untracked ones for nothing: once somebody is untracked, the
            # earliest pending next-event time belongs to untracked simulants only (seeded C18-4: a global step recomputed
            # from a view that filters them out)
            tr = self.tracked_view.get(index)["tracked"]
            vals = [self.base * sm["mult"] if bool(tr.loc[i]) else (pd.NaT if _is_dt(self.spec) else np.nan) for i in index]
        else:
            vals = [self.base * sm["mult"] if (everybody or i % sm["every"] == 0) else (pd.NaT if _is_dt(self.spec) else np.nan)
                    for i in index]
        if _is_dt(self.spec):
            return pd.Series(pd.to_timedelta(vals), index=index)
        return pd.Series(vals, index=index, dtype=float)


class _AgeSum:
    def __call__(self, df):
        return df["age"].sum()


class _AgeMax:
    def __call__(self, df):
        return df["age"].max() if len(df) else 0.0


class _Multi:
    """aggregator returning a Series: a result with several value columns"""

    def __call__(self, df):
        return pd.Series({"n": float(len(df)), "agesum": float(df["age"].sum())})


class _MaxUpdater:
    """results_updater of a stratified observation: running maximum instead of a sum"""

    def __call__(self, existing, new):
        out = existing.copy()
        # the order of the stratification levels the framework hands over is part of what a user callback sees: it is recorded
        out["levels"] = "|".join(map(str, new.index.names))
        if isinstance(new.index, pd.MultiIndex):
            new = new.reorder_levels(list(existing.index.names))
        out["value"] = np.maximum(existing["value"].to_numpy(), new["value"].reindex(existing.index).fillna(0.0).to_numpy())
        return out


class _Gather:
    """results_gatherer of an unstratified observation (sees untracked simulants too: empty filter)"""

    def __call__(self, pop):
        return pd.DataFrame({"n": [len(pop)], "untracked": [int((~pop["tracked"]).sum())], "age": [float(pop["age"].sum())],
                             "t": [pop["event_time"].iloc[0]]})


class _Append:
    def __call__(self, existing, new):
        return new if existing.empty else pd.concat([existing, new], axis=0).reset_index(drop=True)


class _EveryOther:
    """stateful to_observe: observes on every other call (the counter is part of what a backup must carry)"""

    def __init__(self):
        self.n = 0

    def __call__(self, event):
        self.n += 1
        return self.n % 2 == 1


class _SexColor:
    """vectorised mapper; with `perm` its output rows are in another order than the population's (labels kept)"""

    def __init__(self, perm=False):
        self.perm = perm

    def __call__(self, df):
        out = df["sex"] + df["color"]
        return out[::-1] if self.perm else out


class _SexColorRow:
    def __call__(self, row):
        return row["sex"] + row["color"]


class _RiskSource:
    """picklable pipeline source: a different exact function of age per pipeline"""

    def __init__(self, view, k, perm=False):
        self.view, self.k, self.perm = view, k, perm

    def __call__(self, index):
        age = self.view.get(index)["age"]
        out = age * (self.k + 1) + self.k * 1000.0
        return out[::-1] if self.perm and self.k % 2 else out


class _RiskSum:
    """aggregator that tells the required value columns apart (weights differ per column)"""

    def __init__(self, n):
        self.n = n

    def __call__(self, df):
        return float(sum((k + 1) * df[f"risk_{k}"].sum() for k in range(self.n)))


class Obs(_Spec):
    @property
    def name(self):
        return "obs"

    def setup(self, builder):
        o = self.spec["obs"]
        when = o.get("when", "collect_metrics")
        strats = []
        if o["strats"] >= 1:
            # excluded_categories=None: the configuration (stratification.excluded_categories) decides
            builder.results.register_stratification("sex", ["m", "f"], requires_columns=["sex"])
            strats.append("sex")
        if o["strats"] >= 2:
            builder.results.register_stratification("color", ["r", "g", "b"], excluded_categories=["b"], requires_columns=["color"])
            strats.append("color")
        if o["strats"] >= 3:
            builder.results.register_binned_stratification("age", "age_group", [0, 40, 80, 400], ["young", "old", "ancient"])
            strats.append("age_group")
        cols = ["sex", "color", "age"]
        if o.get("defaults"):
            # stratified by the configured defaults only: no additional_stratifications argument at all
            builder.results.register_adding_observation("count_by_default", when=when, requires_columns=cols)
        builder.results.register_adding_observation("count", when=when, additional_stratifications=strats, requires_columns=cols)
        builder.results.register_adding_observation("agesum", when=when, additional_stratifications=strats[:1], aggregator_sources=["age"],
                                                    aggregator=_AgeSum(), requires_columns=["age"])
        if o.get("concat"):
            builder.results.register_concatenating_observation("rows", requires_columns=["age", "sex"])
        nv = int(o.get("values", 0))
        if nv:
            # an observation that needs several VALUE PIPELINES (the results manager evaluates them per event)
            view = builder.population.get_view(["age", "tracked"])
            for k in range(nv):
                builder.value.register_value_producer(f"risk_{k}", source=_RiskSource(view, k, bool(self.spec.get("perm"))), requires_columns=["age"])
            builder.results.register_adding_observation("risk_sum", when=when, additional_stratifications=strats[:1],
                                                        aggregator_sources=[f"risk_{k}" for k in range(nv)],
                                                        aggregator=_RiskSum(nv), requires_values=[f"risk_{k}" for k in range(nv)])
        if o.get("rich"):
            self._rich(builder, o, when, strats, nv)

    def _rich(self, builder, o, when, strats, nv):
        """every other kind of observation and stratification the results interface offers"""
        r = builder.results
        phases = ["time_step__prepare", "time_step", "time_step__cleanup", "collect_metrics"]
        other = phases[(phases.index(when) + 1) % 4]
        # stratification with a vectorised / a per-row mapper over two sources
        r.register_stratification("sexcolor", [s + c for s in "mf" for c in "rgb"], mapper=_SexColor(bool(self.spec.get("perm"))), is_vectorized=True,
                                  requires_columns=["sex", "color"])
        r.register_stratification("sexcolor_row", [s + c for s in "mf" for c in "rgb"], excluded_categories=["fb"], mapper=_SexColorRow(),
                                  is_vectorized=False, requires_columns=["sex", "color"])
        extra = ["sexcolor"]
        if nv:
            # a VALUE pipeline binned into a stratification
            r.register_binned_stratification("risk_0", "risk_bin", [0, 40, 10 ** 9], ["lo", "hi"], target_type="value")
            extra.append("risk_bin")
        # stratified observation with its own updater (maximum), in another phase, with an excluded default
        dflt = list(o.get("defaults") or [])
        r.register_stratified_observation("age_max", when=other, requires_columns=["age"], results_updater=_MaxUpdater(),
                                          results_formatter=_Reset(), additional_stratifications=extra[:1],
                                          excluded_stratifications=dflt[-1:], aggregator_sources=["age"], aggregator=_AgeMax())
        # unstratified observation; the empty filter includes untracked simulants
        r.register_unstratified_observation("totals", pop_filter="", when=when, requires_columns=["age", "tracked"],
                                            results_gatherer=_Gather(), results_updater=_Append())
        # a filter on a column + a stateful to_observe
        r.register_adding_observation("male_count", pop_filter='tracked == True and sex == "m"', when=when, requires_columns=["sex"],
                                      additional_stratifications=extra[1:] + ["sexcolor_row"], to_observe=_EveryOther())
        # aggregator that returns a Series (several result columns)
        r.register_adding_observation("multi", when=other, requires_columns=["age"], additional_stratifications=strats[:2],
                                      aggregator_sources=["age"], aggregator=_Multi())
        # a concatenating observation that includes a value pipeline column
        if nv:
            r.register_concatenating_observation("risk_rows", when=other, requires_columns=["sex"], requires_values=["risk_0"])


class _Reset:
    def __call__(self, measure, results):
        return results.reset_index()


class RepObserver(Observer):
    """an Observer subclass (results/observer.py): default stratification configuration + results directory"""

    def __init__(self, spec):
        super().__init__()
        self.spec = decode(spec)

    @property
    def name(self):
        return "rep_observer"

    def register_observations(self, builder):
        builder.results.register_adding_observation("rep_count", requires_columns=["age"], aggregator_sources=["age"], aggregator=_AgeSum())


class _Const:
    def __init__(self, v):
        self.v = v

    def __call__(self, index, *a):
        return pd.Series(self.v, index=index)


def shared_table(builder):
    """data source named in the configuration as `vcheck.components::shared_table`"""
    return pd.DataFrame([{"sex": s, "color": c, "value": 0.25 * (i + 1) + 0.125 * j}
                         for i, s in enumerate("mf") for j, c in enumerate("rgb")])


class Ledger(_Spec):
    """a sub-component of Extras with legal but unusual registrations: an initializer that creates NO column (private state
    only), a requirement nobody provides listed before one that is met, a modifier of a pipeline nobody sources, a stream
    that is never used"""

    @property
    def name(self):
        return "ledger"

    @property
    def initialization_requirements(self):
        return {"requires_columns": ["nobody_provides_this", "age"], "requires_values": [], "requires_streams": []}

    def setup(self, builder):
        self.seen = {}
        builder.value.register_value_modifier("nobody_sources_this", _plain_mod)
        self.unused = builder.randomness.get_stream("ledger_unused")

    def on_initialize_simulants(self, pop_data):
        for i in pop_data.index:
            self.seen[int(i)] = len(self.seen)


class Extras(_Spec):
    """further framework services inside the same program: get_seed (external RNG seeded by the framework), a
    list-combiner pipeline with the union post-processor and modifiers from this component, a lookup table with a
    `year` parameter and a scalar table, move_simulants_to_end for untracked simulants (per-simulant clocks only);
    optionally a categorical table, tables declared in the configuration (`data_sources`), data from an artifact, a
    stream first used late in the run, private per-simulant state kept outside the state table, and handles obtained by
    other components (Pop's stream and creator, Mort's pipeline)."""

    def __init__(self, spec):
        super().__init__(spec)
        self.ledger = Ledger(self.spec) if self.spec["extras"].get("private") else None
        if self.ledger is not None:
            self._sub_components = [self.ledger]

    @property
    def name(self):
        return "extras"

    @property
    def columns_created(self):
        return ["extra", "exposure"]

    @property
    def columns_required(self):
        return ["age", "tracked", "sex", "color"]

    @property
    def initialization_requirements(self):
        # the initializer reads Pop's columns: the resource system must order it after Pop's
        return {"requires_columns": ["age", "sex"], "requires_values": [], "requires_streams": ["extras_late"] if self.spec["extras"].get("late") is not None else []}

    def make_tbl(self, builder):
        """data source named in the configuration as `self::make_tbl`"""
        return pd.DataFrame([{"sex": s, "age_start": a, "age_end": a + 50, "value": 0.5 * (i + 1) + a / 100}
                             for i, s in enumerate("mf") for a in (0, 50, 100)])

    def setup(self, builder):
        from vivarium.framework.values import list_combiner, union_post_processor
        x = self.spec["extras"]
        self.get_seed = builder.randomness.get_seed
        self.paf = builder.value.register_value_producer(
            "paf", source=lambda index: [pd.Series(0.0, index=index)], preferred_combiner=list_combiner,
            preferred_post_processor=union_post_processor)
        for v in x.get("pafs", [0.25, 0.5]):
            builder.value.register_value_modifier("paf", _Const(v))
        if _is_dt(self.spec):
            data = pd.DataFrame([{"year_start": y, "year_end": y + 1, "value": float(y - 2015)} for y in range(2015, 2030)])
            self.by_year = builder.lookup.build_table(data, parameter_columns=["year"], value_columns=["value"])
        else:
            self.by_year = builder.lookup.build_table(3.0)
        self.scalar = builder.lookup.build_table((1.5, 2.5), value_columns=["p", "q"])
        self.move = builder.time.move_simulants_to_end() if self.spec.get("stepmod") else None
        self.cat = None
        if x.get("cat"):
            data = pd.DataFrame([{"sex": s, "color": c, "a": 0.5 * (i + 1), "b": 0.25 * (j + 1)}
                                 for i, s in enumerate("mf") for j, c in enumerate("rgb")])
            self.cat = builder.lookup.build_table(data, key_columns=("sex", "color"), value_columns=("a", "b"))
        self.ds3 = self.dsc = None
        if x.get("ds"):
            # Component.build_lookup_table with explicit value columns (three of them)
            data = pd.DataFrame([{"sex": s, "age_start": a, "age_end": a + 60, "p": 0.5 + i, "q": 0.25 * (k + 1), "r": 2.0 * (i + k)}
                                 for i, s in enumerate("mf") for k, a in enumerate((0, 60, 120))])
            self.ds3 = self.build_lookup_table(builder, data, value_columns=["p", "q", "r"])
            # … and a CATEGORICAL table (no parameter column) through the same helper
            data = pd.DataFrame([{"sex": s, "color": c, "u": 0.5 * (i + 1), "v": 8.0 * (j + 1), "w": 64.0 * (i + j + 1)}
                                 for i, s in enumerate("mf") for j, c in enumerate("rgb")])
            self.dsc = self.build_lookup_table(builder, data, value_columns=["u", "v", "w"])
        self.art = None
        if x.get("art") and x["art"].get("via", "load") == "load":
            df = builder.data.load("cause.probe.rate")
            self.art = builder.lookup.build_table(df, key_columns=["sex"], parameter_columns=["age"], value_columns=["value"])
        self.late = builder.randomness.get_stream("extras_late") if x.get("late") is not None else None
        self.private = {} if x.get("private") else None        # per-simulant state kept OUTSIDE the state table
        self.steps = 0
        self.foreign = None
        if x.get("foreign"):
            # handles obtained by OTHER components: Pop's ordinary stream and creator; Mort's pipeline by name (may not be registered yet)
            self.foreign = {"pop": builder.components.get_component("pop"),
                            "rate": builder.value.get_value("mortality_rate") if self.spec.get("mort") else None}

    def on_initialize_simulants(self, pop_data):
        idx = pop_data.index
        rs = np.random.RandomState(self.get_seed("extras_init"))        # framework-seeded external generator
        extra = rs.random_sample(len(idx))
        if len(idx) and self.spec["extras"].get("late") is not None:
            # a value that depends on columns created by ANOTHER component's initializer
            seen = self.population_view.subview(["age", "sex"]).get(idx)
            extra = extra + (seen["sex"] == "m").to_numpy() * 2.0 + np.floor(seen["age"].to_numpy())
        self.population_view.update(pd.DataFrame({"extra": extra, "exposure": 0.0}, index=idx))
        if self.private is not None:
            for i in idx:
                self.private[int(i)] = 0.0

    def on_time_step_cleanup(self, event):
        x = self.spec["extras"]
        pop = self.population_view.get(_rev(event.index, self.spec))
        if len(pop):
            idx = pop.index
            add = self.paf(idx) + self.by_year(idx).squeeze() / 16.0 + self.scalar(idx)["q"]
            if self.cat is not None:
                c = self.cat(idx)
                add = add + c["a"] - c["b"] / 4
            if self.lookup_tables:
                # tables the framework built from the configuration before setup: scalar, self::method, module::function, artifact key
                for name in sorted(self.lookup_tables):
                    add = add + self.lookup_tables[name](idx) / 8.0
            if self.ds3 is not None:
                t = self.ds3(idx)
                c = self.dsc(idx)
                if x["ds"] == "pos":
                    add = add + t.iloc[:, 0] + t.iloc[:, 1] * 4 + t.iloc[:, 2] * 16       # by POSITION (value_columns was a list)
                else:
                    add = add + t["p"] + t["q"] * 4 + t["r"] * 16 + c["u"] + c["v"] / 4 + c["w"] / 16
            if self.art is not None:
                add = add + self.art(idx)
            if self.late is not None and self.steps >= x["late"]:
                # first use of this stream at an unusual moment: late in the run, in the cleanup phase
                add = add + np.floor(self.late.get_draw(idx, "late") * 8) / 8
            if self.foreign is not None:
                add = add + np.floor(self.foreign["pop"].rs.get_draw(idx, "foreign") * 4) / 4
                tr = idx[pop["tracked"].to_numpy()]
                if self.foreign["rate"] is not None and len(tr):
                    add = add.add(self.foreign["rate"](tr, skip_post_processor=True).reindex(idx).fillna(0.0) / 64.0)
            if self.private is not None:
                for i in idx:
                    self.private[int(i)] = self.private.get(int(i), 0.0) + 0.5
                add = add + pd.Series([self.private[int(i)] + self.ledger.seen[int(i)] / 64.0 for i in idx], index=idx)
            self.population_view.update((pop["exposure"] + add).rename("exposure"))
        self.steps += 1
        if self.move is not None:
            full = self.population_view.subview(["tracked"]).get(event.index, query="tracked == False")
            if len(full):
                self.move(full.index)


class Holder(Component):
    """a component with no behaviour of its own that brings sub-components (nested-components route)"""

    def __init__(self, subs):
        super().__init__()
        self._sub_components = list(subs)

    @property
    def name(self):
        return "holder"


CLASSES = [("pop", Pop), ("mort", Mort), ("disease", Disease), ("stepmod", StepMod), ("obs", Obs), ("extras", Extras)]


def _ordered(spec):
    """class names in the order the program wants its components"""
    names = ["Pop"] + [cls.__name__ for key, cls in CLASSES[1:] if spec.get(key)]
    if spec.get("obs") and spec["obs"].get("report"):
        names.append("RepObserver")
    order = spec.get("order")
    if order:
        picked = [names[i % len(names)] for i in order if i < len(names)] + [n for k, n in enumerate(names) if k not in order]
        seen, out = set(), []
        for n in picked:
            if n not in seen:
                seen.add(n)
                out.append(n)
        names = out
    return names


def build(spec):
    return [globals()[n](spec) for n in _ordered(spec)]


def component_strings(spec):
    """the same components as a model specification names them (import path + string arguments)"""
    h = encode(spec)
    return {"vcheck": {"components": [f"{n}('{h}')" for n in _ordered(spec)]}}


def start_time(spec):
    return pd.Timestamp(*START) if _is_dt(spec) else 0


def step_size(spec):
    """the configured step as the clock represents it"""
    if _is_dt(spec):
        s = spec["step"]
        return pd.Timedelta(days=s // 1, hours=(s % 1) * 24)
    return spec["step"]


def stop_time(spec):
    if _is_dt(spec):
        days = spec["step"] * spec["n_steps"]
        return pd.Timestamp(*START) + pd.Timedelta(days=int(np.ceil(days)))
    return spec["step"] * spec["n_steps"]


def expected_steps(spec):
    """number of steps the run loop takes, from the configuration alone (None when per-simulant clocks decide)"""
    if spec.get("stepmod"):
        return None
    t, h, stop, n = start_time(spec), step_size(spec), stop_time(spec), 0
    while t < stop:
        t, n = t + h, n + 1
    return n


def configuration(spec):
    cfg = {"population": {"population_size": spec["pop"]},
           "randomness": {"map_size": spec.get("map_size", 100_000), "random_seed": spec["seed"]}}
    if spec.get("additional_seed") is not None:
        cfg["randomness"]["additional_seed"] = spec["additional_seed"]
    if spec["crn_keys"] == 1:
        cfg["randomness"]["key_columns"] = ["age"]
    elif spec["crn_keys"]:
        cfg["randomness"]["key_columns"] = ["entrance_time", "age", "uid"][: spec["crn_keys"]]
    if _is_dt(spec):
        end = stop_time(spec)
        cfg["time"] = {"start": {"year": START[0], "month": START[1], "day": START[2]},
                       "end": {"year": int(end.year), "month": int(end.month), "day": int(end.day)}, "step_size": spec["step"]}
    else:
        cfg["time"] = {"start": 0, "end": spec["step"] * spec["n_steps"], "step_size": spec["step"]}
        if spec.get("float_clock"):
            # the same clock with its numbers of the other numeric kind: 0.0, 2.0, 4.0 … are EQUAL to 0, 2, 4 … and print differently
            cfg["time"] = {k: float(v) for k, v in cfg["time"].items()}
    if spec.get("stepmod"):
        cfg["time"]["standard_step_size"] = spec["step"]
    o = spec.get("obs")
    if o and o.get("defaults"):
        cfg["stratification"] = {"default": list(o["defaults"])}
    if o and o.get("cfg_excl") and o["strats"] >= 1:
        cfg.setdefault("stratification", {})["excluded_categories"] = {"sex": ["f"]}
    m = spec.get("mort")
    if m and m.get("scale") is not None:
        cfg["mort"] = {"scale": m["scale"]}
    x = spec.get("extras")
    if x and x.get("tables"):
        ds = {"k1": 2.5, "tbl": "self::make_tbl", "shared": "vcheck.components::shared_table"}
        if x.get("art") and x["art"].get("via") == "ds":
            ds["art"] = "cause.probe.rate"
        cfg["extras"] = {"data_sources": ds}
    if spec.get("report_dir"):
        cfg["output_data"] = {"results_directory": spec["report_dir"]}
    if x and x.get("art"):
        cfg["input_data"] = {"artifact_path": spec["artifact_path"]}
        if x["art"].get("draw") is not None:
            cfg["input_data"]["input_draw_number"] = x["art"]["draw"]
    return cfg


def write_artifact(path):
    """the artifact the programs with extras.art read: a rate by sex and age with three draws"""
    from vivarium.framework.artifact import Artifact
    art = Artifact(path)
    rows = [{"sex": s, "age_start": float(a), "age_end": float(a + 45), "draw_0": 0.125 * (i + 1) + k, "draw_1": 0.25 * (i + 1) + k,
             "draw_2": 0.5 * (i + 1) + k} for i, s in enumerate("mf") for k, a in enumerate((0, 45, 90))]
    art.write("cause.probe.rate", pd.DataFrame(rows).set_index(["sex", "age_start", "age_end"]))
    art.write("metadata.note", ["probe"])
    return path


def plugins(spec):
    if _is_dt(spec):
        return None
    return {"required": {"clock": {"controller": "vivarium.framework.time.SimpleClock",
                                   "builder_interface": "vivarium.framework.time.TimeInterface"}}}
