"""Importable library of parametrised probe components for whole-simulation checks (C01, C18).

A *program spec* (JSON) selects and parametrises the components; `build(spec)` returns fresh instances,
`configuration(spec)` the configuration dict and `plugins(spec)` the plugin configuration.
Everything here is deterministic given the framework's randomness: components use no entropy of
their own. Classes are module-level so that `dill` can restore a backup in another process.

spec keys:
  clock: "datetime" | "simple"          step: days (datetime; may be fractional) | ticks (simple)
  n_steps: planned number of steps      pop: initial population size     seed: random_seed
  crn_keys: 0..3 (number of key columns; 0 = no CRN)      map_size
  births: list of births per step (cycled)                birth_phase: listener channel used for births
  mort: None | {"mods": k}              disease: None | {"states": 2..4, "p": [sixteenths...], "self": bool}
  stepmod: None | {"every": k, "mult": m}   (per-simulant clocks: simulants with id % every == 0 ask for m * step)
  obs: None | {"strats": 0..3, "when": phase, "concat": bool, "defaults": [] | ["sex"] (needs strats >= 1) | ["sex", "color"] (>= 2), "values": 0..5 required value pipelines}
"""
from __future__ import annotations

from . import impl

impl.load()

import numpy as np  # noqa: E402
import pandas as pd  # noqa: E402
from vivarium import Component  # noqa: E402
from vivarium.framework.state_machine import Machine, State, Transition  # noqa: E402

YEAR = 365.25


def _is_dt(spec):
    return spec["clock"] == "datetime"


class Pop(Component):
    def __init__(self, spec):
        super().__init__()
        self.spec = spec
        self.step_no = 0

    @property
    def name(self):
        return "pop"

    @property
    def columns_created(self):
        return ["age", "sex", "entrance_time", "color", "uid"]

    def setup(self, builder):
        self.creator = builder.population.get_simulant_creator()
        self.crn = builder.randomness.get_stream("pop_crn", initializes_crn_attributes=True)
        self.rs = builder.randomness.get_stream("pop_other")
        self.register = builder.randomness.register_simulants
        self.keys = ["entrance_time", "age", "uid"][: self.spec["crn_keys"]] if self.spec["crn_keys"] else []
        if self.spec["crn_keys"] == 1:
            self.keys = ["age"]
        ph = self.spec.get("birth_phase", "time_step")
        if ph != "time_step":
            builder.event.register_listener(ph, self.births, priority=3)

    def on_initialize_simulants(self, pop_data):
        idx = pop_data.index
        n = len(idx)
        if n:
            age = self.crn.get_draw(idx, "age") * 80
            uid = np.floor(self.crn.get_draw(idx, "uid") * 2 ** 30)
        else:
            age = pd.Series([], dtype=float, index=idx)
            uid = pd.Series([], dtype=float, index=idx)
        df = pd.DataFrame({"age": age, "entrance_time": pop_data.creation_time, "uid": uid}, index=idx)
        if self.keys:
            self.register(df[self.keys])
        if n:
            df["sex"] = self.rs.choice(idx, ["m", "f"], additional_key="sex")
            df["color"] = self.rs.choice(idx, ["r", "g", "b"], p=[0.5, 0.25, 0.25], additional_key="color")
        else:
            df["sex"] = pd.Series([], dtype=object, index=idx)
            df["color"] = pd.Series([], dtype=object, index=idx)
        self.population_view.update(df)

    def births(self, event):
        b = self.spec["births"]
        k = b[self.step_no % len(b)] if b else 0
        if self.spec.get("birth_phase", "time_step") != "time_step":
            self.step_no += 1
        if k:
            self.creator(k, {"sim_state": "time_step"})

    def on_time_step(self, event):
        if self.spec.get("birth_phase", "time_step") == "time_step":
            self.births(event)
            self.step_no += 1
        pop = self.population_view.get(event.index)
        if len(pop):
            dt = event.step_size / pd.Timedelta(days=YEAR) if _is_dt(self.spec) else event.step_size / 36.0
            pop["age"] = pop["age"] + dt
            self.population_view.update(pop[["age"]])


class Mort(Component):
    def __init__(self, spec):
        super().__init__()
        self.spec = spec

    @property
    def name(self):
        return "mort"

    @property
    def columns_required(self):
        return ["tracked", "age", "sex"]

    def setup(self, builder):
        data = pd.DataFrame([{"sex": s, "age_start": a, "age_end": a + 40, "value": v}
                             for s, v0 in (("m", 2.5), ("f", 1.5)) for a, v in ((0, v0), (40, v0 * 2), (80, v0 * 4))])
        self.table = builder.lookup.build_table(data, key_columns=["sex"], parameter_columns=["age"], value_columns=["value"])
        if _is_dt(self.spec):
            self.rate = builder.value.register_rate_producer("mortality_rate", source=self.table, requires_columns=["age", "sex"])
        else:
            self.rate = builder.value.register_value_producer("mortality_rate", source=self._simple_rate, requires_columns=["age", "sex"])
        for k in range(self.spec["mort"]["mods"]):
            builder.value.register_value_modifier("mortality_rate", self.mod if k % 2 == 0 else self.mod2)
        self.rs = builder.randomness.get_stream("mort")

    def _simple_rate(self, index):
        return self.table(index) * 0.05

    def mod(self, index, rate):
        return rate * 1.1

    def mod2(self, index, rate):
        return rate + 0.01

    def on_time_step(self, event):
        pop = self.population_view.get(event.index, query="tracked == True")
        if len(pop):
            dead = self.rs.filter_for_rate(pop.index, self.rate(pop.index))
            self.population_view.update(pd.Series(False, index=dead, name="tracked"))


class _Prob:
    """picklable per-transition probability function (sixteenths)"""

    def __init__(self, p):
        self.p = p

    def __call__(self, index):
        return pd.Series(self.p / 16.0, index=index)


class Disease(Component):
    def __init__(self, spec):
        super().__init__()
        self.spec = spec
        d = spec["disease"]
        names = ["s", "i", "r", "q"][: d["states"]]
        states = [State(n, allow_self_transition=(d.get("self", True) or k == len(names) - 1)) for k, n in enumerate(names)]
        for k in range(len(states) - 1):
            states[k].add_transition(Transition(states[k], states[k + 1], probability_func=_Prob(d["p"][k % len(d["p"])])))
        if d["states"] >= 3 and d.get("back"):
            states[-1].add_transition(Transition(states[-1], states[0], probability_func=_Prob(d["p"][-1])))
        self.machine = Machine("dstate", states)
        self._sub_components = [self.machine]

    @property
    def name(self):
        return "disease_init"

    @property
    def columns_created(self):
        return ["dstate"]

    def on_initialize_simulants(self, pop_data):
        self.population_view.update(pd.Series("s", index=pop_data.index, name="dstate"))

    def on_time_step(self, event):
        self.machine.transition(event.index, event.time)


class StepMod(Component):
    """per-simulant clocks: some simulants ask for a longer step"""

    def __init__(self, spec):
        super().__init__()
        self.spec = spec

    @property
    def name(self):
        return "stepmod"

    def setup(self, builder):
        self.step = builder.time.step_size()
        self.clock = builder.time.clock()
        builder.time.register_step_size_modifier(self.modifier)
        self.base = (pd.Timedelta(days=self.spec["step"]) if _is_dt(self.spec) else self.spec["step"])
        self.start = pd.Timestamp(2020, 1, 1) if _is_dt(self.spec) else 0

    def modifier(self, index):
        sm = self.spec["stepmod"]
        everybody = False
        if sm.get("vary"):
            # time-varying requests: in every third base interval EVERY simulant asks for the long step, so the
            # global step itself changes during the run
            k = int((self.clock() - self.start) / self.base)
            everybody = k % 3 == 1
        vals = [self.base * sm["mult"] if (everybody or i % sm["every"] == 0) else (pd.NaT if _is_dt(self.spec) else np.nan)
                for i in index]
        if _is_dt(self.spec):
            return pd.Series(pd.to_timedelta(vals), index=index)
        return pd.Series(vals, index=index, dtype=float)


class _AgeSum:
    def __call__(self, df):
        return df["age"].sum()


class _RiskSource:
    """picklable pipeline source: a different exact function of age per pipeline"""

    def __init__(self, view, k):
        self.view, self.k = view, k

    def __call__(self, index):
        age = self.view.get(index)["age"]
        return age * (self.k + 1) + self.k * 1000.0


class _RiskSum:
    """aggregator that tells the required value columns apart (weights differ per column)"""

    def __init__(self, n):
        self.n = n

    def __call__(self, df):
        return float(sum((k + 1) * df[f"risk_{k}"].sum() for k in range(self.n)))


class Obs(Component):
    def __init__(self, spec):
        super().__init__()
        self.spec = spec

    @property
    def name(self):
        return "obs"

    def setup(self, builder):
        o = self.spec["obs"]
        strats = []
        if o["strats"] >= 1:
            builder.results.register_stratification("sex", ["m", "f"], requires_columns=["sex"])
            strats.append("sex")
        if o["strats"] >= 2:
            builder.results.register_stratification("color", ["r", "g", "b"], excluded_categories=["b"], requires_columns=["color"])
            strats.append("color")
        if o["strats"] >= 3:
            builder.results.register_binned_stratification("age", "age_group", [0, 40, 80, 400], ["young", "old", "ancient"])
            strats.append("age_group")
        cols = ["sex", "color", "age"]
        if o.get("defaults"):
            # stratified by the configured defaults only: no additional_stratifications argument at all
            builder.results.register_adding_observation("count_by_default", when=o.get("when", "collect_metrics"),
                                                        requires_columns=cols)
        builder.results.register_adding_observation("count", when=o.get("when", "collect_metrics"),
                                                    additional_stratifications=strats, requires_columns=cols)
        builder.results.register_adding_observation("agesum", when=o.get("when", "collect_metrics"),
                                                    additional_stratifications=strats[:1], aggregator_sources=["age"],
                                                    aggregator=_AgeSum(), requires_columns=["age"])
        if o.get("concat"):
            builder.results.register_concatenating_observation("rows", requires_columns=["age", "sex"])
        nv = int(o.get("values", 0))
        if nv:
            # an observation that needs several VALUE PIPELINES (the results manager evaluates them per event)
            view = builder.population.get_view(["age", "tracked"])
            for k in range(nv):
                builder.value.register_value_producer(f"risk_{k}", source=_RiskSource(view, k), requires_columns=["age"])
            builder.results.register_adding_observation("risk_sum", when=o.get("when", "collect_metrics"),
                                                        additional_stratifications=strats[:1], aggregator_sources=[f"risk_{k}" for k in range(nv)],
                                                        aggregator=_RiskSum(nv), requires_values=[f"risk_{k}" for k in range(nv)])


class _Const:
    def __init__(self, v):
        self.v = v

    def __call__(self, index, *a):
        return pd.Series(self.v, index=index)


class Extras(Component):
    """further framework services inside the same program: get_seed (external RNG seeded by the framework), a
    list-combiner pipeline with the union post-processor and modifiers from this component, a lookup table with a
    `year` parameter and a scalar table, move_simulants_to_end for untracked simulants (per-simulant clocks only)."""

    def __init__(self, spec):
        super().__init__()
        self.spec = spec

    @property
    def name(self):
        return "extras"

    @property
    def columns_created(self):
        return ["extra", "exposure"]

    @property
    def columns_required(self):
        return ["age", "tracked"]

    def setup(self, builder):
        from vivarium.framework.values import list_combiner, union_post_processor
        self.get_seed = builder.randomness.get_seed
        self.paf = builder.value.register_value_producer(
            "paf", source=lambda index: [pd.Series(0.0, index=index)], preferred_combiner=list_combiner,
            preferred_post_processor=union_post_processor)
        for v in self.spec["extras"].get("pafs", [0.25, 0.5]):
            builder.value.register_value_modifier("paf", _Const(v))
        if _is_dt(self.spec):
            data = pd.DataFrame([{"year_start": y, "year_end": y + 1, "value": float(y - 2015)} for y in range(2015, 2030)])
            self.by_year = builder.lookup.build_table(data, parameter_columns=["year"], value_columns=["value"])
        else:
            self.by_year = builder.lookup.build_table(3.0)
        self.scalar = builder.lookup.build_table((1.5, 2.5), value_columns=["p", "q"])
        self.move = builder.time.move_simulants_to_end() if self.spec.get("stepmod") else None

    def on_initialize_simulants(self, pop_data):
        idx = pop_data.index
        rs = np.random.RandomState(self.get_seed("extras_init"))        # framework-seeded external generator
        self.population_view.update(pd.DataFrame({"extra": rs.random_sample(len(idx)), "exposure": 0.0}, index=idx))

    def on_time_step_cleanup(self, event):
        pop = self.population_view.get(event.index)
        if len(pop):
            add = self.paf(pop.index) + self.by_year(pop.index).squeeze() / 16.0 + self.scalar(pop.index)["q"]
            self.population_view.update((pop["exposure"] + add).rename("exposure"))
        if self.move is not None:
            full = self.population_view.subview(["tracked"]).get(event.index, query="tracked == False")
            if len(full):
                self.move(full.index)


def build(spec):
    comps = [Pop(spec)]
    if spec.get("mort"):
        comps.append(Mort(spec))
    if spec.get("disease"):
        comps.append(Disease(spec))
    if spec.get("stepmod"):
        comps.append(StepMod(spec))
    if spec.get("obs"):
        comps.append(Obs(spec))
    if spec.get("extras"):
        comps.append(Extras(spec))
    order = spec.get("order")
    if order:
        comps = [comps[i % len(comps)] for i in order if i < len(comps)] + [c for k, c in enumerate(comps) if k not in order]
        seen, out = set(), []
        for c in comps:
            if id(c) not in seen:
                seen.add(id(c))
                out.append(c)
        comps = out
    return comps


def configuration(spec):
    cfg = {"population": {"population_size": spec["pop"]},
           "randomness": {"map_size": spec.get("map_size", 100_000), "random_seed": spec["seed"]}}
    if spec.get("additional_seed") is not None:
        cfg["randomness"]["additional_seed"] = spec["additional_seed"]
    if spec["crn_keys"] == 1:
        cfg["randomness"]["key_columns"] = ["age"]
    elif spec["crn_keys"]:
        cfg["randomness"]["key_columns"] = ["entrance_time", "age", "uid"][: spec["crn_keys"]]
    if _is_dt(spec):
        days = spec["step"] * spec["n_steps"]
        end = pd.Timestamp(2020, 1, 1) + pd.Timedelta(days=int(np.ceil(days)))
        cfg["time"] = {"start": {"year": 2020, "month": 1, "day": 1},
                       "end": {"year": int(end.year), "month": int(end.month), "day": int(end.day)}, "step_size": spec["step"]}
    else:
        cfg["time"] = {"start": 0, "end": spec["step"] * spec["n_steps"], "step_size": spec["step"]}
    if spec.get("stepmod"):
        cfg["time"]["standard_step_size"] = spec["step"]
    if spec.get("obs") and spec["obs"].get("defaults"):
        cfg["stratification"] = {"default": list(spec["obs"]["defaults"])}
    return cfg


def plugins(spec):
    if _is_dt(spec):
        return None
    return {"required": {"clock": {"controller": "vivarium.framework.time.SimpleClock",
                                   "builder_interface": "vivarium.framework.time.TimeInterface"}}}
