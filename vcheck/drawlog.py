"""In-process observation of every draw request (harness side; nothing in /repo is touched):
wraps RandomnessStream.get_draw at class level before any stream exists.

One entry per request: [stream key, clock (ns or ticks), additional key, n, index digest, value digest, initializes_crn,
index labels (requests of at most 64 simulants), values as hex (same)]. The labels and values let the check recompute
the draws from the CONFIGURATION alone (seed, stream key, clock, additional key)."""
import hashlib

from . import impl

impl.load()
LOG = []
_installed = False


def install():
    global _installed
    if _installed:
        return
    from vivarium.framework.randomness.stream import RandomnessStream
    orig = RandomnessStream.get_draw

    def get_draw(self, index, additional_key=None):
        out = orig(self, index, additional_key)
        t = self.clock()
        small = len(index) <= 64
        LOG.append([self.key, str(int(t.value)) if hasattr(t, "value") else str(t), str(additional_key), len(index),
                    hashlib.sha1(",".join(map(str, index)).encode()).hexdigest()[:10],
                    hashlib.sha1(",".join(float(v).hex() for v in out).encode()).hexdigest()[:10],
                    bool(self.initializes_crn_attributes),
                    [int(i) for i in index] if small else None,
                    [float(v).hex() for v in out] if small else None])
        return out

    get_draw.__wrapped__ = orig
    RandomnessStream.get_draw = get_draw
    _installed = True
