"""In-process observation of every draw request (harness side; nothing in /repo is touched):
wraps RandomnessStream.get_draw at class level before any stream exists."""
import hashlib

from . import impl

impl.load()
LOG = []
_installed = False


def install():
    global _installed
    if _installed:
        return
    from vivarium.framework.randomness.stream import RandomnessStream
    orig = RandomnessStream.get_draw

    def get_draw(self, index, additional_key=None):
        out = orig(self, index, additional_key)
        t = self.clock()
        LOG.append([self.key, str(int(t.value)) if hasattr(t, "value") else str(t), str(additional_key), len(index),
                    hashlib.sha1(",".join(map(str, index)).encode()).hexdigest()[:10],
                    hashlib.sha1(",".join(float(v).hex() for v in out).encode()).hexdigest()[:10]])
        return out

    get_draw.__wrapped__ = orig
    RandomnessStream.get_draw = get_draw
    _installed = True
