"""Worker process for whole-simulation checks (C01, C18).

    python -m vcheck.engine_worker  < job.json  > result.json

job: {"spec": program spec (vcheck/components.py), "mode": "run_simulation" | "run" | "step" |
      "interactive_take" | "interactive_until" | "interactive_step",
      "noise": int (seeds and consumes the global numpy / random generators), "prior_contexts": k,
      "log_draws": bool, "save_at": n | null, "save_path": str, "resume_path": str | null}
result: {"digests": [...], "results": digest, "events": [...], "draws": [...], "error": str | null,
         "hashseed": ..., "context_name": ...}
The process is started with the PYTHONHASHSEED chosen by the parent.
"""
from __future__ import annotations

import hashlib
import json
import os
import random
import sys

from . import impl

impl.load()

import dill  # noqa: E402
import numpy as np  # noqa: E402
import pandas as pd  # noqa: E402
from vivarium import Component  # noqa: E402
from vivarium.framework.engine import SimulationContext  # noqa: E402
from vivarium.interface.interactive import InteractiveContext  # noqa: E402

from . import components, drawlog  # noqa: E402


def table_digest(df: pd.DataFrame) -> str:
    df = df[sorted(df.columns)]
    parts = [",".join(df.columns), ",".join(map(str, df.index))]
    for c in df.columns:
        col = df[c]
        if col.dtype.kind == "f":
            parts.append(";".join("nan" if pd.isna(v) else float(v).hex() for v in col))
        elif col.dtype.kind in "mM":
            parts.append(";".join("nat" if pd.isna(v) else str(int(v.value)) for v in col))
        else:
            parts.append(";".join(str(v) for v in col))
    return hashlib.sha1("\n".join(parts).encode()).hexdigest()[:16]


def results_digest(res: dict) -> str:
    h = hashlib.sha1()
    for k in sorted(res):
        df = res[k]
        cols = list(df.columns)          # column order is part of the result (measure identifiers)
        rows = sorted(tuple(float(v).hex() if isinstance(v, (float, np.floating)) else str(v) for v in r)
                      for r in df[cols].itertuples(index=False))
        h.update((k + "|" + ",".join(cols) + "|" + repr(rows)).encode())
    return h.hexdigest()[:16]


class SimulatedCrash(Exception):
    pass


class Probe(Component):
    """passive observer: digests the whole state table at the start and at the end of every step"""

    def __init__(self, noise):
        super().__init__()
        self.noise = noise
        self.digests = []
        self.events = []
        self.sim = None
        self.crash_at = None      # simulated crash: raise at the start of step number `crash_at` (0-based)
        self.steps_started = 0

    @property
    def name(self):
        return "zz_probe"

    @property
    def time_step_prepare_priority(self):
        return 0

    @property
    def collect_metrics_priority(self):
        return 9

    def setup(self, builder):
        self.clock = builder.time.clock()
        self.stepf = builder.time.step_size()

    def _tick(self, x):
        return int(x.value) if hasattr(x, "value") else int(x)

    def _dig(self, tag, event):
        pop = self.sim._population.get_population(True)
        self.digests.append(f"{tag}:{table_digest(pop)}")
        self.events.append([tag, self._tick(self.clock()), self._tick(event.step_size), len(event.index), len(pop)])
        # consume the process-global generators: must be irrelevant
        np.random.random(self.noise % 7 + 1)
        random.random()

    def on_time_step_prepare(self, event):
        if self.crash_at is not None and self.steps_started == self.crash_at:
            raise SimulatedCrash()
        if self.steps_started == 0:
            # the table right after the initial population was created (before anything stepped)
            self.digests.append("init:" + table_digest(self.sim._population.get_population(True)))
        self.steps_started += 1
        self._dig("prepare", event)

    def on_collect_metrics(self, event):
        self._dig("metrics", event)

    def on_simulation_end(self, event):
        self._dig("end", event)


def finish(sim, probe, mode, out):
    clock = sim._clock
    if mode in ("run_simulation", "run"):
        sim.run()
    elif mode == "step":
        while sim.current_time < clock.stop_time:
            sim.step()
    elif mode == "interactive_take":
        n = 0
        while sim.current_time < clock.stop_time:      # one at a time through the interactive API
            sim.take_steps(1, with_logging=False)
            n += 1
    elif mode == "interactive_until":
        sim.run_until(clock.stop_time, with_logging=False)
    elif mode == "interactive_step":
        while sim.current_time < clock.stop_time:
            sim.step()
    else:
        raise ValueError(mode)
    sim.finalize()
    out["digests"] = probe.digests
    out["events"] = probe.events
    out["results"] = results_digest(sim.get_results())
    out["final_table"] = table_digest(sim._population.get_population(True))


def main():
    job = json.load(sys.stdin)
    spec, mode, noise = job["spec"], job["mode"], int(job.get("noise", 0))
    out = {"error": None, "hashseed": os.environ.get("PYTHONHASHSEED"), "mode": mode}
    np.random.seed(noise % (2 ** 31))
    random.seed(noise)
    np.random.random(noise % 5)
    try:
        if job.get("resume_path"):
            with open(job["resume_path"], "rb") as f:
                sim = dill.load(f)
            probe = [c for c in sim._component_manager._components if c.name == "zz_probe"][0]
            probe.noise = noise
            probe.crash_at = None
            # the crashed process had already entered the next step's first state; the backup was written before that
            finish(sim, probe, "step", out)
        else:
            for k in range(int(job.get("prior_contexts", 0))):
                if k % 2 == 0:
                    # a whole DIFFERENT simulation earlier in this process (set up, stepped, finalized)
                    from . import enginekit
                    ps = enginekit.prior_spec(noise + k)
                    psim = SimulationContext(components=components.build(ps), configuration=components.configuration(ps),
                                             plugin_configuration=components.plugins(ps), logging_verbosity=0)
                    psim.setup()
                    psim.initialize_simulants()
                    psim.step()
                    psim.finalize()
                    psim.get_results()
                else:
                    SimulationContext(components=[], configuration={"population": {"population_size": 1}}, logging_verbosity=0)
            if job.get("log_draws"):
                drawlog.install()
            probe = Probe(noise)
            comps = components.build(spec) + [probe]
            kw = dict(components=comps, configuration=components.configuration(spec),
                      plugin_configuration=components.plugins(spec), logging_verbosity=0)
            if mode.startswith("interactive") or job.get("save_ctx") == "interactive":
                sim = InteractiveContext(setup=False, **kw)
                probe.sim = sim
                sim.setup()
            elif mode == "run_simulation" and job.get("save_at") is None and job.get("crash_at") is None:
                # literally the one-call API: setup, initialize_simulants, run, finalize, report
                sim = SimulationContext(**kw)
                probe.sim = sim
                sim.run_simulation()
                out["context_name"] = sim.name
                out["digests"] = probe.digests
                out["events"] = probe.events
                out["results"] = results_digest(sim.get_results())
                out["final_table"] = table_digest(sim._population.get_population(True))
                if job.get("log_draws"):
                    out["draws"] = drawlog.LOG
                json.dump(out, sys.stdout)
                return
            else:
                sim = SimulationContext(**kw)
                probe.sim = sim
                sim.setup()
                sim.initialize_simulants()
            out["context_name"] = sim.name
            if job.get("crash_at") is not None:
                # the engine's own backup path: run(backup_path, backup_freq) writes a backup after every step; the
                # process "crashes" at the start of step `crash_at`, leaving the backup of the previous boundary on disk
                probe.crash_at = int(job["crash_at"])
                if probe.crash_at == 0:
                    sim.write_backup(job["save_path"])     # nothing stepped yet: run() has not written anything
                try:
                    sim.run(backup_path=job["save_path"], backup_freq=1e-9)
                    out["crashed"] = False
                except SimulatedCrash:
                    out["crashed"] = True
                out["digests"] = list(probe.digests)
                out["saved"] = True
            elif job.get("save_at") is not None:
                for _ in range(int(job["save_at"])):
                    sim.step()
                sim.write_backup(job["save_path"])
                out["digests"] = list(probe.digests)
                out["saved"] = True
            else:
                finish(sim, probe, mode, out)
            if job.get("log_draws"):
                out["draws"] = drawlog.LOG
    except BaseException as e:  # noqa: BLE001
        import traceback
        out["error"] = f"{type(e).__name__}: {e}"
        out["trace"] = traceback.format_exc()[-2000:]
    json.dump(out, sys.stdout)


if __name__ == "__main__":
    main()
