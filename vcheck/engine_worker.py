"""Worker process for whole-simulation checks (C01, C18).

    python -m vcheck.engine_worker  < job.json  > ... @@VCHECK@@<result.json>

job: {"spec": program spec (vcheck/components.py),
      "mode": one of enginekit.MODES (which API drives the run),
      "route": one of enginekit.ROUTES (how components and configuration reach the context),
      "noise": int (seeds and consumes the global numpy / random generators),
      "prior": k | [style, ...]  (earlier contexts of this process: "empty" | "rich" | "same" | "twin" | "interleaved"),
      "verbosity": 0 | 1 | 2 (1, 2: loguru really logs, to a null device), "sim_name": str | null,
      "log_draws": bool, "report_dir": str | null (output_data.results_directory; `report()` writes there),
      C18: "save_all": {"dir", "ctx": "engine" | "interactive", "how": "write_backup" | "run_backup"},
           "save_at": n, "save_ctx", "save_path", "crash_at": n,
           "resume_path": str, "resume_mode": "step" | "run" | "take" | "until", "then_save": {"after": k, "path": str}}
result: {"digests": [...], "results": digest, "measures": {name: digest}, "events": [...], "draws": [...], "error": str | null,
         "hashseed": ..., "context_name": ..., "ret": what run / run_until / run_for returned, "report": digest of the written files}
The process is started with the PYTHONHASHSEED chosen by the parent. The result is the last stdout line that starts
with @@VCHECK@@ (the simulation itself may log to stdout).
"""
from __future__ import annotations

import hashlib
import json
import os
import random
import shutil
import sys
import tempfile

from . import impl

impl.load()

import dill  # noqa: E402
import numpy as np  # noqa: E402
import pandas as pd  # noqa: E402
from vivarium import Component  # noqa: E402
from vivarium.framework.engine import SimulationContext  # noqa: E402
from vivarium.interface.interactive import InteractiveContext  # noqa: E402

from . import components, drawlog  # noqa: E402

MARK = "@@VCHECK@@"


def _cell(v) -> str:
    if isinstance(v, (float, np.floating)):
        return "nan" if pd.isna(v) else float(v).hex()
    if isinstance(v, (pd.Timestamp, pd.Timedelta)):
        return str(int(v.value))
    if v is pd.NaT:
        return "nat"
    return str(v)


def table_digest(df: pd.DataFrame) -> str:
    df = df[sorted(df.columns)]
    parts = [",".join(df.columns), ",".join(map(str, df.index))]
    for c in df.columns:
        col = df[c]
        if col.dtype.kind == "f":
            parts.append(";".join("nan" if pd.isna(v) else float(v).hex() for v in col))
        elif col.dtype.kind in "mM":
            parts.append(";".join("nat" if pd.isna(v) else str(int(v.value)) for v in col))
        else:
            parts.append(";".join(str(v) for v in col))
    return hashlib.sha1("\n".join(parts).encode()).hexdigest()[:16]


def measure_digest(df: pd.DataFrame) -> str:
    cols = list(df.columns)          # column order is part of the result (measure identifiers)
    rows = sorted(tuple(_cell(v) for v in r) for r in df[cols].itertuples(index=False))
    return hashlib.sha1((",".join(map(str, cols)) + "|" + repr(rows)).encode()).hexdigest()[:12]


def results_digest(res: dict) -> str:
    h = hashlib.sha1()
    for k in sorted(res):
        h.update((k + "|" + measure_digest(res[k])).encode())
    return h.hexdigest()[:16]


class SimulatedCrash(Exception):
    pass


class Probe(Component):
    """passive observer: digests the whole state table at the start and at the end of every step, and the results so far
    at the end of every step"""

    def __init__(self, noise):
        super().__init__()
        self.noise = noise
        self.digests = []
        self.events = []
        self.sim = None
        self.crash_at = None      # simulated crash: raise at the start of step number `crash_at` (0-based)
        self.steps_started = 0
        self.others = []          # contexts of OTHER simulations of this process, stepped in the middle of this one's steps
        self.copy_from = None     # run(backup_path, ...) target: copied to copy_to % boundary at the start of the next step
        self.copy_to = None
        self.peek = False         # look around between the steps through every read-only API of the context

    @property
    def name(self):
        return "zz_probe"

    @property
    def time_step_prepare_priority(self):
        return 0

    @property
    def collect_metrics_priority(self):
        return 9

    def setup(self, builder):
        self.clock = builder.time.clock()
        self.stepf = builder.time.step_size()

    def _tick(self, x):
        return int(x.value) if hasattr(x, "value") else int(x)

    def _dig(self, tag, event):
        pop = self.sim._population.get_population(True)
        d = table_digest(pop)
        if tag == "metrics":
            d += "/" + results_digest(self.sim.get_results())
        self.digests.append(f"{tag}:{d}")
        self.events.append([tag, self._tick(self.clock()), self._tick(event.step_size), len(event.index), len(pop)])
        # consume the process-global generators: must be irrelevant
        np.random.random(self.noise % 7 + 1)
        random.random()
        if self.noise % 3 == 0:
            np.random.seed(self.noise % 1000 + len(self.digests))
            random.seed(len(self.digests))

    def on_time_step_prepare(self, event):
        if self.crash_at is not None and self.steps_started == self.crash_at:
            raise SimulatedCrash()
        if self.copy_from and self.steps_started > 0 and os.path.exists(self.copy_from):
            shutil.copyfile(self.copy_from, self.copy_to % self.steps_started)
        if self.steps_started == 0:
            # the table right after the initial population was created (before anything stepped)
            self.digests.append("init:" + table_digest(self.sim._population.get_population(True)))
        self.steps_started += 1
        self._dig("prepare", event)
        for o in self.others:
            # another simulation of the same process takes a step while this one is inside its own
            if o.current_time < o._clock.stop_time:
                o.step()

    def on_collect_metrics(self, event):
        self._dig("metrics", event)
        if getattr(self, "peek", False):
            self._look_around()

    def _look_around(self):
        """what somebody exploring a simulation does between steps; none of it may change the outcome"""
        import contextlib
        import io
        sim = self.sim
        with contextlib.redirect_stdout(io.StringIO()):
            pop = sim.get_population()
            sim.get_results()
            sim.get_performance_metrics()
            try:
                sim.get_number_of_steps_remaining()
            except ZeroDivisionError:
                # with per-simulant clocks the global step is legitimately 0 when a simulant created during the step is due at
                # once; `time_steps_remaining` then divides by it. Somebody looking around gets an exception, the simulation
                # is untouched: an observation about that accessor, not a statement of C01 (DESIGN 12.6)
                pass
            repr(sim), str(sim), sim.name, sim.current_time
            for c in sim._component_manager._components:
                repr(c), str(c), c.name
            if isinstance(sim, InteractiveContext):
                sim.get_population(untracked=True)
                sim.get_population(True)
                for name in sim.list_values():
                    pipe = sim.get_value(name)
                    if pipe.source is not None and name != "simulant_step_size":
                        pipe(pop.index)
                        pipe(pop.index[::-1][:3], skip_post_processor=True)
                for e in sim.list_events():
                    sim.get_listeners(e)
                sim.list_components()
                sim.get_component("pop")
                sim.print_initializer_order()
                sim.print_lifecycle_order()

    def on_simulation_end(self, event):
        self._dig("end", event)


def make_context(cls, spec, route, extra, scratch, verbosity=0, sim_name=None, setup_interactive=False):
    """one context for `spec`, its components and configuration delivered through `route`; `extra` = further component
    instances (the probe). An InteractiveContext is created with setup=False unless `setup_interactive`."""
    from layered_config_tree import LayeredConfigTree
    comps = components.build(spec)
    cfg = components.configuration(spec)
    plug = components.plugins(spec)
    kw = dict(logging_verbosity=verbosity)
    if sim_name:
        kw["sim_name"] = sim_name
    if cls is InteractiveContext:
        kw["setup"] = bool(setup_interactive)
    k = max(1, len(comps) // 2)
    if route == "args":
        return cls(components=comps + extra, configuration=cfg, plugin_configuration=plug, **kw)
    if route == "positional":
        # SimulationContext(model_specification, components, configuration, plugin_configuration, sim_name, logging_verbosity)
        return cls(None, comps + extra, cfg, plug, sim_name, verbosity, **({"setup": kw["setup"]} if "setup" in kw else {}))
    if route == "tree":
        return cls(components=comps + extra, configuration=LayeredConfigTree(cfg),
                   plugin_configuration=LayeredConfigTree(plug) if plug else None, **kw)
    if route in ("yaml", "yaml_override"):
        import yaml
        file_cfg = cfg
        if route == "yaml_override":
            # the file carries OTHER values for the same keys; the configuration argument overrides every one of them
            file_cfg = json.loads(json.dumps(cfg))
            file_cfg["randomness"]["random_seed"] += 1
            file_cfg["randomness"]["map_size"] += 1
            file_cfg["population"]["population_size"] += 2
            file_cfg["time"]["step_size"] = file_cfg["time"]["step_size"] * 2
        doc = {"components": components.component_strings(spec), "configuration": file_cfg}
        if plug:
            doc["plugins"] = plug
        path = os.path.join(scratch, f"model_{len(os.listdir(scratch))}.yaml")
        with open(path, "w") as f:
            yaml.safe_dump(doc, f)
        if route == "yaml":
            return cls(model_specification=path, components=list(extra), **kw)
        return cls(path, components=list(extra), configuration=cfg, **kw)
    if route == "update":
        sim = cls(components=comps + extra, plugin_configuration=plug, **kw)
        sim.configuration.update(cfg)
        return sim
    if route == "split":
        sim = cls(components=comps[:k], configuration=cfg, plugin_configuration=plug, **kw)
        sim.add_components(comps[k:] + extra)
        return sim
    if route == "nested_add":
        sim = cls(components=[], configuration=cfg, plugin_configuration=plug, **kw)
        # lists in tuples in lists: [[first, (the others …)], [[probe]]]
        sim.add_components([[comps[0], tuple(comps[1:])], [list(extra)]])
        return sim
    if route == "holder":
        return cls(components=[components.Holder(comps[:k])] + comps[k:] + extra, configuration=cfg, plugin_configuration=plug, **kw)
    raise ValueError(route)


def drive(sim, mode, spec, scratch, out):
    """run the simulation to its configured end through the API `mode` names; the end, the step and the number of steps
    come from the CONFIGURATION (components.stop_time …), not from the clock object"""
    stop, h, n = components.stop_time(spec), components.step_size(spec), components.expected_steps(spec)
    start = components.start_time(spec)
    ret = None
    if mode in ("run_simulation", "run"):
        sim.run()
    elif mode == "run_backup":
        sim.run(backup_path=os.path.join(scratch, "run_backup.pkl"), backup_freq=1e-9)
    elif mode in ("step", "interactive_step"):
        while sim.current_time < stop:
            sim.step()
    elif mode == "interactive_take":
        while sim.current_time < stop:      # one at a time through the interactive API
            sim.take_steps(1, with_logging=False)
    elif mode == "interactive_take_n":
        if n is not None:
            sim.take_steps(number_of_steps=n, step_size=None, with_logging=False)
        else:
            while sim.current_time < stop:
                sim.take_steps()
    elif mode == "interactive_pairs":
        # two steps per call (the second one of a call is taken without coming back to the caller); may overrun the end by one step
        while sim.current_time < stop:
            sim.take_steps(2, with_logging=False)
    elif mode == "interactive_until":
        ret = sim.run_until(stop, with_logging=False)
    elif mode == "interactive_run":
        ret = sim.run(with_logging=False)
    elif mode == "interactive_for":
        ret = sim.run_for(stop - start)
    elif mode == "interactive_mixed":
        sim.step()
        if n is not None and n >= 3:
            sim.take_steps(2)
        ret = sim.run_until(end_time=stop)
    elif mode == "interactive_explicit":
        # an explicit step size equal to the configured one (programs without per-simulant clocks only)
        k = 0
        while sim.current_time < stop:
            if k % 3 == 0:
                sim.step(h)
            elif k % 3 == 1:
                sim.step(step_size=h)
            else:
                sim.take_steps(1, h, False)
            k += 1
    else:
        raise ValueError(mode)
    out["ret"] = ret


def report_digest(d):
    if not d or not os.path.isdir(d):
        return None
    parts = []
    for f in sorted(os.listdir(d)):
        if f.endswith(".parquet"):
            parts.append(f + "|" + measure_digest(pd.read_parquet(os.path.join(d, f))))
    return hashlib.sha1("\n".join(parts).encode()).hexdigest()[:16] + f":{len(parts)}"


def collect(sim, probe, out, report_dir=None):
    res = sim.get_results()
    out["digests"] = list(probe.digests)
    out["events"] = list(probe.events)
    out["results"] = results_digest(res)
    out["measures"] = {k: measure_digest(v) for k, v in res.items()}
    out["final_table"] = table_digest(sim._population.get_population(True))
    out["report"] = report_digest(report_dir)
    out["clock"] = probe._tick(sim.current_time)


def finish(sim, probe, mode, spec, scratch, out, report_dir=None):
    drive(sim, mode, spec, scratch, out)
    sim.finalize()
    sim.report(print_results=False)
    collect(sim, probe, out, report_dir)


def prior_context(style, k, spec, noise, scratch, probe):
    """an EARLIER simulation of this process"""
    from . import enginekit
    rng = random.Random(f"prior:{noise}:{k}")
    if style == "empty":
        SimulationContext(components=[], configuration={"population": {"population_size": 1}}, logging_verbosity=0)
        return
    if style == "twin":
        # the SAME program - same seed, stream names, map size, population - alive in this process and stepped just before every
        # step of the program under test, with the numbers of a simple clock of the other numeric kind (1.0 for 1): every key of
        # that run is EQUAL to a key of the program under test and prints differently (seeded C01-5: a small LRU of draw blocks
        # keyed by the tuple (decision point, clock(), key, seed) instead of the seed string)
        ps = json.loads(json.dumps(spec))
        if ps.get("clock") == "simple":
            ps["float_clock"] = not ps.get("float_clock")
        psim = make_context(SimulationContext, ps, "args", [], scratch)
        psim.setup()
        psim.initialize_simulants()
        probe.others.append(psim)
        return
    if style == "same":
        # the same program with another seed, size and component configuration, left unfinished
        ps = json.loads(json.dumps(spec))
        ps["seed"] += 1
        ps["pop"] += 2
        if ps.get("mort"):
            ps["mort"]["scale"] = 24
        if ps.get("obs") and ps["obs"]["strats"] >= 1:
            ps["obs"]["defaults"] = ["sex"] if ps["obs"].get("defaults") != ["sex"] else []
    else:
        ps = enginekit.prior_spec(noise + k, long=(style == "interleaved"))
        if spec.get("artifact_path"):
            ps["artifact_path"] = spec["artifact_path"]
        elif ps.get("extras"):
            ps["extras"]["art"] = None
    cls = rng.choice([SimulationContext, InteractiveContext])
    route = rng.choice(["args", "tree", "yaml", "update", "split", "holder"])
    psim = make_context(cls, ps, route, [], scratch)
    psim.setup()
    if cls is SimulationContext:
        psim.initialize_simulants()
    if style == "interleaved":
        probe.others.append(psim)
        return
    psim.step()
    if style == "same":
        psim.step()
        return
    psim.finalize()
    psim.get_results()
    if rng.random() < 0.5:
        psim.report(print_results=False)


def real_logging():
    """undo the harness's silencing of loguru: the simulation logs for real, into a null device"""
    from loguru import logger
    for a in ("add", "remove"):
        try:
            delattr(logger, a)
        except AttributeError:
            pass
    sys.stdout = open(os.devnull, "w")


def main():
    job = json.load(sys.stdin)
    real_stdout = sys.stdout
    spec, mode, noise = job["spec"], job.get("mode", "step"), int(job.get("noise", 0))
    out = {"error": None, "hashseed": os.environ.get("PYTHONHASHSEED"), "mode": mode}
    np.random.seed(noise % (2 ** 31))
    random.seed(noise)
    np.random.random(noise % 5)
    scratch = tempfile.mkdtemp(prefix="vcw-")
    try:
        verbosity = int(job.get("verbosity", 0))
        if verbosity:
            real_logging()
        prior = job.get("prior", job.get("prior_contexts", 0))
        if isinstance(prior, int):
            prior = [("rich" if k % 2 == 0 else "empty") for k in range(prior)]
        if job.get("resume_path"):
            holder = Probe(noise)        # only to carry interleaved neighbours of the restoring process
            for k, style in enumerate(prior):
                prior_context(style, k, spec, noise, scratch, holder)
            with open(job["resume_path"], "rb") as f:
                sim = dill.load(f)
            probe = [c for c in sim._component_manager._components if c.name == "zz_probe"][0]
            probe.noise = noise
            probe.crash_at = None
            probe.copy_from = None
            probe.others = holder.others
            probe.peek = bool(job.get("peek"))
            out["context_name"] = sim.name
            out["ctx"] = type(sim).__name__
            rmode = job.get("resume_mode", "step")
            if isinstance(sim, InteractiveContext):
                rmode = {"step": "interactive_step", "run": "interactive_run", "take": "interactive_take", "until": "interactive_until"}[rmode]
            else:
                rmode = {"step": "step", "run": "run", "take": "step", "until": "run"}[rmode]
            ts = job.get("then_save")
            if ts:
                # second interruption: continue for a few steps, write another backup and stop
                stop = components.stop_time(spec)
                for _ in range(int(ts["after"])):
                    if sim.current_time < stop:
                        sim.step()
                sim.write_backup(ts["path"])
                out["digests"] = list(probe.digests)
                out["saved"] = True
            else:
                # the crashed process had already entered the next step's first state; the backup was written before that
                finish(sim, probe, rmode, spec, scratch, out)
        else:
            probe = Probe(noise)
            probe.peek = bool(job.get("peek"))
            for k, style in enumerate(prior):
                prior_context(style, k, spec, noise, scratch, probe)
            if job.get("log_draws"):
                drawlog.install()
            report_dir = job.get("report_dir")
            if report_dir:
                os.makedirs(report_dir, exist_ok=True)
                spec = dict(spec, report_dir=report_dir)
            interactive = mode.startswith("interactive") or job.get("save_ctx") == "interactive" or (job.get("save_all") or {}).get("ctx") == "interactive"
            cls = InteractiveContext if interactive else SimulationContext
            sim = make_context(cls, spec, job.get("route", "args"), [probe], scratch, verbosity, job.get("sim_name"))
            probe.sim = sim
            out["context_name"] = sim.name
            if mode == "run_simulation" and not interactive and job.get("save_at") is None and job.get("crash_at") is None and not job.get("save_all"):
                # literally the one-call API: setup, initialize_simulants, run, finalize, report
                sim.run_simulation()
                collect(sim, probe, out, report_dir)
            else:
                sim.setup()
                if not interactive:
                    sim.initialize_simulants()
                if job.get("crash_at") is not None:
                    # the engine's own backup path: run(backup_path, backup_freq) writes a backup after every step; the
                    # process "crashes" at the start of step `crash_at`, leaving the backup of the previous boundary on disk
                    probe.crash_at = int(job["crash_at"])
                    if probe.crash_at == 0:
                        sim.write_backup(job["save_path"])     # nothing stepped yet: run() has not written anything
                    try:
                        SimulationContext.run(sim, backup_path=job["save_path"], backup_freq=1e-9)
                        out["crashed"] = False
                    except SimulatedCrash:
                        out["crashed"] = True
                    out["digests"] = list(probe.digests)
                    out["saved"] = True
                elif job.get("save_all"):
                    # ONE process writes the backup of EVERY boundary and carries on to the end: its own run must not be disturbed
                    sa = job["save_all"]
                    stop = components.stop_time(spec)
                    pat = os.path.join(sa["dir"], sa["prefix"] + "%d.pkl")

                    def backup(n):
                        try:
                            sim.write_backup(pat % n)
                        except AssertionError:
                            import traceback
                            tb = traceback.format_exc()
                            if "in memoize" not in tb or "pickle.py" not in tb:
                                raise
                            # CPython's pickler and two empty buffers (see C18's oracle): this boundary has no backup
                            out.setdefault("skipped", []).append(n)
                            if os.path.exists(pat % n):
                                os.unlink(pat % n)
                    backup(0)
                    if sa["how"] == "run_backup":
                        probe.copy_from, probe.copy_to = os.path.join(scratch, "current.pkl"), pat
                        SimulationContext.run(sim, backup_path=probe.copy_from, backup_freq=1e-9)
                        if probe.steps_started:
                            shutil.copyfile(probe.copy_from, pat % probe.steps_started)
                        probe.copy_from = None
                    else:
                        n = 0
                        while sim.current_time < stop:
                            sim.step()
                            n += 1
                            backup(n)
                    out["boundaries"] = probe.steps_started + 1
                    sim.finalize()
                    sim.report(print_results=False)
                    collect(sim, probe, out)
                elif job.get("save_at") is not None:
                    for _ in range(int(job["save_at"])):
                        sim.step()
                    sim.write_backup(job["save_path"])
                    out["digests"] = list(probe.digests)
                    out["saved"] = True
                else:
                    finish(sim, probe, mode, spec, scratch, out, report_dir)
            if job.get("log_draws"):
                out["draws"] = drawlog.LOG
    except BaseException as e:  # noqa: BLE001
        import traceback
        out["error"] = f"{type(e).__name__}: {e}"[:600]
        out["trace"] = traceback.format_exc()[-2000:]
    finally:
        shutil.rmtree(scratch, ignore_errors=True)
    real_stdout.write("\n" + MARK + json.dumps(out) + "\n")
    real_stdout.flush()


if __name__ == "__main__":
    main()
