"""Shared helpers for the whole-simulation checks (C01, C18): program generator, process histories and worker launcher."""
from __future__ import annotations

import concurrent.futures as cf
import json
import os
import random
import subprocess
import sys

from . import paths

# APIs that drive a run to its configured end (engine_worker.drive)
ENGINE_MODES = ["run_simulation", "run", "run_backup", "step"]
INTERACTIVE_MODES = ["interactive_take", "interactive_until", "interactive_step", "interactive_take_n", "interactive_run",
                     "interactive_for", "interactive_mixed", "interactive_explicit", "interactive_pairs"]
OVERRUNNING = {"interactive_pairs"}       # APIs that may legitimately take steps beyond the configured end
MODES = ENGINE_MODES + INTERACTIVE_MODES
# how components and configuration reach the context (engine_worker.make_context)
ROUTES = ["args", "positional", "tree", "yaml", "yaml_override", "update", "split", "nested_add", "holder"]
PRIOR_STYLES = ["empty", "rich", "same", "interleaved"]
# dedicated program shapes (rare conjunctions get a mode of their own, not luck)
SPEC_MODES = ["hash", "api", "crn", "services", "results", "tiny", "mixed"]


def gen_spec(rng: random.Random, small=False, mode="mixed") -> dict:
    dt = rng.random() < 0.7
    spec = {
        "clock": "datetime" if dt else "simple",
        "step": rng.choice([1, 10, 0.5, 30.5, 3]) if dt else rng.choice([1, 2, 3]),
        "n_steps": rng.randint(1, 5 if small else 8),
        "pop": rng.choice([0, 1, 2, 7, 15, 30]),
        "seed": rng.randint(0, 10_000),
        "additional_seed": rng.choice([None, None, 0, 3, 12345]),
        "crn_keys": rng.choice([0, 1, 2, 2, 3]),
        "uid_kind": rng.choice(["float", "int"]),
        "map_size": rng.choice([997, 10_007, 100_003]),
        "births": [rng.randint(0, 3) for _ in range(rng.randint(1, 3))],
        "birth_phase": rng.choice(["time_step", "time_step", "time_step__prepare", "time_step__cleanup", "collect_metrics"]),
        "newborn": {"age0": rng.choice([0, 8, 40])} if rng.random() < 0.3 else None,
        "pop_extra": ({"dist": rng.choice([None, "ppf", "scipy"]), "p2d": rng.random() < 0.4,
                       "residual": rng.choice([None, "local"])} if rng.random() < 0.5 else None),
        "perm": rng.random() < 0.4,
        "mort": ({"mods": rng.randint(0, 3), "scale": rng.choice([None, 8, 16, 48]), "form": rng.choice(["rate", "prob"]),
                  "kinds": rng.sample(["method", "method2", "function", "object", "partial", "lambda"], 3)} if rng.random() < 0.7 else None),
        "disease": ({"states": rng.randint(2, 4), "p": [rng.choice([0, 2, 5, 8, 16]) for _ in range(rng.randint(1, 3))],
                     "self": True, "back": rng.random() < 0.5, "excess": rng.random() < 0.5,
                     "trig": ({"at": rng.randint(0, 2), "every": rng.randint(1, 3)} if rng.random() < 0.4 else None),
                     "transient": rng.random() < 0.3} if rng.random() < 0.7 else None),
        "stepmod": ({"every": rng.randint(1, 4), "mult": rng.randint(2, 4), "vary": rng.random() < 0.6}
                    if (dt and rng.random() < 0.4) else None),
        "obs": ({"strats": rng.randint(0, 3), "when": rng.choice(["collect_metrics", "time_step", "time_step__prepare", "time_step__cleanup"]),
                 "concat": rng.random() < 0.5, "defaults": rng.choice([[], [], ["sex"], ["sex", "color"]]),
                 "values": rng.choice([0, 0, 2, 3, 5]), "rich": rng.random() < 0.4, "cfg_excl": rng.random() < 0.2,
                 "report": rng.random() < 0.3} if rng.random() < 0.7 else None),
        "extras": ({"pafs": [rng.choice([0.0, 0.25, 0.5, 0.75]) for _ in range(rng.randint(0, 3))], "cat": rng.random() < 0.4,
                    "tables": rng.random() < 0.4, "ds": rng.choice([None, None, "name"]),
                    "art": ({"draw": rng.randint(0, 2), "via": rng.choice(["load", "ds"])} if rng.random() < 0.3 else None),
                    "late": rng.choice([None, None, 0, 1, 2]), "private": rng.random() < 0.3, "foreign": rng.random() < 0.3}
                   if rng.random() < 0.5 else None),
        "order": [rng.randint(0, 6) for _ in range(rng.randint(0, 3))],
    }
    obs_full = {"strats": 3, "when": rng.choice(["collect_metrics", "time_step", "time_step__cleanup"]), "concat": True,
                "defaults": rng.choice([["sex"], ["sex", "color"]]), "values": rng.choice([3, 5]), "rich": True,
                "cfg_excl": rng.random() < 0.3, "report": rng.random() < 0.5}
    extras_full = {"pafs": [0.25, 0.5, 0.125], "cat": True, "tables": True, "ds": "name",
                   "art": {"draw": rng.randint(0, 2), "via": rng.choice(["load", "ds"])}, "late": rng.choice([0, 1, 2]),
                   "private": True, "foreign": True}
    if mode == "hash":
        # as many set-typed intermediates as the framework has: wide updates, many required columns / values, three
        # stratifications, tables whose column lists pass through sets
        spec.update(pop=rng.choice([7, 15, 30]), n_steps=max(2, spec["n_steps"]), obs=obs_full, extras=dict(extras_full, art=None, late=None),
                    mort=spec["mort"] or {"mods": 2, "scale": None, "form": "rate", "kinds": ["object", "method", "partial"]},
                    pop_extra={"dist": "ppf", "p2d": True, "residual": None})
    elif mode == "api":
        # per-simulant clocks whose GLOBAL step changes during the run + births: where the stepping APIs can part ways
        spec.update(clock="datetime", step=rng.choice([1, 0.5, 3, 10]), n_steps=rng.randint(5, 7 if small else 9), pop=rng.choice([1, 2, 7, 15]),
                    stepmod={"every": rng.randint(2, 3), "mult": rng.randint(2, 4), "vary": True},
                    births=[rng.randint(0, 2), rng.randint(1, 2)], extras=spec["extras"] or {"pafs": [0.5]})
    elif mode == "crn":
        # common random numbers with every key type, births in every step, a small map (collisions)
        spec.update(crn_keys=rng.choice([2, 3, 3]), uid_kind="int", births=[rng.randint(1, 3), rng.randint(1, 3)], pop=rng.choice([7, 15, 30]),
                    map_size=997, n_steps=max(3, spec["n_steps"]), newborn=rng.choice([None, {"age0": 8}]),
                    disease=spec["disease"] or {"states": 3, "p": [5, 8], "self": True, "back": True})
    elif mode == "services":
        spec.update(extras=extras_full, perm=True, pop=max(2, spec["pop"]), n_steps=max(3, spec["n_steps"]),
                    pop_extra={"dist": rng.choice(["ppf", "scipy"]), "p2d": rng.random() < 0.5, "residual": rng.choice([None, "local"])},
                    mort=spec["mort"] or {"mods": 3, "scale": 8, "form": "prob", "kinds": ["lambda", "function", "object"]},
                    disease={"states": rng.randint(3, 4), "p": [rng.choice([2, 5, 8]), rng.choice([2, 5, 8])], "self": True, "back": rng.random() < 0.5,
                             "excess": True, "trig": {"at": rng.randint(0, 1), "every": rng.randint(1, 2)}, "transient": rng.random() < 0.5})
    elif mode == "results":
        spec.update(obs=dict(obs_full, report=True), pop=rng.choice([2, 7, 15, 30]), n_steps=max(2, spec["n_steps"]),
                    mort=spec["mort"] or {"mods": 1, "scale": 48, "form": "rate", "kinds": ["method"]})
    elif mode == "tiny":
        spec.update(pop=rng.choice([0, 0, 1]), n_steps=rng.randint(1, 2), births=rng.choice([[0], [1], [0, 2]]))
    o = spec["obs"]
    if o:
        o["defaults"] = o["defaults"][: o["strats"]]
        if o.get("rich") and o["strats"] < 2:
            o["strats"] = 2        # the rich observer set refers to sex and color
    if spec["extras"] and spec["extras"].get("art") and spec["extras"]["art"].get("via") == "ds":
        spec["extras"]["tables"] = True
    return spec


def gen_history(rng: random.Random, spec: dict, mode: str) -> dict:
    return {"hashseed": rng.choice([1, 2, rng.randint(3, 10_000), "random"]), "noise": rng.randint(1, 10_000),
            "prior": [rng.choice(PRIOR_STYLES) for _ in range(rng.choice([0, 0, 1, 1, 1, 2, 2, 3, 3, 5]))], "mode": mode,
            "route": rng.choice(ROUTES), "verbosity": rng.choice([0, 0, 0, 1, 2]),
            "sim_name": rng.choice([None, None, None, "named_by_user"]), "peek": rng.random() < 0.4}


BASELINE = {"hashseed": 0, "noise": 0, "prior": [], "mode": "run_simulation", "route": "args", "verbosity": 0, "sim_name": None, "peek": False}


def gen_histories(rng: random.Random, spec: dict, n=5) -> list:
    """the baseline (fresh process, one-call API, plain arguments) and `n` other process histories: at least one more engine
    API, the rest interactive APIs; routes, earlier contexts, logging and names at random"""
    inter = [m for m in INTERACTIVE_MODES if not (m == "interactive_explicit" and spec.get("stepmod"))]
    rng.shuffle(inter)
    if spec.get("stepmod"):
        # a changing global step is where the interactive APIs can part ways (F3, F21, F33): always the drive whose second step
        # per call never returns to the caller, run_for, and one of run_until / run; the rest at random
        must = ["interactive_pairs", "interactive_for", rng.choice(["interactive_until", "interactive_run"])]
        inter = must + [m for m in inter if m not in must]
    # (run(backup_path, …) pickles the context: with nobody in the table CPython 3.12's pickler trips over its own assertion)
    modes = [rng.choice([m for m in ENGINE_MODES[1:] if not (m == "run_backup" and spec["pop"] == 0)])] + inter[: n - 1]
    rng.shuffle(modes)
    return [dict(BASELINE)] + [gen_history(rng, spec, m) for m in modes]


def prior_spec(seed: int, long=False) -> dict:
    """an EARLIER simulation of the same process: a different rich program (observers with configured default
    stratifications, CRN keys, births …) that is set up, stepped once and finalized before the program under test"""
    rng = random.Random(f"prior:{seed}")
    spec = gen_spec(rng, small=True)
    spec["n_steps"] = 3 if long else 1
    spec["pop"] = rng.choice([3, 8])
    spec["stepmod"] = None
    spec["obs"] = {"strats": rng.randint(1, 3), "when": "collect_metrics", "concat": rng.random() < 0.5, "defaults": ["sex"],
                   "values": rng.choice([0, 2]), "rich": rng.random() < 0.3}
    if spec["obs"]["rich"]:
        spec["obs"]["strats"] = max(2, spec["obs"]["strats"])
    if spec["obs"]["strats"] >= 2 and rng.random() < 0.5:
        spec["obs"]["defaults"] = ["sex", "color"]
    return spec


class WorkerInfraError(Exception):
    """the worker process died without a verdict (OOM kill, interpreter failure) twice in a row"""


MARK = "@@VCHECK@@"


def _run_worker_once(job: dict, hashseed, timeout) -> dict:
    env = dict(os.environ)
    env["PYTHONHASHSEED"] = str(hashseed)
    env["PYTHONDONTWRITEBYTECODE"] = "1"
    try:
        r = subprocess.run([sys.executable, "-W", "ignore", "-m", "vcheck.engine_worker"], input=json.dumps(job),
                           capture_output=True, text=True, env=env, cwd=str(paths.VERIF), timeout=timeout)
    except subprocess.TimeoutExpired:
        return {"error": "worker timeout", "digests": None, "__infra__": "timeout"}
    try:
        line = [l for l in r.stdout.splitlines() if l.startswith(MARK)][-1]
        return json.loads(line[len(MARK):])
    except Exception:  # noqa: BLE001
        return {"error": "worker crashed: " + (r.stderr or r.stdout)[-800:], "digests": None, "__infra__": "crash"}


def run_worker(job: dict, hashseed, timeout=300) -> dict:
    """one retry when the process dies or times out (machine load); a second timeout is reported as the
    implementation hanging, a second crash is an infrastructure error (no verdict)."""
    r = _run_worker_once(job, hashseed, timeout)
    if r.get("__infra__"):
        r = _run_worker_once(job, hashseed, timeout * 2)
        if r.get("__infra__") == "crash" and "Error" not in r["error"]:
            raise WorkerInfraError(r["error"])
    return r


def run_workers(jobs: list[tuple[dict, object]], parallel=12) -> list[dict]:
    with cf.ThreadPoolExecutor(parallel) as ex:
        futs = [ex.submit(run_worker, j, hs) for j, hs in jobs]
        return [f.result() for f in futs]
