"""Shared helpers for the whole-simulation checks (C01, C18): program generator and worker launcher."""
from __future__ import annotations

import concurrent.futures as cf
import json
import os
import random
import subprocess
import sys

from . import paths

MODES = ["run_simulation", "step", "interactive_take", "interactive_until", "interactive_step"]


def gen_spec(rng: random.Random, small=False) -> dict:
    dt = rng.random() < 0.7
    spec = {
        "clock": "datetime" if dt else "simple",
        "step": rng.choice([1, 10, 0.5, 30.5, 3]) if dt else rng.choice([1, 2, 3]),
        "n_steps": rng.randint(1, 5 if small else 8),
        "pop": rng.choice([0, 1, 2, 7, 15, 30]),
        "seed": rng.randint(0, 10_000),
        "additional_seed": rng.choice([None, None, 0, 3, 12345]),
        "crn_keys": rng.choice([0, 1, 2, 2, 3]),
        "map_size": rng.choice([997, 10_007, 100_003]),
        "births": [rng.randint(0, 3) for _ in range(rng.randint(1, 3))],
        "birth_phase": rng.choice(["time_step", "time_step", "time_step__prepare", "time_step__cleanup", "collect_metrics"]),
        "mort": {"mods": rng.randint(0, 2)} if rng.random() < 0.7 else None,
        "disease": ({"states": rng.randint(2, 4), "p": [rng.choice([0, 2, 5, 8, 16]) for _ in range(rng.randint(1, 3))],
                     "self": True, "back": rng.random() < 0.5} if rng.random() < 0.7 else None),
        "stepmod": ({"every": rng.randint(1, 4), "mult": rng.randint(2, 4), "vary": rng.random() < 0.6}
                    if (dt and rng.random() < 0.4) else None),
        "obs": ({"strats": rng.randint(0, 3), "when": rng.choice(["collect_metrics", "time_step", "time_step__prepare", "time_step__cleanup"]),
                 "concat": rng.random() < 0.5, "defaults": rng.choice([[], [], ["sex"], ["sex", "color"]]),
                 "values": rng.choice([0, 0, 2, 3, 5])} if rng.random() < 0.7 else None),
        "extras": ({"pafs": [rng.choice([0.0, 0.25, 0.5, 0.75]) for _ in range(rng.randint(0, 3))]} if rng.random() < 0.5 else None),
        "order": [rng.randint(0, 5) for _ in range(rng.randint(0, 3))],
    }
    if spec["obs"]:
        spec["obs"]["defaults"] = spec["obs"]["defaults"][: spec["obs"]["strats"]]
    return spec


def prior_spec(seed: int) -> dict:
    """an EARLIER simulation of the same process: a different rich program (observers with configured default
    stratifications, CRN keys, births …) that is set up, stepped once and finalized before the program under test"""
    rng = random.Random(f"prior:{seed}")
    spec = gen_spec(rng, small=True)
    spec["n_steps"] = 1
    spec["pop"] = rng.choice([3, 8])
    spec["stepmod"] = None
    spec["obs"] = {"strats": rng.randint(1, 3), "when": "collect_metrics", "concat": rng.random() < 0.5, "defaults": ["sex"]}
    if spec["obs"]["strats"] >= 2 and rng.random() < 0.5:
        spec["obs"]["defaults"] = ["sex", "color"]
    return spec


class WorkerInfraError(Exception):
    """the worker process died without a verdict (OOM kill, interpreter failure) twice in a row"""


def _run_worker_once(job: dict, hashseed, timeout) -> dict:
    env = dict(os.environ)
    env["PYTHONHASHSEED"] = str(hashseed)
    env["PYTHONDONTWRITEBYTECODE"] = "1"
    try:
        r = subprocess.run([sys.executable, "-W", "ignore", "-m", "vcheck.engine_worker"], input=json.dumps(job),
                           capture_output=True, text=True, env=env, cwd=str(paths.VERIF), timeout=timeout)
    except subprocess.TimeoutExpired:
        return {"error": "worker timeout", "digests": None, "__infra__": "timeout"}
    try:
        return json.loads(r.stdout)
    except Exception:  # noqa: BLE001
        return {"error": "worker crashed: " + (r.stderr or r.stdout)[-800:], "digests": None, "__infra__": "crash"}


def run_worker(job: dict, hashseed, timeout=300) -> dict:
    """one retry when the process dies or times out (machine load); a second timeout is reported as the
    implementation hanging, a second crash is an infrastructure error (no verdict)."""
    r = _run_worker_once(job, hashseed, timeout)
    if r.get("__infra__"):
        r = _run_worker_once(job, hashseed, timeout * 2)
        if r.get("__infra__") == "crash" and "Error" not in r["error"]:
            raise WorkerInfraError(r["error"])
    return r


def run_workers(jobs: list[tuple[dict, object]], parallel=12) -> list[dict]:
    with cf.ThreadPoolExecutor(parallel) as ex:
        futs = [ex.submit(run_worker, j, hs) for j, hs in jobs]
        return [f.result() for f in futs]
