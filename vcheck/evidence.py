"""Write evidence/<id>.json and validate it against EVIDENCE.schema.json (python3-vt has jsonschema)."""
import json
import os
import shutil
import subprocess
import sys

from . import paths

SCHEMA = "/root/.vp/EVIDENCE.schema.json"


def write(prop_id: str, ev: dict) -> bool:
    """returns False when the file written does not validate against the schema (the caller decides what that means: a
    run that found a violation still reports it - exit 1 - and only a run that would otherwise pass becomes exit 2)"""
    d = paths.VERIF / "evidence"
    if str(paths.repo()) != "/repo":
        # mutant self-test against a scratch copy: never overwrite the evidence of the real tree
        d = paths.VERIF / "replays" / "scratch-evidence"
    d.mkdir(exist_ok=True, parents=True)
    p = d / f"{prop_id}.json"
    tmp = d / f".{prop_id}.json.tmp"
    tmp.write_text(json.dumps(ev, indent=1, default=str) + "\n")
    os.replace(tmp, p)
    return validate(p)


def validate(p) -> bool:
    vt = shutil.which("python3-vt")
    if not vt or not os.path.exists(SCHEMA):
        return True
    code = ("import json,sys,jsonschema;"
            "jsonschema.validate(json.load(open(sys.argv[1])), json.load(open(sys.argv[2])))")
    r = subprocess.run([vt, "-c", code, str(p), SCHEMA], capture_output=True, text=True)
    if r.returncode != 0:
        sys.stderr.write("evidence file does not validate:\n" + r.stderr[-1500:] + "\n")
        return False
    return True
