"""known_findings.json: genuine defects recorded rather than repaired (status open) and the record of
repaired ones (status fixed, which suppress nothing). Never written at run time."""
import json

from . import paths


def load() -> list:
    p = paths.VERIF / "known_findings.json"
    if not p.exists():
        return []
    return json.loads(p.read_text())["findings"]


def match(kf: list, prop_id: str, sig: str):
    for k in kf:
        if k.get("status") == "open" and prop_id in k["properties"] and k["signature"] == sig:
            return k
    return None
