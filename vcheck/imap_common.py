"""Shared by the C03 and C04 checks: building key frames for the real `IndexMap`, running a registration
history on it, and writing the same history as lines for Driver/C03.lean.

A *history* is JSON:
  {"size": n, "cols": ["int"|"float"|"time", …]  (empty = no CRN), "tunit": "ns"|"us"|"s",
   "batches": [{"t": ["time", ns] | ["int", v], "sims": [..], "keys": [[v, …], …], "get": [sims …] | None}, …]}
Key values: int → Python int (int64 range); float → Python float (finite, never -0.0); time → integer
nanoseconds since the epoch (a multiple of 10^9, so every datetime unit holds it exactly).
Optional (LESSONS.md 2, 3, 5): hist["dtypes"] numpy dtype per int / float column (int8 … uint32, float32), hist["names"]
column names; batch["frame"] = {"order": permutation of the frame's columns, "extra": add a non-key column,
"index_name": name of the frame's index, "range": RangeIndex}; batch["bad"] = {"col": j, "dtype": "bool"|"str"|"category"}
replaces one key column by an unhashable one; clock kinds "time" | "tz" | "int" | "npint" | "float";
batch["repr"] = per column the representation THIS batch arrives in (LESSONS.md 13): a numpy dtype for int / float
columns – an "int" column may arrive as float64 / float32, a "float" column with whole values as int64 / int32 … – or the
datetime unit "ns" | "us" | "s"; identity of a key is its VALUE (30 == 30.0, same instant in any unit), the hash is the one
of the batch's own dtype; batch["get_kind"] = container of the `__getitem__` request: "index" | "int32" | "range" | "list" | "array" | "series".
"""
from __future__ import annotations

import math
import struct

from . import impl

SPREAD = 111111
BIG = 2305843009213693951          # 2^61 - 1 (prime): second modulus used to compare the hash arithmetic finely
NP_DTYPE = {"int": "int64", "float": "float64"}


def repeat_alarm(seconds: float, every: float = 2.0):
    """Tighten the runner's per-case budget for this case. The budget is CPU time of the process (ITIMER_PROF, handled
    by the runner as `CaseTimeout`): `IndexMap`'s collision loop spins when it hangs, so it uses the budget up, while
    a machine oversubscribed by other checks does not (at a load average of 160 on 16 cores honest cases used to be
    reported as `timeout` under a wall-clock deadline). The timer repeats, because the exception raised by a single
    signal can be swallowed inside pandas while the loop keeps spinning (seen once under
    mutants/C03/break-modulus-off-by-one); the runner disarms it after the case."""
    import signal
    try:
        signal.setitimer(signal.ITIMER_PROF, float(seconds), float(every))
    except (ValueError, OSError):      # not in the main thread: leave the runner's timers alone
        pass


def coprime_sizes(ncols: int, lo: int, hi: int) -> list[int]:
    """block sizes for which the salt shift ncols*111111 generates every residue (DESIGN.md F11)"""
    return [s for s in range(lo, hi + 1) if math.gcd(s, max(1, ncols) * SPREAD) == 1]


PRIMES = [2, 3, 5, 7, 11, 13, 17, 19, 23, 27]


def _w64(x: int) -> int:
    return (x + 2**63) % 2**64 - 2**63


def ref_hash_int(key, salt: int, size: int) -> int:
    """Pure-Python `_hash` for all-integer keys and an integer salt. Used ONLY by generators to aim at collision
    chains (never by an oracle): if the implementation's hash changes, the aim is lost, nothing else."""
    s10 = _w64(salt * SPREAD) % 10**10
    tot = 0
    for v in key:
        c = _w64(int(v) * SPREAD) % 10**10
        out = 1
        for i, p in enumerate(PRIMES):
            out = _w64(out * p ** ((c // 10**i) % 10))
        tot = _w64(tot + _w64(out + s10))
    return tot % size


def float_rank(x: float) -> int:
    """order-preserving injection float64 → int (IEEE bits; negatives mirrored)"""
    if x == 0.0:
        x = 0.0
    b = struct.unpack(">q", struct.pack(">d", x))[0]
    return b if b >= 0 else -(b & 0x7FFFFFFFFFFFFFFF) - 1


def canon_key(types, key):
    """hashable identity of a key as pandas sees it (equal raw values)"""
    return tuple(float(v) if ty == "float" else int(v) for ty, v in zip(types, key))


def plain_case_key(types, key):
    """a key of the case as plain values (numbers compare by value: 30 == 30.0; datetimes as ns)"""
    return [(float(v) if ty == "float" else int(v)) for ty, v in zip(types, key)]


def repr_of(hist, b, j):
    """the dtype (int / float columns) or unit (datetime columns) column j of batch b arrives in"""
    r = (b.get("repr") or [None] * len(hist["cols"]))[j]
    if r:
        return r
    ty = hist["cols"][j]
    if ty == "time":
        return hist.get("tunit", "ns")
    return (hist.get("dtypes") or [None] * len(hist["cols"]))[j] or NP_DTYPE[ty]


def repr_class(r: str) -> str:
    """what decides the hash: integer (any width), float (any width), datetime per unit"""
    if r.startswith(("int", "uint")):
        return "int"
    if r.startswith("float"):
        return "float"
    return "t:" + r


def batch_classes(hist, b):
    return tuple(repr_class(repr_of(hist, b, j)) for j in range(len(hist["cols"])))


def col_names(types):
    return [f"k{i}" for i in range(len(types))]


def names_of(hist):
    return list(hist.get("names") or col_names(hist["cols"]))


def mk_frame(types, tunit, sims, keys, names=None, dtypes=None, frame=None, bad=None, reprs=None):
    """the key frame of one batch, in the container / dtype / column-order variant the case asks for"""
    import numpy as np
    import pandas as pd
    names = list(names or col_names(types))
    frame = frame or {}
    data = {}
    for j, (name, ty) in enumerate(zip(names, types)):
        vals = [k[j] for k in keys]
        if bad and bad["col"] == j:
            if bad["dtype"] == "bool":
                data[name] = np.array([bool(i % 2) for i in range(len(vals))], dtype=bool)
            elif bad["dtype"] == "category":
                data[name] = pd.Categorical([int(i) for i in range(len(vals))])
            else:
                data[name] = np.array([f"s{i}" for i in range(len(vals))], dtype=object)
        elif ty == "time":
            data[name] = pd.to_datetime(np.array(vals, dtype="int64"), unit="ns").as_unit((reprs[j] if reprs and reprs[j] else tunit))
        else:
            dt = (reprs[j] if reprs and reprs[j] else None) or (dtypes[j] if dtypes and dtypes[j] else NP_DTYPE[ty])
            data[name] = np.array([int(v) for v in vals] if dt.startswith(("int", "uint")) else vals, dtype=dt)
    if frame.get("extra"):
        data["not_a_key"] = [f"x{i}" for i in range(len(keys))]
        data["also_not_a_key"] = np.arange(len(keys), dtype=float)
    order = list(data)
    if frame.get("order"):
        order = [names[i] for i in frame["order"]] + [c for c in order if c not in names]
        if frame.get("extra"):
            order = order[-1:] + order[:-1]          # an extra column first
    sims = [int(x) for x in sims]
    if frame.get("range") and sims and sims == list(range(sims[0], sims[0] + len(sims))):
        index = pd.RangeIndex(sims[0], sims[0] + len(sims))
    else:
        index = pd.Index(np.array(sims, dtype="int64"))
    if frame.get("index_name"):
        index = index.rename(frame["index_name"])
    return pd.DataFrame(data, index=index)[order]


def mk_salt(t, tunit):
    import numpy as np
    import pandas as pd
    if t[0] == "time":
        return pd.Timestamp(int(t[1]), unit="ns").as_unit(tunit)
    if t[0] == "tz":
        return pd.Timestamp(int(t[1]), unit="ns", tz="UTC").as_unit(tunit)
    if t[0] == "float":
        return float(t[1])
    if t[0] == "npint":
        return np.int64(t[1])
    return int(t[1])


def mk_request(sims, kind):
    """a `__getitem__` request in the container the case asks for"""
    import numpy as np
    import pandas as pd
    sims = [int(x) for x in sims]
    if kind == "range" and sims and sims == list(range(sims[0], sims[0] + len(sims))):
        return pd.RangeIndex(sims[0], sims[0] + len(sims))
    if kind == "int32":
        return pd.Index(np.array(sims, dtype="int32"))
    if kind == "list" and sims:
        return sims
    if kind == "array" and sims:
        return np.array(sims, dtype="int64")
    if kind == "series" and sims:
        return pd.Series(sims, index=[f"r{i}" for i in range(len(sims))])
    return pd.Index(np.array(sims, dtype="int64"))


def key_index(df, types):
    """the key-level index of a key frame, as `IndexMap` derives it (Index for one column, MultiIndex otherwise)"""
    import pandas as pd
    names = col_names(types)
    if len(names) == 1:
        return pd.Index(df[names[0]].array, name=names[0])
    return pd.MultiIndex.from_frame(df[names])


def dump_map(im):
    """`_map` as [[sim, position]] sorted by simulant, with the keys attached to each simulant; None when empty"""
    if im._map is None:
        return None, None
    idx = im._map.index.tolist()
    vals = im._map.tolist()
    rows = []
    for ix, v in zip(idx, vals):
        try:
            p = int(v) if float(v) == int(v) else repr(v)
        except (ValueError, OverflowError):
            p = repr(v)
        rows.append((int(ix[0]), p, ix[1:]))
    rows.sort(key=lambda r: (r[0], str(r[2])))
    return [[s, p] for s, p, _ in rows], [[s, _plain(k)] for s, _, k in rows]


def _plain(key):
    import pandas as pd
    out = []
    for v in key:
        if isinstance(v, pd.Timestamp):
            out.append(int(v.as_unit("ns").value))
        elif isinstance(v, float):
            out.append(v)
        else:
            out.append(int(v))
    return out


def outcome_of(e: BaseException) -> str:
    n = type(e).__name__
    if n == "CaseTimeout":          # the runner's per-case alarm: not an outcome of the implementation
        raise e
    return {"RandomnessError": "err:randomness", "KeyError": "err:key"}.get(n, "err:" + n)


class LoopBudgetExceeded(Exception):
    """raised by the harness from inside `IndexMap._hash` (instance attribute) when the collision loop cannot end"""


def _as_pos(v):
    try:
        return int(v) if float(v) == int(v) else repr(v)
    except (ValueError, OverflowError, TypeError):
        return repr(v)


def observe_update(im, big, df, t, names, hash_probe=6, update=None, probe=True):
    """One `IndexMap.update(df, t)` on the real object `im`, with everything the checks look at:
    ten-digit conversions (the model's parameter), first hash of every key, hash probes, outcome class, the map
    before and after, the number of collision-loop passes, and – the public observation point – the position of every
    registered simulant through `__getitem__` (requested in another order than `_map`'s).
    `update` = the bound method to call (the unwrapped one when `im.update` is instrumented)."""
    import pandas as pd
    rec = {}
    rec["salt10"] = int(im._convert_to_ten_digit_int(pd.Series(t, index=[0])).iloc[0])
    if names and len(df) and probe:
        rec["ten"] = [[int(x) for x in im._convert_to_ten_digit_int(df[c]).tolist()] for c in names]   # per column
        if len(names) == 1:
            ki = pd.Index(df[names[0]].array, name=names[0])
        else:
            ki = pd.MultiIndex.from_frame(df[list(names)])
        rec["raw"] = [int(x) for x in im._hash(ki, salt=t).tolist()]                  # first hash, this size
        sub = ki[:min(hash_probe, len(df))]
        rec["probe"] = {"t_big": [], "s1": [], "s90001_big": []}
        if len(sub):
            rec["probe"]["t_big"] = [int(x) for x in big._hash(sub, salt=t).tolist()]
            rec["probe"]["s1"] = [int(x) for x in im._hash(sub, salt=1).tolist()]              # collision salts
            rec["probe"]["s90001_big"] = [int(x) for x in big._hash(sub, salt=90001).tolist()]  # _spread wraps 10^10
    before = dump_map(im)
    calls = [0]
    orig_hash = im._hash
    # With a shift that generates every residue (the sizes the generators use) a colliding key has tried every slot after
    # `size` passes, so an update of a block that is not over-full never needs more. Beyond that the loop is spinning for
    # good (DESIGN.md F11): stop it here instead of waiting for the wall-clock alarm (which is slow and load-dependent).
    budget = len(im) + 8

    def counting_hash(*a, **k):
        calls[0] += 1
        if calls[0] > budget + 1:
            raise LoopBudgetExceeded(f"{calls[0] - 1} passes of the collision loop in a block of {len(im)}")
        return orig_hash(*a, **k)

    im._hash = counting_hash            # instance attribute; removed again below
    try:
        (update or im.update)(df, t)
        rec["outcome"] = "ok"
    except Exception as e:  # noqa: BLE001
        rec["outcome"] = outcome_of(e)
        rec["exc"] = e
    finally:
        del im._hash
    rec["passes"] = max(0, calls[0] - 1)          # collision-loop iterations
    rec["map"], rec["keys"] = dump_map(im)
    rec["before"] = before[0]
    if rec["map"] is not None:
        sims = [s for s, _ in rec["map"]]
        req = sims[::-1][1:] + sims[::-1][:1]      # reversed and rotated: neither sorted nor in `_map` order
        try:
            got = im[pd.Index(req, dtype="int64")]
            rec["pos"] = sorted([int(s), _as_pos(p)] for s, p in zip(req, list(got)))
        except Exception as e:  # noqa: BLE001
            rec["pos"] = outcome_of(e)
    else:
        rec["pos"] = None
    return rec


def run_history(hist, hash_probe=6):
    """Run the history on a real IndexMap; observations per batch (all JSON-serialisable)."""
    impl.load()
    from vivarium.framework.randomness.index_map import IndexMap

    types, tunit, size = hist["cols"], hist.get("tunit", "ns"), hist["size"]
    names = names_of(hist)
    im = IndexMap(list(names), size=size)
    big = IndexMap(list(names), size=BIG)
    out = []
    for b in hist["batches"]:
        t = mk_salt(b["t"], tunit)
        df = mk_frame(types, tunit, b["sims"], b["keys"], names=names, dtypes=hist.get("dtypes"), frame=b.get("frame"),
                      bad=b.get("bad"), reprs=b.get("repr"))
        rec = observe_update(im, big, df, t, names, hash_probe, probe=not b.get("bad"))
        rec.pop("exc", None)
        if b.get("get") is not None:
            try:
                rec["get"] = [_as_pos(x) for x in list(im[mk_request(b["get"], b.get("get_kind", "index"))])]
            except Exception as e:  # noqa: BLE001
                rec["get"] = outcome_of(e)
        out.append(rec)
    return out


def batch_of_frame(df, t, names):
    """(types, batch) describing a key frame handed to `IndexMap.update` by running code, in history form; the batch
    records the representation (dtype / datetime unit) its columns arrived in"""
    import numpy as np
    import pandas as pd
    import pandas.api.types as pdt
    types, cols, reprs = [], [], []
    for c in names:
        col = df[c]
        if pdt.is_datetime64_any_dtype(col):
            types.append("time")
            reprs.append(np.datetime_data(col.dtype)[0])
            cols.append([int(x) for x in col.astype("datetime64[ns]").astype("int64").tolist()])
        elif pdt.is_integer_dtype(col):
            types.append("int")
            reprs.append(str(col.dtype))
            cols.append([int(x) for x in col.tolist()])
        else:
            types.append("float")
            reprs.append(str(col.dtype))
            cols.append([float(x) for x in col.tolist()])
    keys = [[cols[j][i] for j in range(len(names))] for i in range(len(df))]
    tt = ["time", int(pd.Timestamp(t).as_unit("ns").value)] if isinstance(t, pd.Timestamp) else ["int", int(t)]
    return types, {"t": tt, "sims": [int(x) for x in df.index.tolist()], "keys": keys, "get": None, "repr": reprs}


def instrument(im, log, hash_probe=2):
    """Record every `update` call made on the real IndexMap `im` by the code that owns it (instance attribute;
    the source is untouched). `log` receives {"types", "batch", "rec"} per call."""
    from vivarium.framework.randomness.index_map import IndexMap
    big = IndexMap(list(im._key_columns), size=BIG)
    inner = im.update

    def update(new_keys, clock_time):
        names = list(im._key_columns)
        if not names or new_keys.empty:
            return inner(new_keys, clock_time)
        types, batch = batch_of_frame(new_keys, clock_time, names)
        rec = observe_update(im, big, new_keys, clock_time, names, hash_probe=hash_probe, update=inner)
        exc = rec.pop("exc", None)
        log.append({"types": types, "batch": batch, "rec": rec})
        if exc is not None:
            raise exc

    im.update = update


# ------------------------------------------------------------------ model lines

def enc_val(ty, v, ten):
    if ty == "int":
        return f"i{int(v)}"
    if ty == "float":
        return f"c{float_rank(float(v))}_{int(ten)}"
    return f"c{int(v)}_{int(ten)}"


def enc_salt(t, salt10):
    if t[0] in ("int", "npint"):
        return f"i{int(t[1])}"
    if t[0] == "float":
        return f"c{float_rank(float(t[1]))}_{int(salt10)}"
    return f"c{int(t[1])}_{int(salt10)}"


def enc_key(types, key, tens, mixed=None, classes=None):
    """model tokens of one key. A numeric value is sent as `i<v>` (the model applies `_spread` itself) only when the column
    arrives as integers in EVERY batch of the history; otherwise – float batches, or a column whose representation changes
    along the history (`mixed`) – as order code of the VALUE plus the ten-digit integer the real helper produced for the
    batch's own dtype."""
    out = []
    for j, (ty, v, ten) in enumerate(zip(types, key, tens)):
        if ty == "time":
            out.append(f"c{int(v)}_{int(ten)}")
        elif (mixed and mixed[j]) or (classes[j] if classes else ty) != "int":
            out.append(f"c{float_rank(float(v))}_{int(ten)}")
        else:
            out.append(f"i{int(v)}")
    return ",".join(out)


def mixed_columns(hist):
    n = len(hist["cols"])
    return [len({repr_class(repr_of(hist, b, j)) for b in hist["batches"] if b["sims"] and not b.get("bad")}) > 1 for j in range(n)]


def history_lines(hist, obs, name="imap"):
    """The same history as driver lines; returns (lines, plan) where plan[i] says what reply i answers.
    The model's key identity is structural, the real one is by value: a key that is already registered is sent with the
    tokens it was registered with (the batch is a duplicate and must be rejected, its hash never matters)."""
    types, size = hist["cols"], hist["size"]
    mixed = mixed_columns(hist) if types else []
    registered = {}
    L = [f"{name} new {1 if types else 0} {size}"]
    plan = [("new", None)]
    for bi, (b, rec) in enumerate(zip(hist["batches"], obs)):
        salt = enc_salt(b["t"], rec["salt10"])
        if b.get("bad"):
            # an unhashable key column: the real code must reject the batch and keep its map; the model simply does
            # not see the batch (key types other than int / float / datetime are outside the model)
            if b.get("get") is not None:
                L.append(f"{name} get {','.join(str(int(s)) for s in b['get']) or '-'}"); plan.append(("get", bi))   # noqa: E702
            continue
        if types and b["sims"]:
            tens = rec["ten"]
            cks = [canon_key(types, k) for k in b["keys"]]
            own = [enc_key(types, k, [tens[j][i] for j in range(len(types))], mixed, batch_classes(hist, b)) for i, k in enumerate(b["keys"])]
            rows = ";".join(f"{int(s)}," + registered.get(ck, tok) for s, ck, tok in zip(b["sims"], cks, own))
            if len(set(cks)) == len(cks) and not (set(cks) & set(registered)):
                registered.update(zip(cks, own))
            for i in range(len(rec["probe"]["t_big"])):
                k = own[i]
                L.append(f"imap hash {size} {salt} {k}"); plan.append(("hash", (bi, "raw", i)))          # noqa: E702
                L.append(f"imap hash {BIG} {salt} {k}"); plan.append(("hash", (bi, "t_big", i)))        # noqa: E702
                L.append(f"imap hash {size} i1 {k}"); plan.append(("hash", (bi, "s1", i)))               # noqa: E702
                L.append(f"imap hash {BIG} i90001 {k}"); plan.append(("hash", (bi, "s90001_big", i)))   # noqa: E702
            for i in range(len(rec["probe"]["t_big"]), len(b["sims"])):
                L.append(f"imap hash {size} {salt} {own[i]}"); plan.append(("hash", (bi, "raw", i)))     # noqa: E702
        elif b["sims"]:
            rows = ";".join(f"{int(s)}" for s in b["sims"])
        else:
            rows = "-"
        L.append(f"{name} update {salt} {rows}"); plan.append(("update", bi))                            # noqa: E702
        if b.get("get") is not None:
            L.append(f"{name} get {','.join(str(int(s)) for s in b['get']) or '-'}"); plan.append(("get", bi))   # noqa: E702
    return L, plan


def parse_map(reply: str):
    """`ok s:p;…` → [[s, p]…] sorted by simulant; `ok -` → None... (None = `_map` never set)"""
    body = reply.split(" ", 1)[1] if " " in reply else "-"
    if body == "-":
        return []
    return sorted([int(a), int(b)] for a, b in (x.split(":") for x in body.split(";")))


def compare_history(hist, obs, replies, plan, label=""):
    dis = []
    last_map = []
    for (kind, ref), r in zip(plan, replies):
        if kind == "new":
            if r != "ok":
                dis.append(f"{label}new: model says {r}")
        elif kind == "hash":
            bi, what, i = ref
            want = obs[bi]["raw"][i] if what == "raw" else obs[bi]["probe"][what][i]
            if r != str(want):
                dis.append(f"{label}batch {bi} key #{i} {hist['batches'][bi]['keys'][i]} hash[{what}]: impl {want}, model {r}")
        elif kind == "update":
            rec = obs[ref]
            mo = r.split()[0] + (":" + r.split()[1] if r.startswith("err") else "")
            if rec["outcome"] != mo:
                dis.append(f"{label}batch {ref} update: impl {rec['outcome']}, model {r[:60]}")
            if r.startswith("ok"):
                last_map = parse_map(r)
            if (rec["map"] or []) != last_map:
                dis.append(f"{label}batch {ref} map after update: impl {rec['map']}, model {last_map}")
        elif kind == "get":
            rec = obs[ref]
            want = rec["get"] if isinstance(rec["get"], str) else "ok " + (",".join(map(str, rec["get"])) or "-")
            if want.replace("err:", "err ") != r:
                dis.append(f"{label}batch {ref} get {hist['batches'][ref]['get']}: impl {want}, model {r}")
    if len(replies) != len(plan):
        dis.append(f"{label}{len(replies)} replies for {len(plan)} lines")
    return dis
