"""Shared by the C03 and C04 checks: building key frames for the real `IndexMap`, running a registration
history on it, and writing the same history as lines for Driver/C03.lean.

A *history* is JSON:
  {"size": n, "cols": ["int"|"float"|"time", …]  (empty = no CRN), "tunit": "ns"|"us"|"s",
   "batches": [{"t": ["time", ns] | ["int", v], "sims": [..], "keys": [[v, …], …], "get": [sims …] | None}, …]}
Key values: int → Python int (int64 range); float → Python float (finite, never -0.0); time → integer
nanoseconds since the epoch (a multiple of 10^9, so every datetime unit holds it exactly).
"""
from __future__ import annotations

import math
import struct

from . import impl

SPREAD = 111111
BIG = 2305843009213693951          # 2^61 - 1 (prime): second modulus used to compare the hash arithmetic finely
NP_DTYPE = {"int": "int64", "float": "float64"}


def repeat_alarm(seconds: float, every: float = 2.0):
    """The runner arms a one-shot SIGALRM per case. While `IndexMap`'s collision loop spins inside pandas, the
    exception raised by that one signal can be swallowed (an `except Exception` inside pandas, a finalizer) and the
    case would then hang for good (seen once under mutants/C03/break-modulus-off-by-one). Re-arm the same timer with
    an interval, so the alarm keeps coming until the runner disarms it (`signal.alarm(0)` clears the interval too)."""
    import signal
    try:
        signal.setitimer(signal.ITIMER_REAL, float(seconds), float(every))
    except (ValueError, OSError):      # not in the main thread: leave the runner's alarm alone
        pass


def coprime_sizes(ncols: int, lo: int, hi: int) -> list[int]:
    """block sizes for which the salt shift ncols*111111 generates every residue (DESIGN.md F11)"""
    return [s for s in range(lo, hi + 1) if math.gcd(s, max(1, ncols) * SPREAD) == 1]


def float_rank(x: float) -> int:
    """order-preserving injection float64 → int (IEEE bits; negatives mirrored)"""
    if x == 0.0:
        x = 0.0
    b = struct.unpack(">q", struct.pack(">d", x))[0]
    return b if b >= 0 else -(b & 0x7FFFFFFFFFFFFFFF) - 1


def canon_key(types, key):
    """hashable identity of a key as pandas sees it (equal raw values)"""
    return tuple(float(v) if ty == "float" else int(v) for ty, v in zip(types, key))


def plain_case_key(types, key):
    """a key of the case in the form `dump_map` reports keys"""
    return [[ty, (float(v) if ty == "float" else int(v))] for ty, v in zip(types, key)]


def col_names(types):
    return [f"k{i}" for i in range(len(types))]


def mk_frame(types, tunit, sims, keys):
    import numpy as np
    import pandas as pd
    data = {}
    for j, (name, ty) in enumerate(zip(col_names(types), types)):
        vals = [k[j] for k in keys]
        if ty == "time":
            data[name] = pd.to_datetime(np.array(vals, dtype="int64"), unit="ns").as_unit(tunit)
        else:
            data[name] = np.array(vals, dtype=NP_DTYPE[ty])
    return pd.DataFrame(data, index=pd.Index(np.array(sims, dtype="int64")))


def mk_salt(t, tunit):
    import pandas as pd
    if t[0] == "time":
        return pd.Timestamp(int(t[1]), unit="ns").as_unit(tunit)
    return int(t[1])


def key_index(df, types):
    """the key-level index of a key frame, as `IndexMap` derives it (Index for one column, MultiIndex otherwise)"""
    import pandas as pd
    names = col_names(types)
    if len(names) == 1:
        return pd.Index(df[names[0]].array, name=names[0])
    return pd.MultiIndex.from_frame(df[names])


def dump_map(im):
    """`_map` as [[sim, position]] sorted by simulant, with the keys attached to each simulant; None when empty"""
    if im._map is None:
        return None, None
    idx = im._map.index.tolist()
    vals = im._map.tolist()
    rows = []
    for ix, v in zip(idx, vals):
        try:
            p = int(v) if float(v) == int(v) else repr(v)
        except (ValueError, OverflowError):
            p = repr(v)
        rows.append((int(ix[0]), p, ix[1:]))
    rows.sort(key=lambda r: (r[0], str(r[2])))
    return [[s, p] for s, p, _ in rows], [[s, _plain(k)] for s, _, k in rows]


def _plain(key):
    import pandas as pd
    out = []
    for v in key:
        if isinstance(v, pd.Timestamp):
            out.append(["time", int(v.as_unit("ns").value)])
        elif isinstance(v, float):
            out.append(["float", v])
        else:
            out.append(["int", int(v)])
    return out


def outcome_of(e: BaseException) -> str:
    n = type(e).__name__
    if n == "CaseTimeout":          # the runner's per-case alarm: not an outcome of the implementation
        raise e
    return {"RandomnessError": "err:randomness", "KeyError": "err:key"}.get(n, "err:" + n)


def observe_update(im, big, df, t, names, hash_probe=6, update=None):
    """One `IndexMap.update(df, t)` on the real object `im`, with everything the checks look at:
    ten-digit conversions (the model's parameter), first hash of every key, hash probes, outcome class, the map
    before and after. `update` = the bound method to call (the unwrapped one when `im.update` is instrumented)."""
    import pandas as pd
    rec = {}
    rec["salt10"] = int(im._convert_to_ten_digit_int(pd.Series(t, index=[0])).iloc[0])
    if names and len(df):
        rec["ten"] = [[int(x) for x in im._convert_to_ten_digit_int(df[c]).tolist()] for c in names]   # per column
        if len(names) == 1:
            ki = pd.Index(df[names[0]].array, name=names[0])
        else:
            ki = pd.MultiIndex.from_frame(df[list(names)])
        rec["raw"] = [int(x) for x in im._hash(ki, salt=t).tolist()]                  # first hash, this size
        sub = ki[:min(hash_probe, len(df))]
        rec["probe"] = {"t_big": [], "s1": [], "s90001_big": []}
        if len(sub):
            rec["probe"]["t_big"] = [int(x) for x in big._hash(sub, salt=t).tolist()]
            rec["probe"]["s1"] = [int(x) for x in im._hash(sub, salt=1).tolist()]              # collision salts
            rec["probe"]["s90001_big"] = [int(x) for x in big._hash(sub, salt=90001).tolist()]  # _spread wraps 10^10
    before = dump_map(im)
    try:
        (update or im.update)(df, t)
        rec["outcome"] = "ok"
    except Exception as e:  # noqa: BLE001
        rec["outcome"] = outcome_of(e)
        rec["exc"] = e
    rec["map"], rec["keys"] = dump_map(im)
    rec["before"] = before[0]
    return rec


def run_history(hist, hash_probe=6):
    """Run the history on a real IndexMap; observations per batch (all JSON-serialisable)."""
    impl.load()
    import pandas as pd
    from vivarium.framework.randomness.index_map import IndexMap

    types, tunit, size = hist["cols"], hist.get("tunit", "ns"), hist["size"]
    names = col_names(types)
    im = IndexMap(list(names), size=size)
    big = IndexMap(list(names), size=BIG)
    out = []
    for b in hist["batches"]:
        t = mk_salt(b["t"], tunit)
        df = mk_frame(types, tunit, b["sims"], b["keys"])
        rec = observe_update(im, big, df, t, names, hash_probe)
        rec.pop("exc", None)
        if b.get("get") is not None:
            try:
                rec["get"] = [int(x) for x in im[pd.Index(b["get"], dtype="int64")]]
            except Exception as e:  # noqa: BLE001
                rec["get"] = outcome_of(e)
        out.append(rec)
    return out


def batch_of_frame(df, t, names):
    """(types, batch) describing a key frame handed to `IndexMap.update` by running code, in history form"""
    import pandas as pd
    import pandas.api.types as pdt
    types, cols = [], []
    for c in names:
        col = df[c]
        if pdt.is_datetime64_any_dtype(col):
            types.append("time")
            cols.append([int(x) for x in col.astype("datetime64[ns]").astype("int64").tolist()])
        elif pdt.is_integer_dtype(col):
            types.append("int")
            cols.append([int(x) for x in col.tolist()])
        else:
            types.append("float")
            cols.append([float(x) for x in col.tolist()])
    keys = [[cols[j][i] for j in range(len(names))] for i in range(len(df))]
    tt = ["time", int(pd.Timestamp(t).as_unit("ns").value)] if isinstance(t, pd.Timestamp) else ["int", int(t)]
    return types, {"t": tt, "sims": [int(x) for x in df.index.tolist()], "keys": keys, "get": None}


def instrument(im, log, hash_probe=2):
    """Record every `update` call made on the real IndexMap `im` by the code that owns it (instance attribute;
    the source is untouched). `log` receives {"types", "batch", "rec"} per call."""
    from vivarium.framework.randomness.index_map import IndexMap
    big = IndexMap(list(im._key_columns), size=BIG)
    inner = im.update

    def update(new_keys, clock_time):
        names = list(im._key_columns)
        if not names or new_keys.empty:
            return inner(new_keys, clock_time)
        types, batch = batch_of_frame(new_keys, clock_time, names)
        rec = observe_update(im, big, new_keys, clock_time, names, hash_probe=hash_probe, update=inner)
        exc = rec.pop("exc", None)
        log.append({"types": types, "batch": batch, "rec": rec})
        if exc is not None:
            raise exc

    im.update = update


# ------------------------------------------------------------------ model lines

def enc_val(ty, v, ten):
    if ty == "int":
        return f"i{int(v)}"
    if ty == "float":
        return f"c{float_rank(float(v))}_{int(ten)}"
    return f"c{int(v)}_{int(ten)}"


def enc_salt(t, salt10):
    return f"i{int(t[1])}" if t[0] == "int" else f"c{int(t[1])}_{int(salt10)}"


def enc_key(types, key, tens):
    return ",".join(enc_val(ty, v, ten) for ty, v, ten in zip(types, key, tens))


def history_lines(hist, obs, name="imap"):
    """The same history as driver lines; returns (lines, plan) where plan[i] says what reply i answers."""
    types, size = hist["cols"], hist["size"]
    L = [f"{name} new {1 if types else 0} {size}"]
    plan = [("new", None)]
    for bi, (b, rec) in enumerate(zip(hist["batches"], obs)):
        salt = enc_salt(b["t"], rec["salt10"])
        if types and b["sims"]:
            tens = rec["ten"]
            rows = ";".join(f"{int(s)}," + enc_key(types, k, [tens[j][i] for j in range(len(types))])
                            for i, (s, k) in enumerate(zip(b["sims"], b["keys"])))
            for i in range(len(rec["probe"]["t_big"])):
                k = enc_key(types, b["keys"][i], [tens[j][i] for j in range(len(types))])
                L.append(f"imap hash {size} {salt} {k}"); plan.append(("hash", (bi, "raw", i)))          # noqa: E702
                L.append(f"imap hash {BIG} {salt} {k}"); plan.append(("hash", (bi, "t_big", i)))        # noqa: E702
                L.append(f"imap hash {size} i1 {k}"); plan.append(("hash", (bi, "s1", i)))               # noqa: E702
                L.append(f"imap hash {BIG} i90001 {k}"); plan.append(("hash", (bi, "s90001_big", i)))   # noqa: E702
            for i in range(len(rec["probe"]["t_big"]), len(b["sims"])):
                k = enc_key(types, b["keys"][i], [tens[j][i] for j in range(len(types))])
                L.append(f"imap hash {size} {salt} {k}"); plan.append(("hash", (bi, "raw", i)))          # noqa: E702
        elif b["sims"]:
            rows = ";".join(f"{int(s)}" for s in b["sims"])
        else:
            rows = "-"
        L.append(f"{name} update {salt} {rows}"); plan.append(("update", bi))                            # noqa: E702
        if b.get("get") is not None:
            L.append(f"{name} get {','.join(str(int(s)) for s in b['get']) or '-'}"); plan.append(("get", bi))   # noqa: E702
    return L, plan


def parse_map(reply: str):
    """`ok s:p;…` → [[s, p]…] sorted by simulant; `ok -` → None... (None = `_map` never set)"""
    body = reply.split(" ", 1)[1] if " " in reply else "-"
    if body == "-":
        return []
    return sorted([int(a), int(b)] for a, b in (x.split(":") for x in body.split(";")))


def compare_history(hist, obs, replies, plan, label=""):
    dis = []
    last_map = []
    for (kind, ref), r in zip(plan, replies):
        if kind == "new":
            if r != "ok":
                dis.append(f"{label}new: model says {r}")
        elif kind == "hash":
            bi, what, i = ref
            want = obs[bi]["raw"][i] if what == "raw" else obs[bi]["probe"][what][i]
            if r != str(want):
                dis.append(f"{label}batch {bi} key #{i} {hist['batches'][bi]['keys'][i]} hash[{what}]: impl {want}, model {r}")
        elif kind == "update":
            rec = obs[ref]
            mo = r.split()[0] + (":" + r.split()[1] if r.startswith("err") else "")
            if rec["outcome"] != mo:
                dis.append(f"{label}batch {ref} update: impl {rec['outcome']}, model {r[:60]}")
            if r.startswith("ok"):
                last_map = parse_map(r)
            if (rec["map"] or []) != last_map:
                dis.append(f"{label}batch {ref} map after update: impl {rec['map']}, model {last_map}")
        elif kind == "get":
            rec = obs[ref]
            want = rec["get"] if isinstance(rec["get"], str) else "ok " + (",".join(map(str, rec["get"])) or "-")
            if want.replace("err:", "err ") != r:
                dis.append(f"{label}batch {ref} get {hist['batches'][ref]['get']}: impl {want}, model {r}")
    if len(replies) != len(plan):
        dis.append(f"{label}{len(replies)} replies for {len(plan)} lines")
    return dis
