"""Import the implementation from ${VERIF_REPO:-/repo}/src (never from site-packages).

`/repo/src/vivarium/__init__.py` imports `vivarium._version`, which setuptools_scm would generate;
a stub with the version `setup.py` declares is registered instead. Exits 2 (infrastructure error)
when the imported package is not the tree under test.
"""
import logging
import os
import sys
import types
import warnings

from . import paths

_loaded = False


def load():
    global _loaded
    if _loaded:
        return sys.modules["vivarium"]
    src = str(paths.repo_src())
    if src in sys.path:
        sys.path.remove(src)
    sys.path.insert(0, src)
    stub = types.ModuleType("vivarium._version")
    stub.__version__ = "3.0.10"
    sys.modules["vivarium._version"] = stub
    warnings.filterwarnings("ignore")
    os.environ.setdefault("LOGURU_LEVEL", "ERROR")
    try:
        import vivarium  # noqa: F401
    except SyntaxError:
        raise
    if not os.path.realpath(vivarium.__file__).startswith(os.path.realpath(src)):
        sys.stderr.write(f"vcheck: imported vivarium from {vivarium.__file__}, expected under {src}\n")
        sys.exit(2)
    try:  # silence loguru (third-party; vivarium adds a stdout sink per context)
        from loguru import logger
        logger.remove()
        logger.add = lambda *a, **k: 0
        _rm = logger.remove
        def _quiet_remove(*a, **k):
            try:
                return _rm(*a, **k)
            except ValueError:
                return None
        logger.remove = _quiet_remove
    except Exception:  # noqa: BLE001
        pass
    logging.disable(logging.CRITICAL)
    _loaded = True
    return vivarium


def quiet_context(**kw):
    """A SimulationContext with logging off and the process-global name cache cleared."""
    load()
    from vivarium.framework.engine import SimulationContext
    kw.setdefault("logging_verbosity", 0)
    return SimulationContext(**kw)
