"""Lean side of a check: translate, build (under a lock), audit, run a driver."""
from __future__ import annotations

import fcntl
import os
import pathlib
import re
import subprocess
import time

from . import paths, translate

STD_AXIOMS = {"propext", "Classical.choice", "Quot.sound"}
FORBIDDEN = re.compile(r"\bsorry\b|\badmit\b|^\s*axiom\s|native_decide|bv_decide|implemented_by|\bunsafe\s|maxHeartbeats\s+0\b", re.M)


def _strip_comments(src: str) -> str:
    src = re.sub(r"/-.*?-/", "", src, flags=re.S)
    return re.sub(r"--.*", "", src)


class Lock:
    def __enter__(self):
        self.f = open(paths.LEAN / ".build.lock", "w")
        fcntl.flock(self.f, fcntl.LOCK_EX)
        return self

    def __exit__(self, *a):
        fcntl.flock(self.f, fcntl.LOCK_UN)
        self.f.close()


def lake(args, timeout=1800):
    env = dict(os.environ)
    env.pop("PYTHONHASHSEED", None)
    return subprocess.run(["lake"] + args, cwd=paths.LEAN, capture_output=True, text=True, timeout=timeout, env=env)


def build(targets: list[str]) -> dict:
    """`lake build <targets>`; returns ok flag, wall time and the error text with theorem names."""
    t0 = time.time()
    with Lock():
        r = lake(["build"] + targets)
    out = r.stdout + r.stderr
    broken = []
    if r.returncode != 0:
        # error lines look like  `error: VivModel/Props/C07.lean:12:4: ...`
        for m in re.finditer(r"error: (\S+\.lean):(\d+):(\d+)", out):
            broken.append(f"{m.group(1)}:{m.group(2)}")
    return {"ok": r.returncode == 0, "wall_s": round(time.time() - t0, 2), "output": out[-6000:], "broken_at": sorted(set(broken))}


def theorem_names(props_file) -> tuple[str, list[str]]:
    src = _strip_comments(props_file.read_text())
    ns = re.search(r"^namespace\s+(\S+)", src, re.M)
    names = re.findall(r"^\s*(?:private\s+|protected\s+)?theorem\s+(\S+)", src, re.M)
    return (ns.group(1) if ns else ""), names


def locate_broken(props_file, broken_at: list[str]) -> list[str]:
    """Map `file:line` build errors to the theorem whose body contains that line."""
    lines = props_file.read_text().splitlines()
    starts = [(i + 1, m.group(1)) for i, l in enumerate(lines) if (m := re.match(r"\s*(?:private\s+)?theorem\s+(\S+)", l))]
    out = []
    for b in broken_at:
        f, ln = b.rsplit(":", 1)
        if not f.endswith(props_file.name):
            out.append(b)
            continue
        ln = int(ln)
        name = None
        for s, n in starts:
            if s <= ln:
                name = n
        out.append(name or b)
    return sorted(set(out))


def import_closure(modules: list[str], drivers: list[str]) -> list:
    """all files of this project that the given modules / drivers import, transitively"""
    todo = [paths.LEAN / (m.replace(".", "/") + ".lean") for m in modules] + [paths.LEAN / "Driver" / f"{d}.lean" for d in drivers]
    seen = []
    while todo:
        f = todo.pop()
        if f in seen or not f.exists():
            continue
        seen.append(f)
        for m in re.findall(r"^import\s+(VivModel\.\S+)", f.read_text(), re.M):
            todo.append(paths.LEAN / (m.replace(".", "/") + ".lean"))
    return seen


def audit(prop_id: str, modules: list[str], drivers: list[str] = ()) -> dict:
    """`#print axioms` for every theorem of the property modules + forbidden-token grep."""
    t0 = time.time()
    res = {"ok": True, "theorems": {}, "forbidden": [], "nonstandard": [], "wall_s": 0.0}
    lines = []
    for mod in modules:
        f = paths.LEAN / (mod.replace(".", "/") + ".lean")
        ns, names = theorem_names(f)
        lines.append(f"import {mod}")
        for n in names:
            res["theorems"][(ns + "." if ns else "") + n] = None
    body = "\n".join(lines) + "\n" + "\n".join(f"#print axioms {n}" for n in res["theorems"]) + "\n"
    adir = paths.LEAN / ".lake" / "audit"
    adir.mkdir(parents=True, exist_ok=True)
    af = adir / f"{prop_id}.lean"
    af.write_text(body)
    r = lake(["env", "lean", str(af)])
    out = r.stdout + r.stderr
    for m in re.finditer(r"'(\S+?)' depends on axioms: \[([^\]]*)\]", out):
        res["theorems"][m.group(1)] = sorted(a.strip() for a in m.group(2).replace("\n", " ").split(",") if a.strip())
    for m in re.finditer(r"'(\S+?)' does not depend on any axioms", out):
        res["theorems"][m.group(1)] = []
    for n, ax in res["theorems"].items():
        if ax is None:
            res["ok"] = False
            res["nonstandard"].append(f"{n}: no #print axioms output")
        elif not set(ax) <= STD_AXIOMS:
            res["ok"] = False
            res["nonstandard"].append(f"{n}: {sorted(set(ax) - STD_AXIOMS)}")
    # forbidden tokens anywhere in the import closure of the property's modules and of its driver
    for f in import_closure(modules, drivers):
        src = _strip_comments(f.read_text())
        for m in FORBIDDEN.finditer(src):
            res["forbidden"].append(f"{f.relative_to(paths.LEAN)}: {m.group(0).strip()}")
    if res["forbidden"]:
        res["ok"] = False
    res["wall_s"] = round(time.time() - t0, 2)
    res["raw_tail"] = out[-1500:] if not res["ok"] else ""
    return res


def leanchecker(modules: list[str]) -> dict:
    t0 = time.time()
    r = lake(["env", "leanchecker"] + modules, timeout=3600)
    return {"ok": r.returncode == 0, "wall_s": round(time.time() - t0, 2), "output": (r.stdout + r.stderr)[-2000:]}


def run_driver(driver: str, lines: list[str], timeout=1800) -> list[str]:
    """Pipe `lines` to `lake env lean --run Driver/<driver>.lean`; one reply line per input line."""
    env = dict(os.environ)
    env.pop("PYTHONHASHSEED", None)
    inp = "\n".join(lines) + "\n"
    r = subprocess.run(["lake", "env", "lean", "--run", f"Driver/{driver}.lean"], cwd=paths.LEAN, input=inp,
                       capture_output=True, text=True, timeout=timeout, env=env)
    out = r.stdout.splitlines()
    if r.returncode != 0 or len(out) != len(lines):
        raise DriverError(f"driver {driver}: exit {r.returncode}, {len(out)} replies for {len(lines)} lines\n"
                          + (r.stderr or r.stdout)[-3000:])
    return out


class DriverError(Exception):
    pass


def do_translate() -> dict:
    with Lock():
        return translate.translate()


def prepare_workspace() -> dict:
    """Regenerate the tables for the tree under test WITHOUT disturbing concurrent checks.

    * translation equals what lean/VivModel/Gen/Tables.lean already holds -> nothing to do;
    * differs and the tree under test is /repo itself (it was edited) -> rewrite in place (every concurrent
      check of the real tree computes the same content);
    * differs and the tree under test is a scratch copy (mutant self-test) -> work in a private copy of the
      whole Lean project (incl. its build directory, ~50 MB) which `release_workspace` deletes.
    """
    out = {"changed": [], "error": None, "private_workspace": None}
    try:
        files = translate.render_all()
    except translate.TranslationError as e:
        # the table translator gave up on this tree (reported as a broken obligation by the caller); the source tie is
        # independent of it: still regenerate Gen/Src.lean, so that the source-tie theorems are checked against THIS tree
        out["error"] = str(e)
        try:
            from . import py2lean
            files = {"VivModel/Gen/Src.lean": py2lean.render_src()}
        except Exception:
            return out
    differing = [rel for rel, content in files.items()
                 if not ((paths.LEAN / rel).exists() and (paths.LEAN / rel).read_text() == content)]
    if not differing:
        return out
    if str(paths.repo()) == "/repo":
        with Lock():
            for rel in differing:
                if translate.write_if_changed(paths.LEAN / rel, files[rel]):
                    out["changed"].append("lean/" + rel)
        return out
    import shutil
    import tempfile
    d = pathlib.Path(tempfile.mkdtemp(prefix="vlean-"))
    shutil.copytree(paths.LEAN, d / "lean", symlinks=True, ignore=shutil.ignore_patterns(".build.lock", ".tables.lock", "scratch"))
    paths.LEAN = d / "lean"
    for rel in differing:
        translate.write_if_changed(paths.LEAN / rel, files[rel])
        out["changed"].append(rel.replace("VivModel/", "") + " (private workspace)")
    out["private_workspace"] = str(d)
    return out


def release_workspace(tr: dict) -> None:
    if tr.get("private_workspace"):
        import shutil
        shutil.rmtree(tr["private_workspace"], ignore_errors=True)
        paths.LEAN = paths.VERIF / "lean"
