"""Locations. VERIF_REPO overrides /repo (used by the mutant self-test only)."""
import os
import pathlib

VERIF = pathlib.Path(__file__).resolve().parent.parent
LEAN = VERIF / "lean"


def repo() -> pathlib.Path:
    return pathlib.Path(os.environ.get("VERIF_REPO", "/repo"))


def repo_src() -> pathlib.Path:
    return repo() / "src"
