"""C01 — seeded runs are reproducible, whatever the process state.

Model-level theorems: Props/C01.lean (stepping APIs agree; context counter enters the name only;
set-iteration order cannot change what is written; stratification tuples are canonical).
Tie: (i) skeleton correspondence – the event skeleton (event, clock, step) of real runs of generated
rich programs vs the model's prediction (Driver/C08.lean, fixed-step programs); (ii) cross-history
differential – the same program + configuration is run in fresh processes under different
PYTHONHASHSEEDs, with the global numpy/random generators reseeded and consumed between steps, after
0-3 earlier contexts, and through every stepping API; the canonical digest of the state table at the
start and end of EVERY step, the final results and every draw request must be identical.
"""
from __future__ import annotations

import random

from .. import enginekit
from ..runner import Prop


class C01(Prop):
    id = "C01"
    lean_modules = ["VivModel.Props.C01"]
    build_targets = ["VivModel.Model.Engine", "VivModel.Model.Events", "VivModel.Model.Proto"]
    driver = "C08"
    technique = "Lean 4 proof (induction over the run loop / permutations) of the model-level statements + cross-process differential over process histories"
    partial = ("that arbitrary user components, pandas and the interpreter introduce no other entropy cannot be a theorem; "
               "it is explored by running each generated program under 5 process histories and comparing digests after every step")
    n_quick = 9
    n_thorough = 150
    workers = 3
    case_timeout = 600
    rule = ("each case = one generated program (CRN 0-3 keys, births, mortality via lookup+rate pipeline+modifiers, state machine, "
            "per-simulant clocks, observers with 0-3 stratifications; both clocks) run under 5 process histories "
            "(hash seed, global RNG noise, earlier contexts, stepping API); evaluations counts programs; "
            "non-trivial = at least 2 steps, non-empty population, digests change between steps")

    def _histories(self, rng):
        hs = [{"hashseed": 0, "noise": 0, "prior": 0, "mode": "run_simulation"}]
        modes = enginekit.MODES[1:]
        rng.shuffle(modes)
        for k, m in enumerate(modes):
            hs.append({"hashseed": rng.choice([1, 2, rng.randint(3, 10_000), "random"]), "noise": rng.randint(1, 10_000),
                       "prior": rng.randint(0, 3), "mode": m})
        return hs

    def boundary(self):
        rng = random.Random(1)
        full = {"clock": "datetime", "step": 10, "n_steps": 4, "pop": 12, "seed": 7, "crn_keys": 2, "map_size": 10000,
                "births": [2, 0, 1], "mort": {"mods": 1}, "disease": {"states": 3, "p": [5, 8], "self": True},
                "stepmod": {"every": 3, "mult": 2}, "obs": {"strats": 3, "concat": True, "values": 5}, "extras": {"pafs": [0.25, 0.5]}}
        vary = dict(full, step=1, n_steps=9, pop=6, births=[1, 0], disease=None, obs=None, stepmod={"every": 2, "mult": 3, "vary": True})
        # the last step taken is longer than the step the clock has afterwards (found with VERIF_SEED=3: F21, second commit)
        shrink = {"clock": "datetime", "step": 0.5, "n_steps": 7, "pop": 1, "seed": 9015, "crn_keys": 0, "map_size": 100003,
                  "births": [3], "birth_phase": "time_step", "mort": None, "disease": None,
                  "stepmod": {"every": 2, "mult": 3, "vary": True}, "obs": None, "order": [3]}
        return [{"spec": full, "histories": self._histories(rng)}, {"spec": vary, "histories": self._histories(rng)},
                {"spec": shrink, "histories": self._histories(rng)}]

    def generate(self, rng: random.Random, i: int, tier: str):
        return {"spec": enginekit.gen_spec(rng), "histories": self._histories(rng)}

    def shrink(self, case):
        s = case["spec"]
        for k in ("obs", "disease", "mort", "stepmod", "extras"):
            if s.get(k):
                yield dict(case, spec=dict(s, **{k: None}))
        if s["n_steps"] > 1:
            yield dict(case, spec=dict(s, n_steps=s["n_steps"] - 1))
        if len(case["histories"]) > 2:
            for i in range(1, len(case["histories"])):
                yield dict(case, histories=case["histories"][:i] + case["histories"][i + 1:])

    def run_impl(self, case):
        jobs = [({"spec": case["spec"], "mode": h["mode"], "noise": h["noise"], "prior_contexts": h["prior"], "log_draws": True},
                 h["hashseed"]) for h in case["histories"]]
        res = enginekit.run_workers(jobs, parallel=5)
        out = []
        for r in res:
            d = sorted(map(tuple, r.get("draws") or []))
            out.append({"error": r.get("error"), "digests": r.get("digests"), "results": r.get("results"),
                        "final_table": r.get("final_table"), "events": r.get("events"), "n_draws": len(d),
                        "draws": __import__("hashlib").sha1(repr(d).encode()).hexdigest()[:12], "name": r.get("context_name"),
                        "trace": (r.get("trace") or "")[-400:] if r.get("error") else ""})
        return {"runs": out}

    # skeleton correspondence on the baseline history (fixed-step programs only)
    def model_lines(self, case, obs):
        r0 = obs["runs"][0]
        if case["spec"].get("stepmod") or r0["error"] or not r0["events"]:
            return []
        ev = r0["events"]
        t0, h = ev[0][1], ev[0][2]
        import math
        from .. import components  # noqa: F401  (configuration arithmetic lives there)
        # stop as the engine sees it: first clock at which the run stopped
        stop = ev[-1][1] if ev[-1][0] == "end" else None
        if stop is None or h <= 0:
            return []
        # the run loop stops at the first clock >= configured stop; the configured stop is what the model needs. Any
        # value in (last step start, final clock] yields the same prediction, so the final clock itself is used.
        return ["reg time_step__prepare 0 1", "reg collect_metrics 9 2", "reg simulation_end 5 3", f"sim {t0} {h} {stop}"]

    def compare(self, case, obs, replies):
        t = replies[3].split()
        if t[0] != "ok":
            return [f"model: {replies[3][:80]}"]
        tagof = {"time_step__prepare": "prepare", "collect_metrics": "metrics", "simulation_end": "end"}
        mcalls = [] if t[3] == "-" else [c.split(":") for c in t[3].split(",")]
        m = [[tagof[c[0]], int(c[3]), int(c[5])] for c in mcalls]
        i = [[e[0], e[1], e[2]] for e in obs["runs"][0]["events"]]
        if m != i:
            k = next((k for k, (a, b) in enumerate(zip(i, m)) if a != b), min(len(i), len(m)))
            return [f"event skeleton differs at #{k}: impl {i[k] if k < len(i) else None}, model {m[k] if k < len(m) else None}"]
        return []

    def oracle(self, case, obs):
        f = []
        runs = obs["runs"]
        base = runs[0]
        for h, r in zip(case["histories"], runs):
            if r["error"]:
                f.append({"sig": "run-raised", "msg": f"history {h}: {r['error']} {r['trace']}"})
        if f:
            return f
        for h, r in zip(case["histories"][1:], runs[1:]):
            if r["digests"] != base["digests"]:
                k = next((k for k, (a, b) in enumerate(zip(r["digests"], base["digests"])) if a != b), min(len(r["digests"]), len(base["digests"])))
                api = "api" if h["mode"] != "run_simulation" else "process"
                f.append({"sig": f"state-table-differs:{h['mode']}",
                          "msg": f"history {h} vs baseline: digest #{k} {r['digests'][k] if k < len(r['digests']) else None} != "
                                 f"{base['digests'][k] if k < len(base['digests']) else None} ({len(r['digests'])}/{len(base['digests'])} digests; {api})"})
            elif r["results"] != base["results"]:
                f.append({"sig": "results-differ", "msg": f"history {h}: results digest {r['results']} != {base['results']}"})
            elif r["draws"] != base["draws"]:
                f.append({"sig": "draw-requests-differ", "msg": f"history {h}: draw log {r['draws']} ({r['n_draws']}) != {base['draws']} ({base['n_draws']})"})
        return f

    def nontrivial(self, case, obs):
        d = obs["runs"][0]["digests"] or []
        return case["spec"]["pop"] > 0 and case["spec"]["n_steps"] >= 2 and len({x.split(":")[1] for x in d}) >= 3

    def tags(self, case, obs):
        s = case["spec"]
        t = [s["clock"], f"crn{s['crn_keys']}", "pop0" if s["pop"] == 0 else "pop1" if s["pop"] == 1 else "pop+"]
        for k in ("mort", "disease", "stepmod", "obs", "extras"):
            t.append(k if s.get(k) else "no-" + k)
        t += ["mode:" + h["mode"] for h in case["histories"]]
        t += [f"prior{h['prior']}" for h in case["histories"]]
        t.append("births" if any(s["births"]) else "no-births")
        return t

    def sample_view(self, case, obs):
        return {"spec": case["spec"], "histories": case["histories"],
                "baseline_digests": (obs["runs"][0]["digests"] or [])[:6], "results": obs["runs"][0]["results"],
                "draw_requests": obs["runs"][0]["n_draws"]}


PROP = C01()
