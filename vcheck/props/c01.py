"""C01 — seeded runs are reproducible, whatever the process state.

Model-level theorems: Props/C01.lean (stepping APIs agree – run / step / take_steps / run_until / run_for / mixed drives /
explicit step sizes; context counter enters the name only; simulations of one process do not interact; set-iteration
order cannot change what is written; stratification tuples are canonical).
Tie: (i) skeleton correspondence – for EVERY process history of a case the event skeleton (event, clock, step) of the real
run vs the model's prediction for the API that drove it (Driver/C01.lean; start, step and end come from the
CONFIGURATION; for per-simulant clocks the recomputed global steps are handed over as the schedule); (ii) cross-history
differential – the same program + configuration is run in fresh processes under different PYTHONHASHSEEDs, with the
global numpy/random generators reseeded and consumed between steps, after 0-3 earlier simulations (empty, different,
the same program with another seed, interleaved step by step), through every stepping API and every route by which
components and configuration can reach a context; the canonical digest of the state table at the start and end of
EVERY step, the results after every step, the final results, the written result files and every draw request must be
identical; (iii) configuration-derived clauses – step count and clock values, population size after every step
and the draws themselves are recomputed from the case's configuration, not read back.

WHOLE stream (case kind "whole"; cases `{"kind": "whole", "cfg": <a WHOLE configuration>, "histories": [...]}`): the real
engine runs the exact probe components of `vcheck/wholekit.py` in FRESH processes (`vcheck/whole_worker.py`: own
PYTHONHASHSEED, global numpy / random generators seeded and consumed before, between and inside the steps, 0-3 earlier
simulations with DIFFERENT WHOLE configurations - sibling scenarios with the same seed and stream names, unrelated ones;
finished, left unfinished, or stepping in the middle of this run's steps -, driven by a `step()` loop, `run()`,
`run(backup_path, backup_freq)`, or an InteractiveContext through `step()` / `take_steps(1)` / `run()`), and EVERY history's
observation - the state table, the clock, the index-map positions, the results and the pipeline values after the
initial population and after every step - is compared CELL BY CELL with what ONE Lean function computes from the
configuration alone (`Model/Whole.lean`, `Model/WholeDt.lean`; lines go to `Driver/Whole.lean` via `driver_of`; the
comparison is `Whole.compare`, unchanged). So "the real simulation under every process history = a function of the
configuration" is checked against the model, not only against other runs; the oracle is the property itself: all
histories identical stage by stage (`whole-history-differs`). The theorems that make the model side of this statement
are audited with this check (`lean_modules`): `Viv.Props.Whole` (`runWhole_eq_iter`: run() = iterated step;
`resume_at_any_boundary`; `initial_keys_independent_of_births`; `crn_sex_pair`; `run_results_closed_form`: everything is a
function of `Config`) and `Viv.Props.WholeDt` (`runD_eq_iter`, `resumeD`) for the DateTimeClock configurations.
"""
from __future__ import annotations

import hashlib
import os
import random
import shutil
import tempfile

from .. import enginekit
from .. import whole_worker as ww
from ..runner import Prop

MAX_U32 = 4294967295


def _get_hash(key: str) -> int:
    """the property's mechanism, re-stated: sha1 of the key string, reduced to a numpy seed"""
    return int(hashlib.sha1(key.encode("utf8")).hexdigest(), 16) % MAX_U32


class C01(Prop):
    id = "C01"
    lean_modules = ["VivModel.Props.C01", "VivModel.Props.C01Src", "VivModel.Props.Whole", "VivModel.Props.WholeDt"]
    build_targets = ["VivModel.Model.Engine", "VivModel.Model.Events", "VivModel.Model.Proto", "VivModel.Model.Whole", "VivModel.Model.WholeDt"]
    driver = "C01"
    extra_drivers = ["Whole"]        # the cases of kind "whole" are interpreted by the composed model's driver
    n_spec_quick = 14                # generated programs of the engine stream (unchanged) ...
    n_spec_thorough = 150
    technique = "Lean 4 proof (induction over the run loop / permutations) of the model-level statements + cross-process differential over process histories"
    partial = ("that arbitrary user components, pandas and the interpreter introduce no other entropy cannot be a theorem; "
               "it is explored by running each generated program under 6 process histories and comparing digests after every step")
    n_quick = 14 + 5                 # ... followed by the WHOLE stream's configurations
    n_thorough = 150 + 40
    workers = 3
    case_timeout = 900
    rule = ("each case = one generated program (7 program shapes: hash / api / crn / services / results / tiny / mixed; CRN 0-3 keys of "
            "every type, births, mortality via lookup+rate pipeline+modifiers of every callable kind from several components, state "
            "machine with triggered and transient states, per-simulant clocks, every kind of observation and stratification, tables "
            "from configuration data sources and an artifact, get_seed, sample_from_distribution; both clocks) run under 6 process "
            "histories (hash seed, global RNG noise, earlier simulations incl. interleaved ones, 12 stepping APIs, 9 configuration "
            "routes, logging); evaluations counts programs; non-trivial = at least 2 steps, non-empty population, digests change between steps; "
            "WHOLE stream: one WHOLE configuration run under 5 process histories, every one compared cell by cell with the composed Lean model")

    # ------------------------------------------------------------------ cases
    def boundary(self):
        rng = random.Random(1)
        full = {"clock": "datetime", "step": 10, "n_steps": 4, "pop": 12, "seed": 7, "crn_keys": 2, "map_size": 10000,
                "births": [2, 0, 1], "mort": {"mods": 1}, "disease": {"states": 3, "p": [5, 8], "self": True},
                "stepmod": {"every": 3, "mult": 2}, "obs": {"strats": 3, "concat": True, "values": 5}, "extras": {"pafs": [0.25, 0.5]}}
        vary = dict(full, step=1, n_steps=9, pop=6, births=[1, 0], disease=None, obs=None, stepmod={"every": 2, "mult": 3, "vary": True})
        # the last step taken is longer than the step the clock has afterwards (found with VERIF_SEED=3: F21, second commit)
        shrink = {"clock": "datetime", "step": 0.5, "n_steps": 7, "pop": 1, "seed": 9015, "crn_keys": 0, "map_size": 100003,
                  "births": [3], "birth_phase": "time_step", "mort": None, "disease": None,
                  "stepmod": {"every": 2, "mult": 3, "vary": True}, "obs": None, "order": [3]}
        # an observation without additional_stratifications under configured defaults, after earlier simulations whose
        # defaults differ (seeded C01-2: a mutable default argument shared by every simulation of a process)
        dflt = {"clock": "simple", "step": 2, "n_steps": 3, "pop": 7, "seed": 11, "crn_keys": 0, "births": [1],
                "mort": {"mods": 2, "scale": 48, "kinds": ["object", "partial", "lambda"]}, "disease": None, "stepmod": None,
                "obs": {"strats": 2, "concat": False, "defaults": ["color"], "values": 2, "rich": True, "report": True}, "extras": None}
        hist = [dict(enginekit.BASELINE),
                {"hashseed": 1, "noise": 4, "prior": ["rich", "same", "rich"], "mode": "step", "route": "yaml", "verbosity": 0, "sim_name": None},
                {"hashseed": 2, "noise": 6, "prior": ["same", "interleaved"], "mode": "interactive_run", "route": "update", "verbosity": 2, "sim_name": "named_by_user", "peek": True},
                {"hashseed": "random", "noise": 9, "prior": ["interleaved", "rich"], "mode": "interactive_explicit", "route": "holder", "verbosity": 1, "sim_name": None},
                # next to a live TWIN: the same program whose clock numbers are floats (equal keys that print differently), stepped in between
                {"hashseed": 3, "noise": 2, "prior": ["twin"], "mode": "step", "route": "args", "verbosity": 0, "sim_name": None}]
        # every service in one program, no randomness left out; driven through every remaining API and route
        rich = enginekit.gen_spec(random.Random(5), small=True, mode="services")
        rich.update(clock="datetime", step=3, n_steps=3, pop=9, crn_keys=3, uid_kind="int", stepmod=None,
                    obs={"strats": 3, "when": "time_step__cleanup", "concat": True, "defaults": ["sex"], "values": 3, "rich": True, "cfg_excl": True, "report": True})
        hist2 = [dict(enginekit.BASELINE)] + [
            {"hashseed": hs, "noise": 3 * k + 1, "prior": pr, "mode": m, "route": rt, "verbosity": 0, "sim_name": None, "peek": k % 2 == 0}
            for k, (hs, pr, m, rt) in enumerate([(1, [], "run_backup", "positional"), (2, ["empty"], "interactive_mixed", "yaml_override"),
                                                 ("random", [], "interactive_for", "nested_add"), (3, ["same"], "interactive_take_n", "split"),
                                                 (5, [], "run", "tree")])]
        return [{"spec": full, "histories": enginekit.gen_histories(rng, full)}, {"spec": vary, "histories": enginekit.gen_histories(rng, vary)},
                {"spec": shrink, "histories": enginekit.gen_histories(rng, shrink)}, {"spec": dflt, "histories": hist},
                {"spec": rich, "histories": hist2}] + self._whole_boundary()

    def _whole_boundary(self):
        """WHOLE stream, hand-written: (i) key columns, a block of 10 * population positions smaller than it would be for the
        sibling scenario that ran before in the same process, births that collide with registered simulants; every drive;
        (ii) everything together (age, interpolated table + pipeline with three modifiers, observer) after an unfinished
        sibling and with an interleaved neighbour"""
        from . import whole
        rng = random.Random(2)
        tight = whole.variant(mapSize=23, pop=6, births=[[0, 1, 0, 0], [1, 0, 0, 2], [0, 0, 1, 0]], keyCols=[1, 0], seed=11)
        sib = whole.variant(mapSize=61, pop=4, births=[[2, 0, 0, 0], [0, 0, 1, 0]], keyCols=[1, 0], seed=11, order=[2, 1, 0])
        h1 = [dict(ww.BASELINE)] + [
            {"hashseed": hs, "noise": 3 * k + 1, "mode": m, "probe": True, "prior": pr}
            for k, (hs, m, pr) in enumerate([(1, "step", [{"cfg": sib, "style": "finished", "mode": "step"}]),
                                             (2, "run", [{"cfg": sib, "style": "unfinished", "mode": "step"}]),
                                             ("random", "interactive_step", [{"cfg": sib, "style": "interleaved", "mode": "step"}]),
                                             (3, "run_backup", []), (5, "interactive_run", [{"cfg": sib, "style": "finished", "mode": "run"}]),
                                             (7, "interactive_take", [])])]
        full = whole.ext_boundary()[-1]
        h2 = [dict(ww.BASELINE),
              {"hashseed": 1, "noise": 6, "mode": "step", "probe": True,
               "prior": [{"cfg": ww.sibling(rng, full), "style": "unfinished", "mode": "step"}, {"cfg": whole.variant(), "style": "interleaved", "mode": "step"}]},
              {"hashseed": "random", "noise": 9, "mode": "interactive_run", "probe": True, "prior": [{"cfg": ww.sibling(rng, full), "style": "finished", "mode": "run"}]},
              {"hashseed": 4, "noise": 2, "mode": "run", "probe": False, "prior": []}]
        return [{"kind": "whole", "cfg": tight, "histories": h1}, {"kind": "whole", "cfg": full, "histories": h2}]

    def generate(self, rng: random.Random, i: int, tier: str):
        # the engine stream first (its random stream is what it was before the WHOLE stream existed), then the WHOLE
        # stream; in a search for a failing input (i >= 10000) every fourth case is a WHOLE case
        n_spec = self.n_spec_thorough if tier == "thorough" else self.n_spec_quick
        if (i >= n_spec and i < 10_000) or (i >= 10_000 and i % 4 == 3):
            cfg = ww.gen_cfg(rng, tier, flavour=i - n_spec + 1 if i < 10_000 else i // 4)
            return {"kind": "whole", "cfg": cfg, "histories": ww.gen_histories(rng, cfg, tier)}
        mode = enginekit.SPEC_MODES[i % len(enginekit.SPEC_MODES)]
        spec = enginekit.gen_spec(rng, small=(tier == "quick"), mode=mode)
        hs = enginekit.gen_histories(rng, spec)
        if spec.get("clock") == "simple" and len(hs) > 1:
            # no use of rng: the stream of generated programs stays what it was. The last history also runs next to a live twin
            hs[-1] = dict(hs[-1], prior=["twin"] + list(hs[-1].get("prior") or []))
        return {"spec": spec, "histories": hs}

    def shrink(self, case):
        if case.get("kind") == "whole":
            yield from self._whole_shrink(case)
            return
        s = case["spec"]
        if len(case["histories"]) > 2:
            for i in range(1, len(case["histories"])):
                yield dict(case, histories=[case["histories"][0], case["histories"][i]])
        for i, h in enumerate(case["histories"]):
            if i and (h.get("prior") or h.get("route", "args") != "args" or h.get("verbosity") or h.get("peek")):
                hs = list(case["histories"])
                hs[i] = dict(h, prior=h["prior"][:-1] if h.get("prior") else [], route="args" if not h.get("prior") else h.get("route", "args"),
                             verbosity=0, peek=False)
                yield dict(case, histories=hs)
        for k in ("obs", "disease", "mort", "stepmod", "extras", "pop_extra", "newborn"):
            if s.get(k):
                yield dict(case, spec=dict(s, **{k: None}))
        if s["n_steps"] > 1:
            yield dict(case, spec=dict(s, n_steps=s["n_steps"] - 1))

    # ------------------------------------------------------------------ implementation side
    def run_impl(self, case):
        if case.get("kind") == "whole":
            return self._whole_run(case)
        spec = dict(case["spec"])
        d = tempfile.mkdtemp(prefix="vc01-")
        try:
            if (spec.get("extras") or {}).get("art"):
                from .. import components
                spec["artifact_path"] = components.write_artifact(os.path.join(d, "artifact.hdf"))
            jobs = [({"spec": spec, "mode": h["mode"], "route": h.get("route", "args"), "noise": h["noise"], "prior": h["prior"],
                      "verbosity": h.get("verbosity", 0), "sim_name": h.get("sim_name"), "peek": h.get("peek", False), "log_draws": True,
                      "report_dir": os.path.join(d, f"report{i}")}, h["hashseed"]) for i, h in enumerate(case["histories"])]
            res = enginekit.run_workers(jobs, parallel=6)
            out = []
            for r in res:
                dr = r.get("draws") or []
                s = sorted(tuple(x[:6]) for x in dr)
                out.append({"error": r.get("error"), "digests": r.get("digests"), "results": r.get("results"), "measures": r.get("measures"),
                            "final_table": r.get("final_table"), "events": r.get("events"), "n_draws": len(s), "ret": r.get("ret"),
                            "draws": hashlib.sha1(repr(s).encode()).hexdigest()[:12], "name": r.get("context_name"),
                            "report": r.get("report"), "clock": r.get("clock"),
                            "trace": (r.get("trace") or "")[-500:] if r.get("error") else ""})
            return {"runs": out, "draw_check": self._draw_check(spec, (res[0].get("draws") or [])) if not res[0].get("error") else None}
        finally:
            shutil.rmtree(d, ignore_errors=True)

    @staticmethod
    def _draw_check(spec, draws):
        """recompute logged draws from the CONFIGURATION: block = RandomState(sha1(key_clock_additional_seed)), position =
        the simulant's label without CRN, the request position for a CRN-initialising stream (other CRN requests need the
        index map and are C02 / C03 business)"""
        import numpy as np
        import pandas as pd
        seed = str(spec["seed"]) + (str(spec["additional_seed"]) if spec.get("additional_seed") is not None else "")
        size = max(spec.get("map_size", 100_000), 10 * spec["pop"])
        checked, bad, cache = 0, [], {}
        for key, clock, addk, n, _ih, _vh, init, labels, values in draws:
            if labels is None or not n or (spec["crn_keys"] and not init):
                continue
            t = str(pd.Timestamp(int(clock))) if spec["clock"] == "datetime" else clock
            k = "_".join([key, t, addk, seed])
            if k not in cache:
                cache[k] = np.random.RandomState(seed=_get_hash(k)).random_sample(size)
            blk = cache[k]
            want = [float(blk[p]).hex() for p in (range(n) if init else labels)]
            checked += 1
            if want != values and len(bad) < 3:
                j = next(j for j, (a, b) in enumerate(zip(want, values)) if a != b)
                bad.append(f"stream {key} at {t} key {addk}: simulant {labels[j]} drew {values[j]}, configuration gives {want[j]}")
        return {"checked": checked, "bad": bad}

    # ------------------------------------------------------------------ configuration arithmetic (no framework object involved)
    @staticmethod
    def _ticks(spec):
        """start, configured step, stop as integer ticks (ns for the datetime clock)"""
        from .. import components
        a, h, b = components.start_time(spec), components.step_size(spec), components.stop_time(spec)
        f = (lambda x: int(x.value)) if spec["clock"] == "datetime" else int
        return f(a), f(h), f(b)

    @staticmethod
    def _expected_rows(spec, k, tag):
        """rows of the state table when the probe looks in step k (0-based): births of every earlier step, and this step's at `metrics`"""
        b = spec["births"]
        done = k + 1 if tag == "metrics" else k
        return spec["pop"] + sum(b[j % len(b)] for j in range(done)) if b else spec["pop"]

    # ------------------------------------------------------------------ model side: one block of lines per history
    def _drive_lines(self, spec, h, run):
        from .. import components
        start, step, stop = self._ticks(spec)
        n = components.expected_steps(spec)
        m = h["mode"]
        if m in ("run_simulation", "run", "run_backup"):
            return ["run"]
        if m in ("step", "interactive_step", "interactive_take"):
            return ["loop"]
        if m == "interactive_take_n":
            return [f"steps {n}"] if n is not None else ["loop"]
        if m in ("interactive_until", "interactive_run"):
            return [f"until {stop}"]
        if m == "interactive_for":
            return [f"for {stop - start}"]
        if m == "interactive_mixed":
            return ["steps 1"] + (["steps 2"] if n is not None and n >= 3 else []) + [f"until {stop}"]
        if m == "interactive_explicit":
            return [f"xloop {step}"]
        if m == "interactive_pairs":
            return ["chunks 2"]
        raise ValueError(m)

    def model_lines(self, case, obs):
        if case.get("kind") == "whole":
            return self._whole_lines(case, obs)
        spec = case["spec"]
        start, step, stop = self._ticks(spec)
        lines = []
        for h, r in zip(case["histories"], obs["runs"]):
            if r["error"] or not r["events"]:
                continue
            ev = r["events"]
            # per-simulant clocks: the step the clock recomputed at the end of engine step k is what the NEXT event reports;
            # it is recomputed only with individual clocks and somebody in the table
            sched, init = [], "n"
            if spec.get("stepmod"):
                prep = [e for e in ev if e[0] in ("prepare", "end")]
                mets = [e for e in ev if e[0] == "metrics"]
                if spec["pop"] > 0:
                    init = str(prep[0][2])          # initialize_simulants ends with the first step_forward
                for k in range(len(mets)):
                    nxt = prep[k + 1][2] if k + 1 < len(prep) else None
                    sched.append(str(nxt) if (mets[k][4] > 0 and nxt is not None) else "n")
            lines += ([f"cfg {start} {step} {stop}", "sched " + (",".join(sched) if sched else "-"), f"init {init}"]
                      + self._drive_lines(spec, h, r) + ["finalize", "log"])
        return lines

    def compare(self, case, obs, replies):
        if case.get("kind") == "whole":
            return self._whole_compare(case, obs, replies)
        out, k = [], 0
        for h, r in zip(case["histories"], obs["runs"]):
            if r["error"] or not r["events"]:
                continue
            nd = len(self._drive_lines(case["spec"], h, r))
            blk = replies[k:k + 5 + nd]
            k += 5 + nd
            if any(x.startswith(("err", "bad-op")) for x in blk):
                out.append(f"model refuses history {h['mode']}: {blk}")
                continue
            want = [] if blk[-1] == "-" else [x.split(":") for x in blk[-1].split(",")]
            tag = {"time_step__prepare": "prepare", "collect_metrics": "metrics", "simulation_end": "end"}
            m = [[tag[a], int(b), int(c)] for a, b, c in want if a in tag]
            i = [[e[0], e[1], e[2]] for e in r["events"]]
            if m != i:
                j = next((j for j, (a, b) in enumerate(zip(i, m)) if a != b), min(len(i), len(m)))
                out.append(f"{h['mode']}: event skeleton differs at #{j}: impl {i[j] if j < len(i) else None}, model {m[j] if j < len(m) else None}")
            if r.get("ret") is not None:
                cnt = [x for x in blk[3:3 + nd] if x.startswith("count ")]
                if cnt and int(cnt[-1].split()[1]) != r["ret"]:
                    out.append(f"{h['mode']}: returned {r['ret']} steps, model {cnt[-1]}")
        return out

    # ------------------------------------------------------------------ the property on the observed behaviour
    def oracle(self, case, obs):
        if case.get("kind") == "whole":
            return self._whole_oracle(case, obs)
        from .. import components
        f = []
        spec = case["spec"]
        runs = obs["runs"]
        base = runs[0]
        for h, r in zip(case["histories"], runs):
            if r["error"] and not self._cpython_pickle_assert(h, r):
                f.append({"sig": "run-raised", "msg": f"history {h}: {r['error']} {r['trace']}"})
        if f:
            return f
        live = [(h, r) for h, r in zip(case["histories"], runs) if not r["error"]]
        for h, r in live[1:]:
            if h["mode"] in enginekit.OVERRUNNING and len(r["digests"]) > len(base["digests"]):
                # the drive took steps beyond the end: every step the baseline took must look the same, the rest is its own business
                k = len(base["digests"]) - 1
                if r["digests"][:k] != base["digests"][:k]:
                    j = next(j for j, (a, b) in enumerate(zip(r["digests"], base["digests"])) if a != b)
                    f.append({"sig": f"state-table-differs:{h['mode']}", "msg": f"history {h} vs baseline: digest #{j} {r['digests'][j]} != {base['digests'][j]} "
                              f"(the drive went {len(r['digests']) - len(base['digests'])} digests past the end)"})
                continue
            if r["digests"] != base["digests"]:
                k = next((k for k, (a, b) in enumerate(zip(r["digests"], base["digests"])) if a != b), min(len(r["digests"]), len(base["digests"])))
                api = "api" if h["mode"] != "run_simulation" else "process"
                by_pos = (spec.get("extras") or {}).get("ds") == "pos"      # candidate finding, see notes/agent-reports/C01.md
                f.append({"sig": "lookup-value-column-order-depends-on-hash-seed" if by_pos else f"state-table-differs:{h['mode']}",
                          "msg": f"history {h} vs baseline: digest #{k} {r['digests'][k] if k < len(r['digests']) else None} != "
                                 f"{base['digests'][k] if k < len(base['digests']) else None} ({len(r['digests'])}/{len(base['digests'])} digests; {api})"})
            elif r["results"] != base["results"] or r["final_table"] != base["final_table"]:
                diff = sorted(k for k in set(r["measures"] or {}) | set(base["measures"] or {}) if (r["measures"] or {}).get(k) != (base["measures"] or {}).get(k))
                f.append({"sig": "results-differ", "msg": f"history {h}: results digest {r['results']} != {base['results']} (measures {diff})"})
            elif r["draws"] != base["draws"]:
                f.append({"sig": "draw-requests-differ", "msg": f"history {h}: draw log {r['draws']} ({r['n_draws']}) != {base['draws']} ({base['n_draws']})"})
            elif r["report"] != base["report"]:
                f.append({"sig": "written-results-differ", "msg": f"history {h}: files written by report() {r['report']} != {base['report']}"})
            elif r["clock"] != base["clock"]:
                f.append({"sig": "final-clock-differs", "msg": f"history {h}: clock after the run {r['clock']} != {base['clock']}"})
        # --- clauses whose expectation comes from the case's configuration / history alone
        start, step, stop = self._ticks(spec)
        n = components.expected_steps(spec)
        for h, r in live:
            # (the context's NAME may depend on the history – that is all the counter may influence; it is only tagged)
            ev = r["events"]
            tags = [e[0] for e in ev]
            steps = tags.count("metrics")
            if tags != ["prepare", "metrics"] * steps + ["end"]:
                f.append({"sig": "event-skeleton-not-from-configuration", "msg": f"history {h['mode']}: events {tags[:12]}"})
                continue
            over = h["mode"] in enginekit.OVERRUNNING
            if n is not None:
                nh = n + (n % 2 if over else 0)          # whole pairs of steps
                exp = [[t, start + (k // 2) * step, step] for k, t in enumerate(["prepare", "metrics"] * nh)] + [["end", start + nh * step, step]]
                got = [e[:3] for e in ev]
                if got != exp:
                    j = next((j for j, (a, b) in enumerate(zip(got, exp)) if a != b), min(len(got), len(exp)))
                    f.append({"sig": "event-skeleton-not-from-configuration",
                              "msg": f"history {h['mode']}: event #{j} is {got[j] if j < len(got) else None}, the configuration gives {exp[j] if j < len(exp) else None} "
                                     f"({steps} steps taken, {nh} configured)"})
            else:
                # per-simulant clocks: the run starts at the configured start, no step starts at or after the end, the run reaches the end
                late = [e for e in ev if e[0] == "prepare" and e[1] >= stop]
                if ev[0][1] != start or (late and not over) or len(late) > 1 or ev[-1][1] < stop:
                    f.append({"sig": "loop-end-not-from-configuration", "msg": f"history {h['mode']}: start {ev[0][1]} (configured {start}), "
                              f"last step began at {max(e[1] for e in ev if e[0] == 'prepare')}, ended at {ev[-1][1]} (configured end {stop})"})
            k = 0
            for e in ev:
                if e[0] == "end":
                    break
                rows = self._expected_rows(spec, k, e[0])
                if e[4] != rows:
                    f.append({"sig": "population-size-not-from-configuration", "msg": f"history {h['mode']}: {e[4]} simulants at {e[0]} of step {k}, "
                              f"the configuration gives {rows}"})
                    break
                k += e[0] == "metrics"
            if r.get("ret") is not None:
                pre = {"interactive_mixed": 1 + (2 if n is not None and n >= 3 else 0)}.get(h["mode"], 0)
                if r["ret"] != steps - pre:
                    f.append({"sig": "returned-step-count", "msg": f"history {h['mode']}: returned {r['ret']}, took {steps - pre} steps"})
        dc = obs.get("draw_check")
        if dc and dc["bad"]:
            f.append({"sig": "draw-not-from-configuration", "msg": "; ".join(dc["bad"])})
        return f

    @staticmethod
    def _cpython_pickle_assert(h, r):
        """CPython 3.12's pickler asserts when a backup holds two EMPTY buffers with the same id (protocol 5, empty numpy
        arrays of an empty population): an interpreter defect, not vivarium's. Only `run(backup_path, …)` pickles here; the
        history is skipped and counted in the tags (as C18 does)."""
        return bool(h["mode"] == "run_backup" and r["error"] and r["error"].startswith("AssertionError")
                    and "in memoize" in (r.get("trace") or "") and "pickle.py" in (r.get("trace") or ""))

    def nontrivial(self, case, obs):
        if case.get("kind") == "whole":
            b = obs["runs"][0]
            return not b.get("worker_error") and len(b.get("steps") or []) >= 1 and bool(b["steps"][-1])
        d = obs["runs"][0]["digests"] or []
        return case["spec"]["pop"] > 0 and case["spec"]["n_steps"] >= 2 and len({x.split(":")[1] for x in d}) >= 3

    def tags(self, case, obs):
        if case.get("kind") == "whole":
            return self._whole_tags(case, obs)
        s = case["spec"]
        t = ["kind:engine", s["clock"], f"crn{s['crn_keys']}", "pop0" if s["pop"] == 0 else "pop1" if s["pop"] == 1 else "pop+"]
        for k in ("mort", "disease", "stepmod", "obs", "extras", "pop_extra", "newborn", "perm"):
            t.append(k if s.get(k) else "no-" + k)
        o, x, d = s.get("obs") or {}, s.get("extras") or {}, s.get("disease") or {}
        t += [f"obs:{k}" for k in ("rich", "report", "cfg_excl", "concat", "defaults", "values") if o.get(k)]
        t += [f"extras:{k}" for k in ("cat", "tables", "ds", "art", "private", "foreign") if x.get(k)] + (["extras:late"] if x.get("late") is not None else [])
        t += [f"disease:{k}" for k in ("excess", "trig", "transient", "back") if d.get(k)]
        t += ["mode:" + h["mode"] for h in case["histories"]] + ["route:" + h.get("route", "args") for h in case["histories"]]
        t += [f"prior:{p}" for h in case["histories"] for p in h["prior"]] + [f"priors{len(h['prior'])}" for h in case["histories"]]
        t += [f"verbosity{h.get('verbosity', 0)}" for h in case["histories"]] + ["peek" for h in case["histories"] if h.get("peek")]
        t.append("births" if any(s["births"]) else "no-births")
        t += ["name-follows-the-count" if r.get("name") == (h.get("sim_name") or f"simulation_{len(h['prior']) + 1}") else "name-other"
              for h, r in zip(case["histories"], obs["runs"]) if not r["error"]]
        dc = obs.get("draw_check") or {}
        t.append("draws-recomputed" if dc.get("checked") else "draws-not-recomputed")
        t += ["skipped:cpython-empty-buffer-pickle-assert" for h, r in zip(case["histories"], obs["runs"]) if self._cpython_pickle_assert(h, r)]
        if (obs["runs"][0].get("report") or "").endswith(":0") or not obs["runs"][0].get("report"):
            t.append("no-result-files")
        return t

    def sample_view(self, case, obs):
        if case.get("kind") == "whole":
            from . import whole
            b = obs["runs"][0]
            return {"kind": "whole", "cfg": case["cfg"],
                    "histories": [dict(h, prior=[f"{p['style']}:{p['mode']}:seed{p['cfg']['seed']}:map{p['cfg']['mapSize']}" for p in h["prior"]]) for h in case["histories"]],
                    "baseline": {"init": whole.show_table(b.get("init"))[:300], "last": whole.show_table((b.get("steps") or [None])[-1])[:400],
                                 "error": b.get("error"), "clocks": b.get("clocks")}}
        return {"spec": case["spec"], "histories": case["histories"],
                "baseline_digests": (obs["runs"][0]["digests"] or [])[:6], "results": obs["runs"][0]["results"],
                "draw_requests": obs["runs"][0]["n_draws"], "draws_recomputed": (obs.get("draw_check") or {}).get("checked")}

    # ================================================================== WHOLE stream (case kind "whole")
    def driver_of(self, case):
        return "Whole" if case.get("kind") == "whole" else self.driver

    def _whole_run(self, case):
        res = ww.run_jobs([ww.job_of(case["cfg"], h) for h in case["histories"]], parallel=6)
        for r in res:
            r.pop("first_hashes", None)
            r["trace"] = (r.get("trace") or "")[-600:]
        return {"kind": "whole", "runs": res}

    @staticmethod
    def _whole_anchor(obs):
        """the run whose number of stages decides how many `step` lines the model gets (the first step-by-step run)"""
        for r in obs["runs"]:
            if not r.get("worker_error") and r.get("mode") in ww.STEP_LIKE:
                return r
        return None

    def _whole_lines(self, case, obs):
        from . import whole
        a = self._whole_anchor(obs)
        if a is None:
            return []
        return whole.PROP.model_lines(case["cfg"], a)

    def _whole_compare(self, case, obs, replies):
        """`Whole.compare` (unchanged) applied to EVERY history: all must equal the one model run"""
        from . import whole
        out = []
        for k, (h, r) in enumerate(zip(case["histories"], obs["runs"])):
            if r.get("worker_error"):
                continue
            try:
                d = whole.PROP.compare(case["cfg"], ww.whole_obs_of_run(r), replies)
            except IndexError:
                d = [f"more stages than the model was asked for ({len(r.get('steps') or [])} steps)"]
            out += [f"history #{k} ({h['mode']}, hash seed {h['hashseed']}, {len(h['prior'])} earlier simulations): {x}" for x in d]
        return out

    def _whole_oracle(self, case, obs):
        """the property itself: the same configuration gives the same simulation, stage by stage, under every process history"""
        f = []
        runs = obs["runs"]
        for h, r in zip(case["histories"], runs):
            if r.get("worker_error"):
                f.append({"sig": "whole-run-raised", "msg": f"history {self._whole_hist(h)}: {r['worker_error']} {r.get('trace', '')}"})
            elif r.get("error") and str(r["error"]["class"]).startswith("other"):
                f.append({"sig": "whole-unexpected-exception", "msg": f"history {self._whole_hist(h)}: {r['error']}"})
        if f:
            return f
        # reference = the first step-by-step run (the baseline: fresh process, hash seed 0, nothing else in the process)
        base = self._whole_anchor(obs) or runs[0]
        bh = case["histories"][[k for k, r in enumerate(runs) if r is base][0]]
        for h, r in zip(case["histories"], runs):
            if r is base:
                continue
            d = ww.diff_runs(base, r)
            if d:
                f.append({"sig": "whole-history-differs", "msg": f"history {self._whole_hist(h)} vs the baseline (fresh process, hash seed {bh['hashseed']}, "
                                                                 f"{len(bh['prior'])} earlier simulations): {d}"})
        return f

    @staticmethod
    def _whole_hist(h):
        return {"hashseed": h["hashseed"], "noise": h["noise"], "mode": h["mode"], "probe": h.get("probe", True),
                "prior": [f"{p['style']}:{p['mode']}:seed{p['cfg']['seed']}:map{p['cfg']['mapSize']}:pop{p['cfg']['pop']}" for p in h["prior"]]}

    def _whole_tags(self, case, obs):
        from . import whole
        cfg = case["cfg"]
        t = ["kind:whole"]
        for h in case["histories"]:
            t += ["whole:mode:" + h["mode"], f"whole:priors{len(h['prior'])}", "whole:probe" if h.get("probe", True) else "whole:no-probe"]
            t += [f"whole:prior:{p['style']}" for p in h["prior"]]
            t += ["whole:prior:same-seed-other-map" for p in h["prior"] if p["cfg"]["seed"] == cfg["seed"] and p["cfg"]["mapSize"] != cfg["mapSize"]]
        b = obs["runs"][0]
        if not b.get("worker_error"):
            keep = ("outcome:", "hash-collision:", "block=", "clock:", "keycols:", "ext:", "pipe:called", "obs:results-nonzero", "births:", "untracked:",
                    "machine-moved", "dt:global-step-grew")
            t += ["whole:" + x for x in whole.PROP.tags(cfg, b) if x.startswith(keep)]
            t.append(f"whole:stages:{len(b.get('steps') or []) + 1}")
        return t

    def _whole_shrink(self, case):
        from . import whole
        hs = case["histories"]
        if len(hs) > 2:
            for i in range(1, len(hs)):
                yield dict(case, histories=[hs[0], hs[i]])
        for i, h in enumerate(hs):
            if i and h["prior"]:
                for j in range(len(h["prior"])):
                    yield dict(case, histories=hs[:i] + [dict(h, prior=h["prior"][:j] + h["prior"][j + 1:])] + hs[i + 1:])
            if i and h.get("probe", True):
                yield dict(case, histories=hs[:i] + [dict(h, probe=False)] + hs[i + 1:])
        for c in whole.PROP.shrink(case["cfg"]):
            if whole.crn_safe(c):
                yield dict(case, cfg=c)


PROP = C01()
