"""C02 — a simulant's draw depends only on identity, time and decision point.

Tie: correspondence. A real randomness stack (vcheck/stream_common.py: a running simulation whose probe component
got its streams from `builder.randomness.get_stream`, or bare `RandomnessStream`s on a scripted clock; with and
without key columns; SimpleClock / DateTimeClock) answers sequences of draw requests. The harness computes each
random block with the real `get_hash(stream._key(additional_key))` + numpy exactly as `get_draw` does and hands
the numerators (draw * 2**53, exact) and the real index map's positions to Driver/C02.lean; compared per request:
labels in request order, positions read, exact numerators, refusal class. The model builds the seed string itself
(`joinKey` of decision point, str(clock()), str(additional_key), seed), so a `_key` that drops or re-orders a
component is a disagreement.

Oracle (independent of the model): result indexed by the request in request order; every draw in [0, 1);
a simulant's draw is the same in every request of the same (decision point, time, additional key, seed) -
singletons, subsets, permutations, repeats, before and after unrelated requests; registered simulants have
distinct in-range positions; requests at a different decision point / time / additional key / seed share no draw;
unknown simulants are refused; a decision point can be obtained once.

Bit-level RNG model (lean/VivModel/Model/Sha1.lean, MT19937.lean, RandomBlock.lean; Props/C02Bits.lean): a fraction of the
cases runs with `"bits": true` - NO block is handed to the driver (`rng 1`), it computes
`RandomState(get_hash(seed string)).random_sample(size)` itself (SHA-1 mod 2^32-1, mt19937_seed, twist, tempering,
53-bit doubles) and the real `get_draw` results are compared with it as exact numerators. Unit cases tie the two
models to the real functions directly: `{"kind": "hash"}` = vivarium's `get_hash` (and hashlib's full digest) on ASCII /
non-ASCII keys incl. the SHA-1 padding boundaries, `{"kind": "mt"}` = numpy's `RandomState(seed)` doubles and raw
32-bit outputs for boundary and random seeds.
"""
from __future__ import annotations

import random
from fractions import Fraction

from .. import stream_common as sc
from ..runner import Prop

BITS_FRACTION = 0.4         # of the generated stack cases: block computed by the Lean model from the seed string

NAMES = ["dp", "mortality", "moves_left", "a_b", "a", "x.y", "gets_disease", "dp_2", "b_5", "a_5_b",
         "with space", "UPPER.Case", "123", "_", "a" * 70]      # legal but unusual names (LESSONS.md 10); 70 chars: two SHA-1 chunks
AKS = [None, None, None, 0, 5, -3, 17, "x", "a_b", "loc", "sex_choice", "b_5_c", "c", "with space", "",
       {"f": 1.5}, {"f": 0.0}, {"b": True}, {"t": [1, "a"]}, {"np": 1234}, {"ts": "2020-01-01 06:00:00"}]   # any object: float, bool, tuple, numpy int, Timestamp
# additional keys that compare (and hash) EQUAL but print differently: the seed string is built from str(key), so each member
# of a family names a different block; a memo keyed by the objects themselves confuses them (seeded C02-3 / C02-4 / C02-5)
EQ_FAMILIES = [[1, {"b": True}, {"f": 1.0}, {"np": 1}], [0, {"b": False}, {"f": 0.0}, {"np": 0}],
               [{"t": [1, "a"]}, {"t": [True, "a"]}, {"t": [1.0, "a"]}], [5, {"f": 5.0}, {"np": 5}]]
FORMS = ["pos", "pos", "kw", "omit", "ppf"]     # get_draw(i, k) / get_draw(index=i, additional_key=k) / get_draw(i) / sample_from_distribution(i, ppf=identity, ..)


def _identity_ppf(draws):
    return draws


def _obs_draw(env, stream, req, ak, blocks, positional=False, opt=None):
    out = {"t": env.tstr(), "step": env.steps}
    opt = opt or {}
    ak = sc.ak_obj(ak)
    form = opt.get("form", "pos")
    try:
        ks, nums = env.block(stream, ak)
        out["ks"] = ks
        blocks.setdefault(ks, nums)
    except Exception as e:  # noqa: BLE001
        out["ks"] = None
        out["kerr"] = sc.exc_class(e)
    try:
        idx = env.index(req, opt.get("ix", "int64"))
        if form == "kw":
            d = stream.get_draw(index=idx, additional_key=ak)
        elif form == "omit" and ak is None:
            d = stream.get_draw(idx)
        elif form == "ppf":
            d = stream.sample_from_distribution(idx, ppf=_identity_ppf, additional_key=ak)
        else:
            d = stream.get_draw(idx, ak)
        out["r"] = "ok"
        out["idx"] = [int(x) for x in d.index]
        out["hx"] = [sc.fhex(x) for x in d.values]
        out["dtype"] = str(d.dtype)
        if not positional:
            try:
                out["pos"] = [int(x) for x in env.index_map[env.index(req)]] if req else []
            except Exception:  # noqa: BLE001
                out["pos"] = None
    except Exception as e:  # noqa: BLE001
        out["r"] = sc.exc_class(e)
    return out


def run_env(case, seed_override=None, light=False):
    """execute the case's ops on a fresh environment; `light`: draws only (the twin run with another seed)"""
    if case.get("pre") and not light:
        # an earlier, DIFFERENTLY configured simulation in the same process that uses the same decision points (LESSONS.md 8)
        pre = dict(case["env"], crn=not case["env"]["crn"], seed=[case["env"]["seed"][0] + 17, "pre"], init_use=False)
        e0 = sc.Env(pre)
        if e0.streams and e0.labels:
            e0.streams[0].get_draw(e0.index(e0.labels[::-1]), "pre")
        e0.step()
        e0.close()
    env = sc.Env(case["env"], seed_override)
    blocks = {}
    obs = {"size": env.size, "dup": env.dup, "seed": env.seed_str, "stream_seeds": list(env.stream_seeds),
           "pos0": env.positions(), "ops": [], "blocks": blocks}
    for op in case["ops"]:
        kind = op[0]
        if kind == "step":
            env.step()
            obs["ops"].append({"t": env.tstr()})
        elif kind == "untrack":
            try:
                env.untrack(op[1])
                obs["ops"].append({"r": "ok"})
            except Exception as e:  # noqa: BLE001
                obs["ops"].append({"r": sc.exc_class(e)})
        elif kind == "birth":
            try:
                env.birth(op[1])
                obs["ops"].append({"r": "ok", "pos": env.positions(), "labels": list(env.labels)})
            except Exception as e:  # noqa: BLE001
                obs["ops"].append({"r": sc.exc_class(e), "pos": env.positions(), "labels": list(env.labels)})
        elif kind == "draw":
            obs["ops"].append(_obs_draw(env, env.streams[op[1]], op[2], op[3], blocks, opt=op[4] if len(op) > 4 else None))
        elif kind == "idraw":
            obs["ops"].append(_obs_draw(env, env.init_stream, op[1], op[2], blocks, positional=True, opt=op[3] if len(op) > 3 else None))
        else:
            raise ValueError(f"unknown op {op}")
    if light:
        return {"ops": [{k: o.get(k) for k in ("r", "hx")} for o in obs["ops"]], "seed": env.seed_str}
    # draws the probe component made INSIDE its initializer (initial creation: one step before the start; births: now)
    obs["init"] = []
    for rec in env.init_log:
        rec = dict(rec)
        if rec.get("ks") is not None:
            blocks.setdefault(rec["ks"], rec.pop("block"))
        rec.pop("block", None)
        rec["step"] = rec.pop("steps")
        obs["init"].append(rec)
    env.close()
    return obs


def all_ops(case, obs):
    """the case's ops with their observations, followed by the draws made inside the initializer as pseudo draw ops"""
    out = list(zip(case["ops"], obs["ops"]))
    for rec in obs.get("init", []):
        out.append((["draw", 0, rec["req"], "init", {"form": "kw", "inside": "initializer"}], rec))
    return out


def _ak_str(ak):
    return sc.ak_str(ak)


def kind_of(case) -> str:
    return case.get("kind", "stack")


def run_hash(case):
    """the real `get_hash` (twice: it must be a function of the key) + hashlib's digest as reference for `sha`"""
    import hashlib
    sc.impl.load()
    from vivarium.framework.randomness.stream import get_hash
    out = []
    for key in case["keys"]:
        o = {}
        try:
            h = get_hash(key)
            o["r"] = "ok"
            o["h"] = int(h)
            o["int"] = isinstance(h, int) and not isinstance(h, bool)
            o["h2"] = int(get_hash(key))
        except Exception as e:  # noqa: BLE001
            o["r"] = sc.exc_class(e)
        try:
            o["sha"] = hashlib.sha1(key.encode("utf8")).hexdigest()
        except UnicodeEncodeError:
            o["sha"] = None
        out.append(o)
    return {"keys": out}


def run_mt(case):
    """numpy's legacy generator as `get_draw` uses it: doubles of `random_sample` ("d") as exact numerators over 2^53,
    raw 32-bit outputs ("w": randint over the full range hands out `genrand_int32` unchanged)"""
    sc.impl.load()
    import numpy as np
    out = []
    for seed, n, what in case["reqs"]:
        try:
            rs = np.random.RandomState(seed=seed)
            if what == "d":
                v = [sc.numer(x) for x in rs.random_sample(n)]
            else:
                v = [int(x) for x in rs.randint(0, 1 << 32, size=n, dtype=np.uint32)]
            out.append({"r": "ok", "v": v})
        except Exception as e:  # noqa: BLE001
            out.append({"r": sc.exc_class(e)})
    return {"reqs": out}


class C02(Prop):
    id = "C02"
    lean_modules = ["VivModel.Props.C02", "VivModel.Props.C02Bits", "VivModel.Props.C02Src"]
    build_targets = ["VivModel.Model.Stream", "VivModel.Model.Sha1", "VivModel.Model.MT19937", "VivModel.Model.RandomBlock",
                     "VivModel.Model.Proto"]
    driver = "C02"
    technique = ("Lean 4 proof (structural induction over request lists; append cancellation for the seed string; executable "
                 "SHA-1 and MT19937 models with proved 32-bit / 53-bit range invariants, the MT recurrence and kernel-evaluated "
                 "known answers) + differential correspondence with real RandomnessManager / RandomnessStream / IndexMap stacks, "
                 "in bit-level mode with the block computed by the Lean model from the seed string alone")
    partial = ("'unrelated draws' for different seed strings is a statistical property of SHA-1 / Mersenne twister: proved is "
               "that the seed string differs whenever exactly one component changes; unrelatedness is sampled on the real code. "
               "The numerator range [0, 2^53) is proved for the modelled block; that hashlib / numpy compute the modelled "
               "functions is established by differential testing. Streams created with initializes_crn_attributes=True are "
               "positional by design and excluded.")
    n_quick = 260
    n_thorough = 4000
    workers = 4
    trusted_extra = ["hashlib.sha1 and numpy 1.26 RandomState(seed=int).random_sample(n) compute what Model/Sha1.lean and "
                     "Model/MT19937.lean define: tied by differential testing only (driver ops hash/sha/mt/mtw and rng-mode draws, "
                     "exact integers), not by proof; binary64 represents (a>>5 * 2^26 + b>>6) / 2^53 exactly",
                     "in the cases without \"bits\" the block is data: the harness feeds the numerators the real functions produce",
                     "the index map's positions are data (modelled and proved injective / stable in C03)"]
    rule = ("case = one randomness stack (simulation or bare streams; key columns on/off; Simple/DateTime clock; 1-4 decision points) "
            "and 5-70 operations: draw requests (empty, singleton, subset, permutation, repeats, non-contiguous, unknown simulants), "
            "clock steps, births, positional init-stream requests; distinct by case hash; non-trivial = some simulant drawn in two "
            "different requests of one (decision point, time, key, seed) and two requests differing in a key component; "
            "unit cases (get_hash keys / RandomState seeds): non-trivial = at least one value computed")

    # ------------------------------------------------------------------ generation
    def _env(self, rng, mode=None, crn=None, clock=None, big=False):
        mode = mode or rng.choice(["sim", "sim", "direct", "direct", "direct"])
        crn = rng.random() < 0.5 if crn is None else crn
        clock = clock or rng.choice(["simple", "datetime"])
        pop = rng.randint(1, 12)
        nstreams = rng.randint(1, 4)
        names = rng.sample(NAMES, nstreams)
        seed = [rng.choice([0, 1, 7, 42, 123456]), rng.choice([None, None, 0, 3, 99, "abc", "7_x"])]
        if big:     # bit-level cases: blocks that need several regenerations of the twister state (312 doubles each)
            lo = int(round(400 * (7.5 ** rng.random())))
            big_size = rng.choice(sc.good_sizes(lo, lo + 40))
        if mode == "sim":
            size = big_size if big else rng.choice(sc.good_sizes(10 * pop + 31, 10 * pop + 260))
            streams = [[n, None] for n in names]
            env = {"mode": mode, "crn": crn, "clock": clock, "size": size, "pop": pop, "seed": seed, "streams": streams}
            if rng.random() < 0.5:          # who asks for the streams, how, and a first use inside the initializer (LESSONS.md 2, 7)
                env["owners"] = [rng.randint(0, 1) for _ in names]
                env["forms"] = [rng.choice(["pos", "pos2", "kw"]) for _ in names]
                env["other_first"] = rng.random() < 0.5
            if rng.random() < 0.4:
                env["init_use"] = True
            return env
        size = big_size if big else rng.choice(sc.good_sizes(max(17, 4 * pop), 6 * pop + 200))
        streams = [[n, None] for n in names]
        if rng.random() < 0.5:           # a second stream of the same decision point under another seed
            streams.append([names[0], rng.choice(["s2", 5, "7_1", 1000])])
        if crn and not big and rng.random() < 0.25:
            # crowded map (LESSONS.md 9): barely more positions than simulants, so first- and second-order collisions are the rule
            size = rng.choice(sc.good_sizes(pop + 2, pop + 24))
        if crn:
            labels = rng.sample(range(0, 4 * size), pop)
        else:
            labels = sorted(rng.sample(range(size), min(pop, size)))
        return {"mode": mode, "crn": crn, "clock": clock, "size": size, "pop": pop, "seed": seed, "streams": streams,
                "labels": labels}

    def _request(self, rng, known, size, crn, allow_bad=True):
        """an index request over the known simulants"""
        r = rng.random()
        if not known:
            return []
        if r < 0.06:
            return []
        if r < 0.2:
            return [rng.choice(known)]
        if r < 0.45:
            return rng.sample(known, rng.randint(1, len(known)))                 # subset, arbitrary order
        if r < 0.6:
            p = list(known)
            rng.shuffle(p)
            return p                                                             # permutation of everybody
        if r < 0.7:
            return sorted(known)
        if r < 0.88:
            return [rng.choice(known) for _ in range(rng.randint(2, 2 * len(known) + 1))]   # repeats
        if allow_bad and r < 0.93:
            bad = (max(known) + 1 + rng.randint(0, 5)) if crn else size + rng.randint(0, 3)
            q = rng.sample(known, rng.randint(0, len(known))) + [bad]
            rng.shuffle(q)
            return q
        return list(reversed(sorted(known)))

    # keys for the get_hash unit cases: SHA-1 padding boundaries (55 / 56 bytes: one more chunk; 64; 119 / 120) and beyond
    HASH_LENS = [0, 1, 2, 3, 4, 7, 8, 20, 31, 32, 54, 55, 56, 57, 63, 64, 65, 100, 118, 119, 120, 121, 127, 128, 129, 183, 184, 200]
    NONASCII = ["\u00e9", "\u00df", "\u20ac", "\U0001f600", "\u4e2d", "\u0100", "\u07ff", "\u0800", "\uffff", "\U00010000",
                "\U0010ffff", "\x7f", "\x80", "\x00", "\t", "\n"]

    def _gen_hash(self, rng):
        keys = []
        for _ in range(rng.randint(8, 24)):
            r = rng.random()
            if r < 0.45:
                n = rng.choice(self.HASH_LENS)
                keys.append("".join(chr(rng.randint(32, 126)) for _ in range(n)))
            elif r < 0.6:
                n = rng.randint(0, 140)
                keys.append("".join(chr(rng.randint(32, 126)) for _ in range(n)))
            elif r < 0.8:    # a realistic seed string
                t = rng.choice([str(rng.randint(0, 500)), f"20{rng.randint(10, 40)}-0{rng.randint(1, 9)}-1{rng.randint(0, 9)} "
                                f"{rng.randint(10, 23)}:00:00", f"2021-03-0{rng.randint(1, 9)} 12:00:00"])
                keys.append("_".join([rng.choice(NAMES), t, str(rng.choice(AKS)), str(rng.choice([0, 1, 7, 42, 123456, "4None", "s1"]))]))
            else:            # non-ASCII: 2-, 3-, 4-byte UTF-8 sequences, control characters; byte length near a boundary
                n = rng.choice([1, 2, 5, 27, 28, 29, 54, 55, 56, 60])
                k = [chr(rng.randint(32, 126)) for _ in range(n)]
                for _ in range(rng.randint(1, 4)):
                    k.insert(rng.randint(0, len(k)), rng.choice(self.NONASCII))
                keys.append("".join(k))
        return {"kind": "hash", "keys": keys}

    def _gen_mt(self, rng):
        reqs = []
        for _ in range(rng.randint(3, 7)):
            r = rng.random()
            if r < 0.3:
                seed = rng.choice([0, 1, 2, 5489, (1 << 32) - 2, (1 << 32) - 1, (1 << 31), (1 << 31) - 1, (1 << 30), 4294967294])
            else:
                seed = rng.getrandbits(rng.choice([8, 16, 31, 32, 32, 32]))
            n = rng.choice([0, 1, 2, 3, 17, 100, 311, 312, 313, 500, 623, 624, 625, 700, 936, 937, 1300])
            what = "d" if rng.random() < 0.75 else "w"
            if what == "w":
                n = min(n, 700)
            reqs.append([seed, n, what])
            if rng.random() < 0.3:      # the same seed asked for a different length: prefix of the same sequence
                reqs.append([seed, rng.choice([1, 5, 313, 640]), what])
        if rng.random() < 0.15:
            reqs.append([rng.choice([1 << 32, (1 << 32) + 5, 1 << 40]), 3, "d"])       # numpy refuses: ValueError
        return {"kind": "mt", "reqs": reqs}

    def generate(self, rng: random.Random, i: int, tier: str):
        r = rng.random()
        if r < 0.045:
            return self._gen_hash(rng)
        if r < 0.08:
            return self._gen_mt(rng)
        bits = rng.random() < BITS_FRACTION
        env = self._env(rng, big=bits and rng.random() < 0.2)
        known = list(range(env["pop"])) if env["mode"] == "sim" else list(env["labels"])
        ns = len(env["streams"])
        ops = []
        fresh = known[:]          # simulant labels available for births in direct mode
        born_this_step = True     # the initial population counts as this step's birth (sim + crn: one birth per step)
        aks = rng.sample(AKS, 3) + [None]
        family = None
        if rng.random() < 0.35:      # a third of the cases: the keys in play are one family of equal-but-differently-printed objects
            family = rng.choice(EQ_FAMILIES)
            aks = rng.sample(family, min(len(family), 3)) + [rng.choice(AKS)]
        plain = rng.random() < 0.3          # a third of the cases: plain int64 indexes, positional calls only

        def opt(ak):
            """how the request is made: kind of Index object, call form"""
            if plain:
                return []
            o = {"ix": rng.choice(sc.IX_KINDS), "form": rng.choice([f for f in FORMS if f != "omit" or ak is None])}
            return [o]

        for blockno in range(rng.randint(1, 4)):
            # a probe request, unrelated history, the probe again, and its pieces
            s = rng.randrange(ns)
            ak = rng.choice(aks)
            probe = self._request(rng, known, env["size"], env["crn"], allow_bad=False) or known[:1]
            ops.append(["draw", s, probe, ak] + opt(ak))
            for _ in range(rng.choice([0, 0, 1, 3, 8, 30]) if blockno == 0 else rng.randint(0, 6)):
                a2 = rng.choice(aks)
                ops.append(["draw", rng.randrange(ns), self._request(rng, known, env["size"], env["crn"]), a2] + opt(a2))
            if rng.random() < 0.25:
                a2 = rng.choice(aks)
                ops.append(["idraw", self._request(rng, known, env["size"], env["crn"], allow_bad=False), a2] + opt(a2))
            if known and len(set(probe)) >= 2 and rng.random() < 0.4:
                # LESSONS.md 12: the same request again on the SAME (initialising) handle at the same time and key - verbatim, reversed,
                # permuted, a covered sub-request that is not a prefix - after k other operations
                a3 = rng.choice(aks)
                u = list(dict.fromkeys(probe))
                ops.append(["idraw", u, a3] + opt(a3))
                for _ in range(rng.randint(1, 3)):
                    for _ in range(rng.choice([0, 0, 1, 2])):
                        a2 = rng.choice(aks)
                        ops.append(rng.choice([["draw", rng.randrange(ns), self._request(rng, known, env["size"], env["crn"], allow_bad=False), a2] + opt(a2),
                                               ["idraw", self._request(rng, known, env["size"], env["crn"], allow_bad=False), a2] + opt(a2)]))
                    v = rng.choice(["same", "rev", "perm", "sub"])
                    r2 = list(u) if v == "same" else u[::-1] if v == "rev" else rng.sample(u, len(u)) if v == "perm" else rng.sample(u[1:], rng.randint(1, len(u) - 1))
                    ops.append(["idraw", r2, a3] + opt(a3))
            if env["mode"] == "sim" and known and rng.random() < 0.3:
                # some simulants become untracked: they keep their place in the randomness system and are still asked for
                ops.append(["untrack", rng.sample(known, rng.randint(1, max(1, len(known) // 2)))])
            ops.append(["draw", s, probe, ak] + opt(ak))
            for x in rng.sample(sorted(set(probe)), min(len(set(probe)), rng.randint(1, 4))):
                ops.append(["draw", s, [x], ak] + opt(ak))
            q = list(probe)
            rng.shuffle(q)
            ops.append(["draw", s, q[: rng.randint(1, len(q))], ak] + opt(ak))
            if env["mode"] == "sim" and rng.random() < 0.5:
                ops.append(["draw", s, sorted(known), ak, {"ix": "pop", "form": "kw"}])      # the population's own index object
            # the same request under exactly one changed component
            r = rng.random()
            if r < 0.35 and ns > 1:
                ops.append(["draw", rng.choice([k for k in range(ns) if k != s]), probe, ak])
            elif r < 0.7:
                ops.append(["draw", s, probe, rng.choice([a for a in AKS if a != ak])])
            if family and ak in family:
                # every other member of the family, back to back on the same stream at the same time, then the first again
                for a2 in family:
                    if a2 != ak:
                        ops.append(["draw", s, probe, a2] + opt(a2))
                ops.append(["draw", s, probe, ak] + opt(ak))
            # time moves on / births
            if rng.random() < 0.8:
                ops.append(["step"])
                born_this_step = False
                if rng.random() < 0.5:
                    ops.append(["draw", s, probe, ak])
            if env["mode"] == "sim" and rng.random() < 0.15:
                ops.append(["birth", 0])          # zero simulants created: nothing registered, nothing disturbed (LESSONS.md 6)
            if rng.random() < 0.35 and not born_this_step:
                if env["mode"] == "sim":
                    n = rng.randint(1, 3)
                    if (len(known) + n) * 10 <= env["size"] or not env["crn"]:
                        if len(known) + n <= env["size"]:
                            ops.append(["birth", n])
                            known += list(range(len(known), len(known) + n))
                            born_this_step = True
                else:
                    pool = [l for l in (range(4 * env["size"]) if env["crn"] else range(env["size"])) if l not in known]
                    if pool:
                        new = rng.sample(pool, min(len(pool), rng.randint(1, 3)))
                        ops.append(["birth", new])
                        known += new
                        born_this_step = True
                ops.append(["draw", rng.randrange(ns), self._request(rng, known, env["size"], env["crn"]), rng.choice(aks)])
        case = {"env": env, "ops": ops}
        if env["mode"] == "sim" and rng.random() < 0.25:
            case["pre"] = True
        if bits:
            case["bits"] = True
        if env["mode"] == "sim" and rng.random() < 0.6:
            sd = list(env["seed"])
            if rng.random() < 0.5:
                sd[0] = sd[0] + 1 + rng.randint(0, 5)
            else:
                sd[1] = (sd[1] + "y") if isinstance(sd[1], str) else (sd[1] or 0) + 1 + rng.randint(0, 5)
            case["twin_seed"] = sd
        return case

    def boundary(self):
        out = []
        for mode in ("sim", "direct"):
            for crn in (False, True):
                for clock in ("simple", "datetime"):
                    env = {"mode": mode, "crn": crn, "clock": clock, "size": 101, "pop": 6, "seed": [4, None],
                           "streams": [["dp", None], ["a_b", None]]}
                    lab = [0, 1, 2, 3, 4, 5]
                    if mode == "direct":
                        lab = [40, 7, 300, 12, 99, 5] if crn else [0, 5, 17, 50, 99, 100]
                        env["labels"] = lab
                        env["streams"].append(["dp", "other"])
                    bad = 1000 if crn else 101
                    ops = [["draw", 0, lab, None], ["draw", 0, [], None], ["draw", 0, lab[::-1], None],
                           ["draw", 0, [lab[2]], None], ["draw", 0, [lab[4], lab[4], lab[1], lab[4]], None],
                           ["draw", 1, lab, None], ["draw", 0, lab, 5], ["draw", 0, lab, "x"], ["draw", 0, lab, ""],
                           ["draw", 0, [lab[0], bad], None], ["draw", 0, [bad], "x"],
                           ["idraw", lab[::-1], None], ["idraw", lab, None], ["idraw", [lab[3]], None],
                           ["step"], ["draw", 0, lab, None], ["draw", 0, [lab[5], lab[0]], None], ["step"],
                           ["draw", 0, lab, None], ["draw", 1, lab, "x"]]
                    if mode == "direct":
                        ops += [["draw", 2, lab, None], ["birth", [lab[0] + 1, lab[1] + 1]],
                                ["draw", 0, lab + [lab[0] + 1], None], ["draw", 0, [lab[1] + 1], None]]
                    else:
                        ops += [["birth", 2], ["draw", 0, lab + [6, 7], None], ["draw", 0, [7], None]]
                    case = {"env": env, "ops": ops}
                    if mode == "sim":
                        case["twin_seed"] = [4, 0] if crn else [5, None]
                    out.append(case)
        # the documented ambiguity of the un-escaped separator: ("a", key "b_5_c") vs ("a_5_b", key "c") at time 5
        out.append({"env": {"mode": "direct", "crn": False, "clock": "simple", "size": 41, "pop": 4, "seed": [0, None],
                            "streams": [["a", None], ["a_5_b", None]], "labels": [0, 1, 2, 3]},
                    "ops": [["step"], ["draw", 0, [0, 1, 2, 3], "b_5_c"], ["draw", 1, [0, 1, 2, 3], "c"],
                            ["draw", 0, [0, 1, 2, 3], "c"]]})
        # a block of exactly the population's size; the largest label; an index map nobody registered in
        out.append({"env": {"mode": "direct", "crn": False, "clock": "datetime", "size": 5, "pop": 5, "seed": ["s", 1],
                            "streams": [["dp", None]], "labels": [0, 1, 2, 3, 4]},
                    "ops": [["draw", 0, [4, 3, 2, 1, 0], None], ["draw", 0, [4], None], ["draw", 0, [5], None],
                            ["idraw", [0, 1, 2, 3, 4], None], ["idraw", [0, 1, 2, 3, 4, 4], None]]})
        out.append({"env": {"mode": "direct", "crn": True, "clock": "simple", "size": 29, "pop": 0, "seed": [1, 2],
                            "streams": [["dp", None]], "labels": []},
                    "ops": [["draw", 0, [], None], ["draw", 0, [3], None], ["birth", [3, 9]], ["draw", 0, [9, 3], None]]})
        n_first = len(out)      # (the bit-level copies below refer to out[0..n_first-1] by position)
        extra = []
        # ---- LESSONS.md audit: every kind of handle, call form, index object and additional key; untracked simulants;
        # zero-size births; draws inside the initializer; an earlier differently configured simulation in the process
        for crn, clock, other_first in ((True, "datetime", True), (False, "simple", False)):
            env = {"mode": "sim", "crn": crn, "clock": clock, "size": 101, "pop": 6, "seed": [4, "abc"],
                   "streams": [["dp", None], ["with space", None], ["a" * 70, None], ["_", None]],
                   "owners": [0, 1, 1, 0], "forms": ["pos", "pos2", "kw", "kw"], "other_first": other_first, "init_use": True}
            lab = [0, 1, 2, 3, 4, 5]
            ops = []
            for ix in sc.IX_KINDS:
                ops += [["draw", 0, lab, None, {"ix": ix, "form": "pos"}], ["draw", 0, lab[::-1], None, {"ix": ix, "form": "kw"}],
                        ["draw", 1, [3, 4, 5], "x", {"ix": ix, "form": "ppf"}], ["draw", 0, [5, 2, 2], None, {"ix": ix, "form": "omit"}],
                        ["idraw", [4, 3], None, {"ix": ix, "form": "kw"}]]
            for ak in AKS[3:]:
                ops += [["draw", 2, [4, 0, 2], ak, {"form": "kw"}], ["draw", 3, [1], ak, {"form": "ppf"}]]
            # the same request again on the initialising handle at the same time and key: verbatim, reversed, a covered non-prefix
            # sub-request, after other operations (LESSONS.md 12); likewise on an ordinary handle through every call form
            ops += [["idraw", lab, "k"], ["draw", 0, lab, "k"], ["idraw", lab[::-1], "k"], ["idraw", [3, 1], "k", {"form": "ppf"}], ["idraw", lab, "k"],
                    ["idraw", [5, 4, 3], "k", {"form": "kw"}], ["idraw", lab, None], ["idraw", [2, 0], "k"], ["idraw", lab[1:], "k", {"ix": "range"}],
                    ["draw", 1, lab, "k", {"form": "ppf"}], ["draw", 0, [5], "k2"], ["draw", 1, lab[::-1], "k", {"form": "ppf"}],
                    ["draw", 1, [3, 1], "k", {"form": "kw"}], ["draw", 1, lab, "k"]]
            ops += [["untrack", [1, 4]], ["draw", 0, lab, None], ["draw", 0, [4, 1], None, {"form": "kw"}], ["draw", 0, [1], None],
                    ["draw", 0, lab, None, {"ix": "pop", "form": "pos"}], ["birth", 0], ["draw", 0, lab, None],
                    ["step"], ["birth", 0], ["draw", 0, lab[::-1], None], ["birth", 2], ["untrack", [7]],
                    ["draw", 0, [7, 6, 0], "init"], ["draw", 0, [7, 6, 5, 4, 3, 2, 1, 0], None, {"ix": "range", "form": "kw"}],
                    ["draw", 0, list(range(8)), None, {"ix": "pop", "form": "ppf"}], ["step"], ["draw", 1, [7, 1, 4], {"t": [1, "a"]}]]
            extra.append({"env": env, "ops": ops, "pre": True, "twin_seed": [4, "abd"]})
        # nobody in the initial population (LESSONS.md 6): requests, zero-size and real births afterwards
        for crn in (False, True):
            extra.append({"env": {"mode": "sim", "crn": crn, "clock": "simple", "size": 47, "pop": 0, "seed": [0, None],
                                  "streams": [["dp", None]], "init_use": True},
                          "ops": [["draw", 0, [], None], ["draw", 0, [0], None], ["birth", 0], ["step"], ["birth", 3],
                                  ["draw", 0, [2, 0, 1], None, {"ix": "range", "form": "kw"}], ["draw", 0, [2], None], ["draw", 0, [3], None]]})
        # a crowded map (LESSONS.md 9): 12 simulants, then 15, in a block of 17 positions - collisions upon collisions
        lab = [5, 33, 2, 60, 41, 17, 8, 52, 29, 64, 11, 47]
        extra.append({"env": {"mode": "direct", "crn": True, "clock": "datetime", "size": 17, "pop": 12, "seed": [9, None],
                              "streams": [["dp", None]], "labels": lab},
                      "ops": [["draw", 0, lab, None], ["draw", 0, sorted(lab), None], ["draw", 0, lab[::-1], None, {"form": "kw"}], ["step"],
                              ["birth", [1, 66, 30]], ["draw", 0, [66, 1, 30] + lab, None], ["draw", 0, [30], None], ["draw", 0, [30, 30, 5], "x"]]})
        # ---- bit-level: the same stacks with the block computed by the Lean model from the seed string (no data handed over)
        for k in (0, 3, 5, 6):
            out.append(dict(out[k], bits=True))
        out.append(dict(out[8], bits=True))      # the ambiguity pair: equal seed strings, equal blocks
        out.append(dict(out[9], bits=True))      # block of exactly the population's size
        # map sizes 53 and 2999: the first / last doubles of a block that needs 10 regenerations of the twister state
        # (double 311 is the last one of the first 624 words, 312 the first one of the second)
        out.append({"bits": True, "env": {"mode": "sim", "crn": False, "clock": "datetime", "size": 53, "pop": 5, "seed": [11, None],
                                          "streams": [["mortality", None]]},
                    "ops": [["draw", 0, [0, 1, 2, 3, 4], None], ["draw", 0, [52, 51, 0], "x"], ["step"], ["draw", 0, [4, 52], None],
                            ["idraw", [3, 2, 1], None]]})
        big = [0, 1, 310, 311, 312, 313, 623, 624, 935, 936, 2998]
        out.append({"bits": True, "env": {"mode": "direct", "crn": False, "clock": "simple", "size": 2999, "pop": len(big), "seed": [0, 9],
                                          "streams": [["dp", None], ["dp", "2999"]], "labels": big},
                    "ops": [["draw", 0, big, None], ["draw", 0, big[::-1], 7], ["draw", 1, [2998, 0], None], ["draw", 0, [2999], None],
                            ["step"], ["draw", 0, [312, 311], None], ["idraw", [5, 6, 7], None]]})
        out.append({"bits": True, "env": {"mode": "sim", "crn": True, "clock": "simple", "size": 1301, "pop": 7, "seed": [123456, 3],
                                          "streams": [["a_b", None], ["x.y", None]]},
                    "ops": [["draw", 0, [0, 1, 2, 3, 4, 5, 6], None], ["draw", 1, [6, 0], ""], ["step"], ["birth", 2],
                            ["draw", 0, [8, 7, 0], None], ["draw", 1, [8], "with space"]],
                    "twin_seed": [123456, 4]})
        # ---- get_hash: empty key, one-chunk / two-chunk padding boundaries (55 | 56 bytes, 119 | 120), FIPS 180 test vectors,
        # realistic seed strings, non-ASCII keys (2-, 3-, 4-byte UTF-8), a lone surrogate (cannot be encoded)
        a = "a"
        out.append({"kind": "hash", "keys": ["", "abc", "abcdbcdecdefdefgefghfghighijhijkijkljklmklmnlmnomnopnopq",
                                             a * 54, a * 55, a * 56, a * 57, a * 63, a * 64, a * 65, a * 119, a * 120, a * 121, a * 128,
                                             a * 1000, "dp_2021-03-02 12:00:00_None_4", "mortality_0_None_0", "a_5_b_5_c_0",
                                             "crn.init_3_x_12345699", "\u00e9", "dp_\u00e9t\u00e9_None_0", "\u20ac" * 18 + "a",
                                             "\u20ac" * 18 + "ab", "\U0001f600", "a\x00b", "\x7f\x80", "\ud800", "ab\udfffcd"]})
        # ---- RandomState(seed): boundary seeds, block lengths around the 624-word regeneration, a seed numpy refuses
        out += extra
        out.append(dict(extra[0], bits=True))
        m = (1 << 32) - 1
        out.append({"kind": "mt", "reqs": [[0, 5, "d"], [0, 5, "w"], [1, 313, "d"], [1, 1, "d"], [m - 1, 3, "d"], [m, 3, "d"], [m, 4, "w"],
                                           [5489, 2, "w"], [5489, 1000, "w"], [5489, 700, "d"], [m + 1, 1, "d"], [1 << 31, 0, "d"],
                                           [4294967294, 1300, "d"], [42, 624, "w"], [42, 625, "w"], [42, 312, "d"]]})
        return out

    def shrink(self, case):
        k = kind_of(case)
        if k != "stack":
            f = "keys" if k == "hash" else "reqs"
            for i in range(len(case[f]) - 1, -1, -1):
                yield dict(case, **{f: case[f][:i] + case[f][i + 1:]})
            return
        ops = case["ops"]
        size = len(ops) // 2
        while size >= 1:                      # delta debugging: drop halves, quarters, … single ops
            for i in range(0, len(ops), size):
                yield dict(case, ops=ops[:i] + ops[i + size:])
            size //= 2
        for i, op in enumerate(ops):
            if op[0] == "draw" and len(op[2]) > 1:
                for j in range(len(op[2])):
                    yield dict(case, ops=ops[:i] + [[op[0], op[1], op[2][:j] + op[2][j + 1:]] + op[3:]] + ops[i + 1:])
        for i, op in enumerate(ops):          # plain call forms / index kinds
            if op[0] == "draw" and len(op) > 4:
                yield dict(case, ops=ops[:i] + [op[:4]] + ops[i + 1:])
        for k in ("pre", "twin_seed"):
            if case.get(k):
                yield {a: b for a, b in case.items() if a != k}
        e = case["env"]
        if any(e.get(k) for k in ("owners", "forms", "init_use", "other_first")):
            yield dict(case, env={a: b for a, b in e.items() if a not in ("owners", "forms", "init_use", "other_first")})

    # ------------------------------------------------------------------ implementation
    def run_impl(self, case):
        if kind_of(case) == "hash":
            return run_hash(case)
        if kind_of(case) == "mt":
            return run_mt(case)
        obs = run_env(case)
        if case.get("twin_seed") is not None:
            obs["twin"] = run_env(case, seed_override=case["twin_seed"], light=True)
        return obs

    # ------------------------------------------------------------------ model
    def _components(self, case, obs, op, o):
        """(decision point, time string, additional-key string, seed string) as the harness knows them"""
        if op[0] == "draw":
            name = case["env"]["streams"][op[1]][0]
            seed = self._seed_of(case, obs, op[1])
            ak = op[3]
        else:
            name, seed, ak = "crn.init", self._seed_of(case, obs, None), op[2]
        return name, sc.expected_tstr(case["env"], o["step"]), _ak_str(ak), seed

    def _seed_of(self, case, obs, k):
        sd = case["env"]["seed"]
        base = str(sd[0]) + (str(sd[1]) if sd[1] is not None else "")
        if k is None:
            return base
        so = case["env"]["streams"][k][1]
        return base if so is None else str(so)

    def _unit_lines(self, case):
        L = []
        if kind_of(case) == "hash":
            for key in case["keys"]:
                if sc.ascii_ok(key):
                    L += [f"hash {sc.hx(key)}", f"sha {sc.hx(key)}"]
                else:
                    cps = ",".join(str(ord(c)) for c in key)
                    L += [f"hashu {cps}", f"shau {cps}"]
        else:
            for seed, n, what in case["reqs"]:
                L.append(f"{'mt' if what == 'd' else 'mtw'} {seed} {n}")
        return L

    def _unit_compare(self, case, obs, replies):
        dis = []
        if kind_of(case) == "hash":
            for n, (key, o) in enumerate(zip(case["keys"], obs["keys"])):
                rh, rs = replies[2 * n], replies[2 * n + 1]
                show = key if len(key) <= 40 else key[:37] + "..."
                if o["r"] != "ok":
                    if not (o["r"] == "err:UnicodeEncodeError" and rh == "err encode"):
                        dis.append(f"key #{n} {show!r} ({len(key)} chars): get_hash {o['r']}, model {rh}")
                elif rh != f"ok {o['h']}":
                    dis.append(f"key #{n} {show!r} ({len(key)} chars): get_hash {o['h']}, model {rh}")
                want = "err encode" if o["sha"] is None else f"ok {o['sha']}"
                if rs != want:
                    dis.append(f"key #{n} {show!r}: hashlib sha1 {o['sha']}, model {rs}")
        else:
            for n, (rq, o, r) in enumerate(zip(case["reqs"], obs["reqs"], replies)):
                if o["r"] != "ok":
                    if not (o["r"] == "err:ValueError" and r == "err seed"):
                        dis.append(f"request #{n} {rq}: numpy {o['r']}, model {r[:60]}")
                    continue
                want = "ok " + (",".join(map(str, o["v"])) or "-")
                if r != want:
                    m = r[3:].split(",") if r.startswith("ok ") and r != "ok -" else []
                    k = next((k for k, (a, b) in enumerate(zip(map(str, o["v"]), m)) if a != b), min(len(o["v"]), len(m)))
                    dis.append(f"request #{n} {rq}: entry {k}: numpy {o['v'][k] if k < len(o['v']) else None}, model "
                               f"{m[k] if k < len(m) else r[:40]}; lengths {len(o['v'])}/{len(m)}")
        return dis

    def model_lines(self, case, obs):
        if kind_of(case) != "stack":
            return self._unit_lines(case)
        env = case["env"]
        bits = bool(case.get("bits"))
        L = [f"size {obs['size']}", f"crn {1 if env['crn'] else 0}"]
        if bits:
            L.append("rng 1")
        if env["mode"] == "sim":
            for n, _ in env["streams"]:
                L.append(f"stream {sc.hx(n)}")
            if env["streams"]:
                L.append(f"stream {sc.hx(env['streams'][0][0])}")
        if env["crn"] and obs["pos0"] is not None:
            L.append(sc.pos_line(obs["pos0"]))
        seen = set()
        for op, o in all_ops(case, obs):
            if op[0] in ("step", "untrack"):
                continue
            if op[0] == "birth":
                if env["crn"] and o["pos"] is not None:
                    L.append(sc.pos_line(o["pos"]))
                continue
            if o.get("ks") is not None and not bits:
                L += sc.blocks_lines(obs["blocks"], seen, o["ks"])
            k, t, a, sd = self._components(case, obs, op, o)
            req = op[2] if op[0] == "draw" else op[1]
            L.append(f"{op[0]} {sc.hx(k)} {sc.hx(t)} {sc.hx(a)} {sc.hx(sd)} {','.join(map(str, req)) or '-'}")
        return L

    def compare(self, case, obs, replies):
        if kind_of(case) != "stack":
            return self._unit_compare(case, obs, replies)
        env = case["env"]
        bits = bool(case.get("bits"))
        dis = []
        it = iter(replies)
        if next(it) != "ok" or next(it) != "ok":
            dis.append("model refused size/crn")
        if bits and next(it) != "ok":
            dis.append("model refused rng 1")
        if env["mode"] == "sim":
            for n, _ in env["streams"]:
                if next(it) != "ok":
                    dis.append(f"model refused decision point {n}")
            if env["streams"]:
                r = next(it)
                if (r == "ok") != (obs["dup"] == "ok"):
                    dis.append(f"second request for decision point {env['streams'][0][0]}: impl {obs['dup']}, model {r}")
        if env["crn"] and obs["pos0"] is not None:
            next(it)
        seen = set()
        for n, (op, o) in enumerate(all_ops(case, obs)):
            if op[0] in ("step", "untrack"):
                continue
            if op[0] == "birth":
                if env["crn"] and o["pos"] is not None:
                    next(it)
                continue
            if not bits and o.get("ks") is not None and o["ks"] not in seen and o["ks"] in obs["blocks"]:
                seen.add(o["ks"])
                if next(it) != "ok":
                    dis.append(f"op #{n}: model refused the block (length {len(obs['blocks'][o['ks']])}, size {obs['size']})")
            r = next(it)
            req = op[2] if op[0] == "draw" else op[1]
            if o["r"] != "ok":
                if not r.startswith("err ") or r == "err noblock":
                    # an empty request never evaluates the key: nothing to compare
                    dis.append(f"op #{n} {op}: impl {o['r']}, model {r[:80]}")
                elif o["r"] not in ("err:IndexError", "err:KeyError", "err:RandomnessError", "err:ValueError"):
                    dis.append(f"op #{n} {op}: impl {o['r']}, model {r}")
                continue
            if not r.startswith("ok "):
                dis.append(f"op #{n} {op}: impl ok, model {r}")
                continue
            body = r[3:]
            m = [] if body == "-" else [tuple(int(x) for x in e.split(":")) for e in body.split(",")]
            nums = [sc.numer(float.fromhex(h)) for h in o["hx"]]
            pos = o.get("pos") if op[0] == "draw" else list(range(len(req)))
            got = list(zip(o["idx"], pos if pos is not None else [None] * len(nums), nums))
            if got != m:
                k = next((k for k, (a, b) in enumerate(zip(got, m)) if a != b), min(len(got), len(m)))
                dis.append(f"op #{n} {op}: entry {k}: impl {got[k] if k < len(got) else None}, model {m[k] if k < len(m) else None} "
                           f"(label, position, numerator/2^53); lengths {len(got)}/{len(m)}"
                           + ("; block computed by the model from the seed string (SHA-1 / MT19937)" if bits else ""))
        return dis

    # ------------------------------------------------------------------ oracle
    def _unit_oracle(self, case, obs):
        """what the property needs from the two functions, seen on the real ones: the hash is a function of the key and a
        seed numpy accepts (else get_draw raises); a generator's doubles lie in [0, 1) as multiples of 2^-53 and a shorter
        block is a prefix of a longer one (the draw at a position does not depend on how many were asked for)"""
        F = []
        if kind_of(case) == "hash":
            for n, (key, o) in enumerate(zip(case["keys"], obs["keys"])):
                if o["r"] != "ok":
                    if o["sha"] is not None:
                        F.append({"sig": "hash-refused", "msg": f"get_hash({key[:60]!r}) raised {o['r']}"})
                    continue
                if not o["int"] or not (0 <= o["h"] < (1 << 32)):
                    F.append({"sig": "hash-not-a-numpy-seed", "msg": f"get_hash({key[:60]!r}) = {o['h']}: RandomState(seed) needs an "
                              f"int in [0, 2^32)"})
                if o["h"] != o["h2"]:
                    F.append({"sig": "hash-not-deterministic", "msg": f"get_hash({key[:60]!r}) = {o['h']}, then {o['h2']}"})
                # the anchored value, computed with hashlib alone: sha1 of the UTF-8 key mod 2^32 - 1 (LESSONS.md 11)
                if o["sha"] is not None and o["h"] != int(o["sha"], 16) % 4294967295:
                    F.append({"sig": "hash-not-sha1-utf8-mod-2^32-1", "msg": f"get_hash({key[:60]!r}) = {o['h']}, sha1(utf-8) mod (2^32-1) = "
                              f"{int(o['sha'], 16) % 4294967295}"})
            return F
        by_seed = {}
        for n, (rq, o) in enumerate(zip(case["reqs"], obs["reqs"])):
            if o["r"] != "ok":
                continue
            top = (1 << 53) if rq[2] == "d" else (1 << 32)
            if any(v is None or not (0 <= v < top) for v in o["v"]):
                F.append({"sig": "draw-out-of-range", "msg": f"RandomState({rq[0]}): a value outside [0, {top}) / not a multiple of 2^-53"})
            p = by_seed.setdefault((rq[0], rq[2]), o["v"])
            k = min(len(p), len(o["v"]))
            if p[:k] != o["v"][:k]:
                F.append({"sig": "block-not-prefix-stable", "msg": f"RandomState({rq[0]}): blocks of lengths {len(p)} and {len(o['v'])} differ "
                          f"on their common prefix"})
        return F

    def oracle(self, case, obs):
        if kind_of(case) != "stack":
            return self._unit_oracle(case, obs)
        env = case["env"]
        F = []

        def fail(sig, msg):
            F.append({"sig": sig, "msg": msg})

        if env["mode"] == "sim" and env["streams"] and obs["dup"] == "ok":
            fail("duplicate-decision-point-accepted", f"decision point {env['streams'][0][0]} handed out twice")
        known = set(range(env["pop"])) if env["mode"] == "sim" else set(env.get("labels", []))
        size = sc.expected_size(env)            # from the configuration, not read back (LESSONS.md 1)
        if obs["size"] != size:
            fail("block-size", f"the index map has size {obs['size']}; configured map_size {env['size']}, population {env['pop']}: expected {size}")
        ops_all = [op for op, _ in all_ops(case, obs)]
        expected_blocks = {}

        def seeded_block(key):
            """the block the anchors describe, computed without vivarium: RandomState(sha1(key) mod (2^32 - 1)).random_sample(size)"""
            if key not in expected_blocks:
                import hashlib
                import numpy as np
                h = int(hashlib.sha1(key.encode("utf8")).hexdigest(), 16) % 4294967295
                expected_blocks[key] = np.random.RandomState(seed=h).random_sample(size)
            return expected_blocks[key]

        def check_pos(snap, where):
            if snap is None:
                return
            labels, ps = snap
            if len(set(ps)) != len(ps):
                fail("positions-collide", f"{where}: positions {dict(zip(labels, ps))}")
            if any(not (0 <= p < size) for p in ps):
                fail("position-out-of-range", f"{where}: positions {ps}, block size {size}")

        check_pos(obs["pos0"], "initial population")
        groups = {}      # (stream no, step, ak repr, seed) -> {sim: (hex, op#)}
        recs = []        # successful, non-empty draw ops: (op#, components, {sim: hex})
        first_result = {}
        known_at_end = set(known)
        for op, o in zip(case["ops"], obs["ops"]):
            if op[0] == "birth" and o["r"] == "ok":
                known_at_end = set(o["labels"])
        for n, (op, o) in enumerate(all_ops(case, obs)):
            if op[0] == "birth":
                if o["r"] == "ok":
                    known = set(o["labels"])
                elif env["mode"] == "sim" and op[1] == 0:
                    fail("empty-birth-refused", f"op #{n} {op}: creating zero simulants raised {o['r']}")
                check_pos(o["pos"], f"after op #{n} {op}")
                continue
            if op[0] == "untrack":
                if o["r"] != "ok":
                    fail("untrack-refused", f"op #{n} {op}: {o['r']}")
                continue
            if op[0] in ("draw", "idraw") and "t" in o:
                want_t = sc.expected_tstr(env, o["step"])
                if o["t"] != want_t:
                    fail("clock-string", f"op #{n} {op}: the clock reads {o['t']!r} after {o['step']} steps, configured: {want_t!r}")
            if op[0] == "idraw":
                # a CRN-initialising stream is positional BY DESIGN (excluded from the property), but what it hands out is still fixed:
                # entry i of the request gets position i of the block seeded by ("crn.init", time, key, seed) - whatever was asked before
                # on this handle (LESSONS.md 12: repeats, reversed / permuted / sub-requests at the same time and key)
                rq = op[1]
                if o["r"] == "ok" and rq and len(rq) <= size:
                    if o["idx"] != rq:
                        fail("result-index", f"op #{n} {op}: result indexed by {o['idx']}")
                    else:
                        key = "_".join(["crn.init", sc.expected_tstr(env, o["step"]), _ak_str(op[2]), self._seed_of(case, obs, None)])
                        blk = seeded_block(key)
                        bad = [i for i, h in enumerate(o["hx"]) if float.fromhex(h) != float(blk[i])]
                        if bad:
                            fail("positional-draw-depends-on-history", f"op #{n} {op}: entry {bad[0]} is {float.fromhex(o['hx'][bad[0]])}, position {bad[0]} of the "
                                 f"block seeded by sha1({key!r}) holds {float(blk[bad[0]])} ({len(bad)} of {len(rq)} differ)")
                elif o["r"] != "ok" and len(rq) <= size:
                    fail("draw-refused", f"op #{n} {op}: {o['r']} on the initialising stream")
                continue
            if op[0] != "draw":
                continue
            req = op[2]
            if n >= len(case["ops"]):
                known = known_at_end        # draws made inside the initializer: judged against everybody registered
            valid = all((s in known) if env["crn"] else (0 <= s < size) for s in req)
            if o["r"] != "ok":
                if valid:
                    fail("draw-refused", f"op #{n} {op}: {o['r']} for a request of registered simulants")
                continue
            if not valid:
                fail("unknown-simulant-accepted", f"op #{n} {op}: request contains a simulant without a position, result {o['idx']}")
                continue
            if o["idx"] != req:
                fail("result-index", f"op #{n} {op}: result indexed by {o['idx']}")
                continue
            vals = [float.fromhex(h) for h in o["hx"]]
            if any(not (0.0 <= v < 1.0) for v in vals):
                fail("draw-out-of-range", f"op #{n} {op}: draws {vals}")
            if o.get("pos") is not None and len(set(zip(req, o["pos"]))) == len(set(req)) and \
                    len(set(o["pos"])) != len(set(req)):
                fail("positions-collide", f"op #{n} {op}: positions {o['pos']}")
            gk = (op[1], o["step"], repr(op[3]))
            g = groups.setdefault(gk, {})
            full = (gk, tuple(req))
            if full in first_result and first_result[full][1] != o["hx"]:
                fail("draw-depends-on-history", f"op #{n} {op}: same request as op #{first_result[full][0]} at the same time, "
                     f"different draws {o['hx'][:3]} vs {first_result[full][1][:3]}")
            first_result.setdefault(full, (n, o["hx"]))
            for s, h in zip(req, o["hx"]):
                if s in g and g[s][0] != h:
                    fail("draw-depends-on-request", f"simulant {s}: {float.fromhex(g[s][0])} in op #{g[s][1]} {ops_all[g[s][1]]}, "
                         f"{float.fromhex(h)} in op #{n} {op} (same decision point, time, key, seed)")
                    break
                g.setdefault(s, (h, n))
            if req:
                name = env["streams"][op[1]][0]
                comp = (name, o["step"], repr(op[3]), self._seed_of(case, obs, op[1]))
                joined = "_".join([name, sc.expected_tstr(env, o["step"]), _ak_str(op[3]), comp[3]])
                recs.append((n, comp, joined, dict(zip(req, o["hx"]))))
                # the value itself: position `pos` of the block seeded by sha1 of (decision point, time, key, seed) - the anchors of
                # the property, computed here from the configuration with hashlib + numpy only (LESSONS.md 1, 11)
                pos = o.get("pos") if env["crn"] else req
                if pos is not None and all(0 <= p < size for p in pos):
                    blk = seeded_block(joined)
                    bad = [(s_, float.fromhex(h), float(blk[p])) for s_, h, p in zip(req, o["hx"], pos) if float.fromhex(h) != float(blk[p])]
                    if bad:
                        fail("draw-not-the-seeded-block-value", f"op #{n} {op}: simulant {bad[0][0]} got {bad[0][1]}, position of the block seeded "
                             f"by sha1({joined!r}) mod (2^32-1) holds {bad[0][2]} ({len(bad)} of {len(req)} differ)")
        # different decision point / time / additional key / seed: no draw in common
        seen_pairs = set()
        for i in range(len(recs)):
            for j in range(i + 1, len(recs)):
                a, b = recs[i], recs[j]
                if a[1] == b[1]:
                    continue
                if (a[1], b[1]) in seen_pairs:
                    continue
                common = [s for s in a[3] if s in b[3]]
                if not common:
                    continue
                seen_pairs.add((a[1], b[1]))
                if a[2] == b[2]:
                    continue        # documented ambiguity of the un-escaped "_" (several components changed at once)
                same = [s for s in common if a[3][s] == b[3][s]]
                if same:
                    diff = [w for w, x, y in zip(("decision-point", "time", "additional-key", "seed"), a[1], b[1]) if x != y]
                    fail("same-draws-different-" + "+".join(diff),
                         f"ops #{a[0]} {ops_all[a[0]]} and #{b[0]} {ops_all[b[0]]} differ in {diff} but give simulants {same[:5]} "
                         f"the same draws")
                    break
            else:
                continue
            break
        tw = obs.get("twin")
        if tw is not None and tw["seed"] != obs["seed"]:
            for n, (op, o, o2) in enumerate(zip(case["ops"], obs["ops"], tw["ops"])):
                if op[0] == "draw" and o.get("r") == "ok" and o2.get("r") == "ok" and o["hx"]:
                    same = [s for s, x, y in zip(op[2], o["hx"], o2["hx"]) if x == y]
                    if same:
                        fail("same-draws-different-seed", f"op #{n} {op}: seeds {obs['seed']!r} and {tw['seed']!r} give simulants {same[:5]} the same draws")
                        break
        return F

    # ------------------------------------------------------------------ reporting
    def nontrivial(self, case, obs):
        if kind_of(case) == "hash":
            return any(o["r"] == "ok" for o in obs["keys"])
        if kind_of(case) == "mt":
            return any(o["r"] == "ok" and o["v"] for o in obs["reqs"])
        seen, multi, comps = {}, False, set()
        for op, o in zip(case["ops"], obs["ops"]):
            if op[0] == "draw" and o.get("r") == "ok" and op[2]:
                gk = (op[1], o["step"], repr(op[3]))
                comps.add(gk)
                for s in op[2]:
                    if (gk, s) in seen and seen[(gk, s)] != tuple(op[2]):
                        multi = True
                    seen.setdefault((gk, s), tuple(op[2]))
        return multi and len(comps) > 1

    def _unit_tags(self, case, obs):
        t = ["kind:" + kind_of(case)]
        if kind_of(case) == "hash":
            for key, o in zip(case["keys"], obs["keys"]):
                try:
                    nb = len(key.encode("utf8"))
                except UnicodeEncodeError:
                    t.append("hash:unencodable-refused" if o["r"] != "ok" else "hash:unencodable-accepted")
                    continue
                t.append("hash:ascii" if sc.ascii_ok(key) else "hash:non-ascii")
                t.append("hash-bytes:" + ("0" if nb == 0 else str(nb) if nb in (55, 56, 63, 64, 119, 120) else
                                          "1-54" if nb < 55 else "57-118" if nb < 119 else ">120"))
        else:
            for (seed, n, what), o in zip(case["reqs"], obs["reqs"]):
                t.append("mt:" + ("doubles" if what == "d" else "words") + (":" + o["r"][4:] if o["r"] != "ok" else ""))
                t.append("mt-seed:" + (str(seed) if seed in (0, 1) else "2^32-2" if seed == (1 << 32) - 2 else "2^32-1" if
                                       seed == (1 << 32) - 1 else ">=2^32" if seed >= (1 << 32) else "other"))
                words = 2 * n if what == "d" else n
                t.append("mt-regenerations:" + ("0" if words == 0 else "1" if words <= 624 else "2" if words <= 1248 else ">2"))
        return t

    def tags(self, case, obs):
        if kind_of(case) != "stack":
            return self._unit_tags(case, obs)
        env = case["env"]
        t = [f"mode:{env['mode']}", f"crn:{int(env['crn'])}", f"clock:{env['clock']}", f"streams:{len(env['streams'])}",
             "kind:stack", "block:" + ("computed-by-model" if case.get("bits") else "data")]
        if case.get("bits"):
            sz = obs["size"]
            t.append("bits-size:" + ("<=312" if sz <= 312 else "313-1000" if sz <= 1000 else ">1000"))
        if "twin" in obs:
            t.append("twin-seed-run")
        if env["mode"] == "sim":
            t.append("dup-decision-point:" + ("refused" if obs["dup"] != "ok" else "accepted"))
        ndraw = 0
        joined = {}
        if env.get("owners") and any(env["owners"]):
            t.append("stream-from-second-component")
        for f in set(env.get("forms") or []):
            t.append("get_stream-form:" + f)
        if case.get("pre"):
            t.append("earlier-simulation-in-process")
        if obs.get("init"):
            t.append("draw-inside-initializer:" + ",".join(sorted({r["r"] if r["r"] == "ok" else "refused" for r in obs["init"]})))
        untracked = set()
        for op, o in all_ops(case, obs)[:len(case["ops"])]:
            t.append("op:" + op[0])
            if op[0] == "untrack":
                untracked |= set(op[1])
            if op[0] in ("draw", "idraw"):
                req = op[2] if op[0] == "draw" else op[1]
                t.append(f"{op[0]}:" + (o["r"] if o["r"] == "ok" else "refused:" + o["r"][4:]))
                ak = op[3] if op[0] == "draw" else op[2]
                t.append("ak:" + ("none" if ak is None else "obj-" + next(iter(ak)) if isinstance(ak, dict) else type(ak).__name__))
                opt = (op[4] if len(op) > 4 else None) if op[0] == "draw" else (op[3] if len(op) > 3 else None)
                t.append("index-kind:" + (opt or {}).get("ix", "int64"))
                t.append("call-form:" + (opt or {}).get("form", "pos"))
                if untracked & set(req):
                    t.append("req:untracked-simulants")
                if op[0] == "draw":
                    ndraw += 1
                    if not req:
                        t.append("req:empty")
                    elif len(req) == 1:
                        t.append("req:singleton")
                    elif len(set(req)) < len(req):
                        t.append("req:repeats")
                    elif req == sorted(req) and req == list(range(req[0], req[0] + len(req))):
                        t.append("req:contiguous")
                    elif req == sorted(req):
                        t.append("req:sorted-noncontiguous")
                    else:
                        t.append("req:unsorted")
                    if "_" in env["streams"][op[1]][0]:
                        t.append("name-with-underscore")
                    if o["r"] == "ok" and req:
                        name = env["streams"][op[1]][0]
                        comp = (name, o["step"], repr(op[3]), self._seed_of(case, obs, op[1]))
                        j = "_".join([name, o["t"], _ak_str(op[3]), comp[3]])
                        if j in joined and joined[j] != comp:
                            t.append("ambiguous-seed-string")
                        joined.setdefault(j, comp)
            if op[0] == "birth":
                t.append("birth:" + o["r"] + (":zero" if op[1] in (0, []) else ""))
        t.append("history:" + ("0" if ndraw <= 2 else "1-10" if ndraw <= 12 else "11-30" if ndraw <= 32 else ">30"))
        return t

    def sample_view(self, case, obs):
        if kind_of(case) == "hash":
            return {"kind": "hash", "keys": case["keys"][:4], "observed": obs["keys"][:4]}
        if kind_of(case) == "mt":
            return {"kind": "mt", "reqs": case["reqs"][:4], "observed": [dict(o, v=o.get("v", [])[:4]) for o in obs["reqs"][:4]]}
        return {"env": case["env"], "bits": bool(case.get("bits")), "ops": case["ops"][:6],
                "observed": [{k: v for k, v in o.items() if k in ("r", "idx", "hx", "pos", "t")} for o in obs["ops"][:6]]}


PROP = C02()
