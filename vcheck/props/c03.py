"""C03 — the randomness index is injective, stable and in range.

Tie: correspondence. Random registration histories (1-3 key columns of int / float / datetime type, 1-6
batches, integer or datetime clock times, duplicate-key batches as the malformed stream) are run on a real
`IndexMap`; the same history goes to Driver/C03.lean (the executable model the theorems of Props/C03.lean
are about). Compared: outcome class of every update, the exact position of every simulant after every
update, `__getitem__` replies, and the hash of individual keys (block size and a 61-bit modulus; clock
salt and integer salts 1, 2, 90001). `_convert_to_ten_digit_int` of float / datetime values is a parameter
(its output is handed to the model); for integers the model computes `_spread` itself.
A second case kind runs a small real simulation (RandomnessManager + births) and checks the block size
rule of `RandomnessManager.setup` and the same oracle on the manager's map after every step.
"""
from __future__ import annotations

import random

from .. import imap_common as ic
from .. import impl
from ..runner import Prop

T0 = 1577836800 * 10**9          # 2020-01-01 in ns
DAY = 86400 * 10**9


def gen_value(rng: random.Random, ty: str, spread: int):
    """one key value; `spread` bounds the number of distinct values (small → duplicates are likely)"""
    if ty == "int":
        r = rng.random()
        if r < 0.75:
            return rng.randint(0, spread)
        if r < 0.85:
            return rng.randint(90000, 90000 + spread)            # _spread wraps the ten-digit modulus
        if r < 0.93:
            return -rng.randint(1, spread)                       # accepted by the (vacuous) sign check
        return rng.choice([2**62, 2**62 + 1, 10**14, 83010348331692]) + rng.randint(0, 3)   # int64 wrap in _spread
    if ty == "float":
        r = rng.random()
        if r < 0.6:
            return rng.randint(0, spread * 8) / 8                # dyadic
        if r < 0.8:
            return round(rng.random() * spread, 3)
        if r < 0.9:
            return -rng.randint(1, spread * 8) / 16
        return rng.choice([1e300, 1e-9, 123456789.987654321, 0.1, 1 / 3])
    r = rng.random()
    if r < 0.85:
        return T0 + rng.randint(0, spread * 24) * 3600 * 10**9
    return -rng.randint(1, spread * 24) * 3600 * 10**9 - 10**9   # before 1970: negative ten-digit integer


def gen_history(rng: random.Random, tier: str, dup_rate: float, n_batches=None, types=None, size=None):
    ncols = rng.choice([1, 1, 2, 2, 3])
    types = types or [rng.choice(["int", "int", "float", "time"]) for _ in range(ncols)]
    ncols = len(types)
    hi = 200 if tier == "quick" else 600
    size = size or rng.choice(ic.coprime_sizes(ncols, 5, hi))
    nb = n_batches or rng.randint(1, 6)
    fill = rng.choice([0.25, 0.4, 0.55, 0.7, 0.8])              # final load factor: drives the collision rate
    total = max(1, int(size * fill))
    tunit = rng.choice(["ns", "ns", "ns", "us", "us", "s"])
    if tunit == "s" and "time" in types:
        total = min(total, 12)      # second resolution: pandas 3 + _clip_to_seconds send every datetime to ±1 – all keys collide
    spread = max(3, int(total * rng.choice([0.7, 1.5, 4])) // max(1, ncols - 1 + 1))
    clock = rng.choice(["time", "time", "int"])
    t = T0 if clock == "time" else rng.randint(0, 5)
    seen, batches, next_sim = set(), [], rng.choice([0, 0, 7, 1000])
    left = total
    for b in range(nb):
        n = max(1, left // (nb - b)) if b == nb - 1 else rng.randint(1, max(1, 2 * left // (nb - b)))
        n = min(n, left)
        if n <= 0:
            break
        malformed = rng.random() < dup_rate
        keys, local = [], set()
        tries = 0
        while len(keys) < n and tries < 50 * n:
            tries += 1
            k = [gen_value(rng, ty, spread) for ty in types]
            ck = ic.canon_key(types, k)
            if ck in seen or ck in local:
                continue
            local.add(ck)
            keys.append(k)
        if malformed and keys:
            # duplicate inside the batch, or a key that is already registered
            if seen and rng.random() < 0.5:
                src = rng.choice(sorted(seen, key=str))
                keys[rng.randrange(len(keys))] = list(src)
            elif len(keys) >= 2:
                i, j = rng.sample(range(len(keys)), 2)
                keys[j] = list(keys[i])
            elif seen:
                keys[0] = list(rng.choice(sorted(seen, key=str)))
            else:
                keys = [keys[0], list(keys[0])]
        sims = list(range(next_sim, next_sim + len(keys)))
        next_sim += len(keys) + rng.choice([0, 0, 3])
        if rng.random() < 0.5:
            rng.shuffle(sims)
        cks = [ic.canon_key(types, k) for k in keys]
        ok = len(set(cks)) == len(cks) and not (set(cks) & seen)
        batch = {"t": [clock, t], "sims": sims, "keys": keys, "get": None}
        if ok:
            seen |= set(cks)
            left -= len(keys)
        known = [s for bb in batches for s in bb["sims"]] + sims
        r = rng.random()
        if r < 0.5:
            batch["get"] = [rng.choice(known) for _ in range(rng.randint(0, 5))]
        elif r < 0.6:
            batch["get"] = [rng.choice(known), next_sim + 50]       # unknown simulant → KeyError
        batches.append(batch)
        if rng.random() < 0.8:
            t += DAY * rng.randint(1, 3) if clock == "time" else rng.randint(1, 3)
    return {"kind": "hist", "size": size, "cols": types, "tunit": tunit, "batches": batches}


def oracle_history(hist, obs, label=""):
    """The property on the observed behaviour of one map (no model involved)."""
    fails = []
    types, size = hist["cols"], hist["size"]
    if not types:
        return fails
    prev, registered = {}, set()
    for bi, (b, rec) in enumerate(zip(hist["batches"], obs)):
        cks = [ic.canon_key(types, k) for k in b["keys"]]
        dup = len(set(cks)) != len(cks) or bool(set(cks) & registered)
        cur = None if rec["map"] is None else {s: p for s, p in rec["map"]}
        if not b["sims"]:
            if rec["outcome"] != "ok" or rec["map"] != rec["before"]:
                fails.append({"sig": "empty-batch-not-noop", "msg": f"{label}batch {bi}: {rec['outcome']}"})
            continue
        if dup:
            if rec["outcome"] == "ok":
                fails.append({"sig": "duplicate-keys-mapped", "msg": f"{label}batch {bi}: duplicate keys were accepted"})
            elif rec["outcome"] != "err:randomness":
                fails.append({"sig": "duplicate-keys-wrong-error", "msg": f"{label}batch {bi}: {rec['outcome']}"})
            if rec["outcome"] != "ok" and rec["map"] != rec["before"]:
                fails.append({"sig": "rejected-update-changed-map", "msg": f"{label}batch {bi}: map before {rec['before']} after {rec['map']}"})
        else:
            if rec["outcome"] != "ok":
                fails.append({"sig": "unique-keys-rejected", "msg": f"{label}batch {bi}: {rec['outcome']}"})
        if rec["outcome"] == "ok":
            registered |= set(cks)
        if cur is not None:
            pos = [p for _, p in rec["map"]]
            if any(not isinstance(p, int) for p in pos):
                fails.append({"sig": "position-missing", "msg": f"{label}batch {bi}: non-integer position in {rec['map']}"})
            else:
                if len(set(pos)) != len(pos):
                    fails.append({"sig": "not-injective", "msg": f"{label}batch {bi}: two simulants share a position: {rec['map']}"})
                if any(p < 0 or p >= size for p in pos):
                    fails.append({"sig": "out-of-range", "msg": f"{label}batch {bi}: position outside [0,{size}): {rec['map']}"})
            moved = {s: (p, cur.get(s)) for s, p in prev.items() if cur.get(s) != p}
            if moved:
                fails.append({"sig": "position-changed", "msg": f"{label}batch {bi}: earlier positions changed (sim: (before, after)) {moved}"})
            if rec["outcome"] == "ok":
                sims_now = [s for s, _ in rec["map"]]
                want = sorted(list(prev) + b["sims"])
                if sorted(sims_now) != want:
                    fails.append({"sig": "simulants-lost-or-invented", "msg": f"{label}batch {bi}: simulants in map {sorted(sims_now)}, expected {want}"})
                # every simulant still carries its own key
                given = {s: ic.plain_case_key(types, k) for s, k in zip(b["sims"], b["keys"])}
                for s, k in rec["keys"]:
                    if s in given and k != given[s]:
                        fails.append({"sig": "key-misattached", "msg": f"{label}batch {bi}: simulant {s} carries key {k}, registered with {given[s]}"})
                        break
            prev = cur
        if isinstance(rec.get("get"), list) and cur is not None:
            want = [cur.get(s) for s in b["get"]]
            if rec["get"] != want:
                fails.append({"sig": "getitem-disagrees-with-map", "msg": f"{label}batch {bi}: get {b['get']} → {rec['get']}, map says {want}"})
        if rec.get("get") == "err:key" and cur is not None and all(s in cur for s in b["get"]):
            fails.append({"sig": "getitem-keyerror-for-registered", "msg": f"{label}batch {bi}: get {b['get']}"})
    return fails


def history_tags(hist, obs):
    t = [f"ncols={len(hist['cols'])}"] + ["type:" + x for x in set(hist["cols"])]
    if not hist["cols"]:
        t.append("no-crn")
    used, registered = set(), set()
    for b, rec in zip(hist["batches"], obs):
        t.append("update:" + rec["outcome"])
        cks = [ic.canon_key(hist["cols"], k) for k in b["keys"]] if hist["cols"] else []
        if len(set(cks)) != len(cks):
            t.append("dup:inside-batch")
        if set(cks) & registered:
            t.append("dup:with-registered-key")
        if rec["outcome"] == "ok":
            registered |= set(cks)
        elif rec["before"] is None:
            t.append("rejected-while-map-empty")
        t.append("clock:" + b["t"][0])
        if not b["sims"]:
            t.append("empty-batch")
        if "raw" in rec and rec["outcome"] == "ok":
            final = dict((s, p) for s, p in rec["map"])
            raws = rec["raw"]
            moved = [s for s, r in zip(b["sims"], raws) if final.get(s) != r]
            if any(r in used for r in raws):
                t.append("collision-with-old")
            if len(set(raws)) != len(raws):
                t.append("collision-in-batch")
            if moved:
                t.append("rehashed")
            if any(x < 0 for col in rec["ten"] for x in col):
                t.append("negative-ten-digit")
            used = set(final.values())
            if any(p == hist["size"] - 1 for p in final.values()):
                t.append("hit:last-slot")
            if any(p == 0 for p in final.values()):
                t.append("hit:slot-0")
        if rec.get("get") is not None:
            t.append("get:" + (rec["get"] if isinstance(rec["get"], str) else "ok"))
    return t


# ------------------------------------------------------------------ whole-simulation variant

def gen_sim(rng: random.Random):
    """a small real simulation; the block size max(map_size, 10*population) is kept coprime to ncols*111111 (F11)"""
    keycols = rng.choice([["k1"], ["k3"], ["k1", "k2"], ["k2", "k3"], ["k3", "k1"], ["k1", "k2", "k3"], ["k2", "k3", "k1"]])
    ncols = len(keycols)
    births, steps = rng.randint(0, 3), rng.randint(1, 5)
    if rng.random() < 0.4:
        # the population rule decides the size; gcd 2 (two key columns) only halves the reachable slots
        pop = rng.choice([p for p in (1, 2, 4, 5, 8, 10, 16) if ic.math.gcd(10 * p, ncols * ic.SPREAD) <= 2])
        map_size = rng.choice([1, 7, 10 * pop])
        while births * steps > 2 * pop:
            steps -= 1
        steps = max(1, steps)
        births = min(births, 2 * pop)
    else:
        pop = rng.randint(1, 8)
        need = max(10 * pop + 1, pop + births * steps + 2)
        map_size = rng.choice(ic.coprime_sizes(ncols, need, need + 60))
    return {"kind": "sim", "keycols": keycols, "pop": pop, "map_size": map_size, "births": births, "steps": steps,
            "seed": rng.randint(0, 9)}


def run_sim(case):
    """A real simulation with CRN key columns and births; the manager's map after setup and every step."""
    impl.load()
    import pandas as pd
    from vivarium import Component
    from vivarium.framework.engine import SimulationContext

    keycols = case["keycols"]

    class Pop(Component):
        @property
        def name(self):
            return "pop"

        @property
        def columns_created(self):
            return ["k1", "k2", "k3"]

        def setup(self, b):
            self.crn = b.randomness.get_stream("init", initializes_crn_attributes=True)
            self.streams = [b.randomness.get_stream(f"d{i}") for i in range(3)]
            self.reg = b.randomness.register_simulants
            self.creator = b.population.get_simulant_creator()
            self.clock = b.time.clock()
            self.draws = {}
            self.n = 0

        def on_initialize_simulants(self, d):
            n = len(d.index)
            if n == 0:
                return
            k1 = [float(self.n + i) / 4 for i in range(n)]
            k3 = [(self.n + i) * 7 % 1000 for i in range(n)]
            self.n += n
            df = pd.DataFrame({"k1": k1, "k2": d.creation_time, "k3": k3}, index=d.index)
            self.reg(df[keycols])
            self.population_view.update(df)

        def on_time_step(self, e):
            if case["births"]:
                self.creator(case["births"])
            pop = self.population_view.get(e.index)
            for i, s in enumerate(self.streams):
                dr = s.get_draw(pop.index)
                for sim in pop.index:
                    self.draws.setdefault(int(sim), []).append(float(dr[sim]))

    SimulationContext._clear_context_cache()
    p = Pop()
    sim = SimulationContext(components=[p], configuration={
        "population": {"population_size": case["pop"]},
        "randomness": {"key_columns": keycols, "map_size": case["map_size"], "random_seed": case["seed"]},
        "time": {"start": {"year": 2020, "month": 1, "day": 1}, "end": {"year": 2020, "month": 1, "day": 1 + case["steps"]},
                 "step_size": 1}}, logging_verbosity=0)
    sim.setup()
    im = sim._randomness._key_mapping
    out = {"size": len(im), "maps": [], "draws": {}}
    if len(im) < case["pop"] + case["births"] * case["steps"]:
        # fewer slots than simulants: the collision loop could not terminate; report the size, do not run
        out["skipped"] = "block smaller than the planned population"
        return out
    try:
        sim.initialize_simulants()
        out["maps"].append(ic.dump_map(im)[0])
        for _ in range(case["steps"]):
            sim.step()
            out["maps"].append(ic.dump_map(im)[0])
    except Exception as e:  # noqa: BLE001 - a crash of the simulation is an observation
        out["crash"] = ic.outcome_of(e)
        out["maps"].append(ic.dump_map(im)[0])
    out["draws"] = {str(k): v for k, v in p.draws.items()}
    return out


def oracle_sim(case, obs):
    fails = []
    want = max(case["map_size"], 10 * case["pop"])
    if obs["size"] != want:
        fails.append({"sig": "block-size-rule", "msg": f"block size {obs['size']}, expected max(map_size, 10*population) = {want}"})
    if obs.get("crash"):
        fails.append({"sig": "simulation-crashed", "msg": f"the simulation (unique keys, block large enough) stopped with {obs['crash']}"})
    prev = {}
    for i, m in enumerate(obs["maps"]):
        cur = dict((s, p) for s, p in (m or []))
        pos = list(cur.values())
        if any(not isinstance(p, int) for p in pos):
            fails.append({"sig": "position-missing", "msg": f"sim step {i}: {m}"})
            break
        if len(set(pos)) != len(pos):
            fails.append({"sig": "not-injective", "msg": f"sim step {i}: {m}"})
        if any(p < 0 or p >= obs["size"] for p in pos):
            fails.append({"sig": "out-of-range", "msg": f"sim step {i}: size {obs['size']}: {m}"})
        moved = {s: (p, cur.get(s)) for s, p in prev.items() if cur.get(s) != p}
        if moved:
            fails.append({"sig": "position-changed", "msg": f"sim step {i}: {moved}"})
        prev = cur
    # two simulants never draw the same numbers at three decision points of the same step
    seen = {}
    for s, tr in obs["draws"].items():
        for j in range(0, len(tr) - 2, 3):
            # trajectories start at different steps for simulants born later: key by position from the end
            k = (len(tr) - j, tuple(tr[j:j + 3]))
            if k in seen and seen[k] != s:
                fails.append({"sig": "two-simulants-same-draws", "msg": f"simulants {seen[k]} and {s} drew {k[1]} at the same step"})
                return fails
            seen[k] = s
    return fails


class C03(Prop):
    id = "C03"
    lean_modules = ["VivModel.Props.C03"]
    build_targets = ["VivModel.Model.IndexMap", "VivModel.Model.Proto"]
    driver = "C03"
    technique = ("Lean 4 proof (invariant of IndexMap.update for every hash function, block size, map and batch; lifted to every "
                 "history of batches by induction; hash range from the concrete int64 arithmetic) + differential correspondence "
                 "with the real IndexMap (exact positions after every update, hash of individual keys)")
    partial = ("termination of the collision loop is a hypothesis of every theorem (`update … = .ok m'`): the real loop has no "
               "bound and does not terminate when gcd(size, ncols*111111) cancels the salt shift or the block is full (F11, an "
               "observation outside the property's statement); float / datetime → ten-digit-integer conversion "
               "(_shift, _clip_to_seconds) is a parameter of the model, explored through the real helper, not proved")
    trusted_extra = ["modelled pandas primitives: Series.drop_duplicates (keep first), Index.difference (unique, sorted), "
                     "Series.reindex, sort_index, MultiIndex .loc on the first level; numpy int64 wrap-around and floor modulo"]
    n_quick = 150
    n_thorough = 2000
    case_timeout = 10
    workers = 4
    rule = ("cases = registration histories on a bare IndexMap (and small real simulations); distinct by case hash; "
            "non-trivial = at least one key was moved by collision resolution or a duplicate batch was rejected")

    # ------------------------------------------------------------------ generation
    def boundary(self):
        t = ["time", T0]
        out = [
            # empty frame, no CRN, lookup in an empty map
            {"kind": "hist", "size": 17, "cols": ["int"], "tunit": "ns",
             "batches": [{"t": t, "sims": [], "keys": [], "get": [0]},
                         {"t": t, "sims": [0, 1], "keys": [[1], [2]], "get": [1, 0, 1]},
                         {"t": t, "sims": [], "keys": [], "get": []}]},
            {"kind": "hist", "size": 10, "cols": [], "tunit": "ns",
             "batches": [{"t": t, "sims": [4, 2], "keys": [[], []], "get": [2, 9, 4]}]},
            # duplicate inside the very first batch (map stays None), then a good batch, then a duplicate of an old key
            {"kind": "hist", "size": 23, "cols": ["int", "float"], "tunit": "us",
             "batches": [{"t": ["int", 0], "sims": [0, 1], "keys": [[1, 0.5], [1, 0.5]], "get": [0]},
                         {"t": ["int", 0], "sims": [0, 1], "keys": [[1, 0.5], [1, 1.5]], "get": [0, 1]},
                         {"t": ["int", 1], "sims": [2, 3], "keys": [[2, 0.5], [1, 1.5]], "get": [2]},
                         {"t": ["int", 1], "sims": [2, 3], "keys": [[2, 0.5], [3, 1.5]], "get": [3, 2, 1, 0]}]},
            # a nearly full block: every slot but one is taken, long collision chains
            {"kind": "hist", "size": 5, "cols": ["int"], "tunit": "ns",
             "batches": [{"t": t, "sims": [0, 1], "keys": [[0], [1]], "get": None},
                         {"t": t, "sims": [2, 3], "keys": [[2], [3]], "get": [0, 1, 2, 3]}]},
            {"kind": "hist", "size": 17, "cols": ["float"], "tunit": "ns",   # floats equal modulo 1 share every hash… until the key differs
             "batches": [{"t": t, "sims": list(range(6)), "keys": [[0.5], [1.5], [2.5], [0.25], [7.25], [3.0]], "get": list(range(6))}]},
            {"kind": "hist", "size": 1, "cols": ["int"], "tunit": "ns",
             "batches": [{"t": t, "sims": [0], "keys": [[5]], "get": [0]}]},
            # same keys at a later clock time in another map size; negative and huge integers
            {"kind": "hist", "size": 19, "cols": ["int", "time"], "tunit": "s",
             "batches": [{"t": t, "sims": [3, 1, 2], "keys": [[-1, T0], [2**62, T0 + DAY], [90001, -DAY - 10**9]], "get": [1, 2, 3]},
                         {"t": ["time", T0 + DAY], "sims": [0], "keys": [[-1, T0 + DAY]], "get": [0, 3]}]},
        ]
        out.append({"kind": "sim", "keycols": ["k1"], "pop": 6, "map_size": 61, "births": 3, "steps": 4, "seed": 3})
        out.append({"kind": "sim", "keycols": ["k1", "k2"], "pop": 10, "map_size": 5, "births": 1, "steps": 3, "seed": 0})
        out.append({"kind": "sim", "keycols": ["k3", "k2", "k1"], "pop": 3, "map_size": 43, "births": 2, "steps": 5, "seed": 1})
        return out

    def generate(self, rng, i, tier):
        if i % 25 == 24:
            return gen_sim(rng)
        return gen_history(rng, tier, dup_rate=rng.choice([0.0, 0.15, 0.35]))

    def shrink(self, case):
        if case["kind"] != "hist":
            for k in ("steps", "births", "pop"):
                if case[k] > (1 if k != "births" else 0):
                    yield dict(case, **{k: case[k] - 1})
            return
        bs = case["batches"]
        for i in range(len(bs) - 1, -1, -1):
            yield dict(case, batches=bs[:i] + bs[i + 1:])
        for i, b in enumerate(bs):
            for j in range(len(b["sims"]) - 1, -1, -1):
                nb = dict(b, sims=b["sims"][:j] + b["sims"][j + 1:], keys=b["keys"][:j] + b["keys"][j + 1:])
                yield dict(case, batches=bs[:i] + [nb] + bs[i + 1:])
            if b.get("get"):
                yield dict(case, batches=bs[:i] + [dict(b, get=None)] + bs[i + 1:])

    # ------------------------------------------------------------------ implementation / model / oracle
    def run_impl(self, case):
        ic.repeat_alarm(self.case_timeout)
        if case["kind"] == "sim":
            return run_sim(case)
        return {"batches": ic.run_history(case)}

    def model_lines(self, case, obs):
        if case["kind"] == "sim":
            return []
        return ic.history_lines(case, obs["batches"])[0]

    def compare(self, case, obs, replies):
        if case["kind"] == "sim":
            return []
        _, plan = ic.history_lines(case, obs["batches"])
        return ic.compare_history(case, obs["batches"], replies, plan)

    def oracle(self, case, obs):
        if case["kind"] == "sim":
            return oracle_sim(case, obs)
        return oracle_history(case, obs["batches"])

    def nontrivial(self, case, obs):
        if case["kind"] == "sim":
            return bool(obs["maps"]) and len(obs["maps"][-1] or []) > 1
        tg = history_tags(case, obs["batches"])
        return "rehashed" in tg or "update:err:randomness" in tg

    def tags(self, case, obs):
        if case["kind"] == "sim":
            return ["sim", f"sim-ncols={len(case['keycols'])}"] + (["sim-size-from-population"] if 10 * case["pop"] > case["map_size"] else ["sim-size-from-config"])
        return ["hist"] + history_tags(case, obs["batches"])

    def sample_view(self, case, obs):
        if case["kind"] == "sim":
            return {"case": case, "size": obs["size"], "final_map": obs["maps"][-1] if obs["maps"] else None}
        return {"case": {k: v for k, v in case.items() if k != "batches"},
                "batches": [{"t": b["t"], "sims": b["sims"][:8], "keys": b["keys"][:8], "outcome": r["outcome"],
                             "first_hash": r.get("raw", [])[:8], "map_after": (r["map"] or [])[:12]}
                            for b, r in list(zip(case["batches"], obs["batches"]))[:3]]}


PROP = C03()
