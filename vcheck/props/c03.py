"""C03 — the randomness index is injective, stable and in range.

Tie: correspondence. Random registration histories (1-3 key columns of int / float / datetime type, 1-6
batches, integer or datetime clock times, duplicate-key batches as the malformed stream) are run on a real
`IndexMap`; the same history goes to Driver/C03.lean (the executable model the theorems of Props/C03.lean
are about). Compared: outcome class of every update, the exact position of every simulant after every
update, `__getitem__` replies, and the hash of individual keys (block size and a 61-bit modulus; clock
salt and integer salts 1, 2, 90001). `_convert_to_ten_digit_int` of float / datetime values is a parameter
(its output is handed to the model); for integers the model computes `_spread` itself.
A second case kind runs a small real simulation (RandomnessManager + births) and checks the block size
rule of `RandomnessManager.setup` and the same oracle on the manager's map after every step.
"""
from __future__ import annotations

import random

from .. import imap_common as ic
from .. import impl
from ..runner import Prop

T0 = 1577836800 * 10**9          # 2020-01-01 in ns
DAY = 86400 * 10**9


def gen_value(rng: random.Random, ty: str, spread: int):
    """one key value; `spread` bounds the number of distinct values (small → duplicates are likely)"""
    if ty == "int":
        r = rng.random()
        if r < 0.75:
            return rng.randint(0, spread)
        if r < 0.85:
            return rng.randint(90000, 90000 + spread)            # _spread wraps the ten-digit modulus
        if r < 0.93:
            return -rng.randint(1, spread)                       # accepted by the (vacuous) sign check
        return rng.choice([2**62, 2**62 + 1, 10**14, 83010348331692]) + rng.randint(0, 3)   # int64 wrap in _spread
    if ty == "int-small":                                        # a column that also arrives as float along the history
        r = rng.random()
        return rng.randint(0, spread) if r < 0.8 else rng.randint(90000, 90000 + spread) if r < 0.9 else -rng.randint(1, spread)
    if ty == "float-whole":                                      # whole numbers in a float column ("ages in whole years")
        return float(rng.randint(-3, spread * 2))
    if ty == "float32":                                          # exactly representable in float32 (and float64)
        return rng.randint(-spread * 4, spread * 16) / 16
    if ty == "float":
        r = rng.random()
        if r < 0.6:
            return rng.randint(0, spread * 8) / 8                # dyadic
        if r < 0.8:
            return round(rng.random() * spread, 3)
        if r < 0.9:
            return -rng.randint(1, spread * 8) / 16
        return rng.choice([1e300, 1e-9, 123456789.987654321, 0.1, 1 / 3])
    r = rng.random()
    if r < 0.85:
        return T0 + rng.randint(0, spread * 24) * 3600 * 10**9
    return -rng.randint(1, spread * 24) * 3600 * 10**9 - 10**9   # before 1970: negative ten-digit integer


MODES = ["plain"] * 8 + ["trickle"] * 4 + ["dense"] * 3 + ["chain"] * 3 + ["badtype"] * 2
SMALL_INT = {"int8": (-128, 127), "uint8": (0, 255), "int32": (-2**31, 2**31 - 1), "uint32": (0, 2**32 - 1)}


def _f32_exact(x: float) -> bool:
    import struct
    try:
        return struct.unpack("f", struct.pack("f", x))[0] == x
    except OverflowError:
        return False


def chain_keys(rng: random.Random, ncols: int, size: int, t: int, occupied_hint=()):
    """Integer keys aimed (with the pure-Python reference hash) at higher-order collisions inside ONE batch: a group
    sharing its first hash, members that also share the salt-1 hash, and 'bystanders' – keys whose own first hash is
    free and unshared but equals the salt-1 / salt-2 hash of a group member, i.e. a re-hash lands on them
    (LESSONS.md 9; the conjunction behind seeded C04-1)."""
    fixed = [rng.randint(0, 9) for _ in range(ncols - 1)]
    cand = [[v] + fixed for v in rng.sample(range(0, 6000), 1500)]
    h = {tuple(k): (ic.ref_hash_int(k, t, size), ic.ref_hash_int(k, 1, size), ic.ref_hash_int(k, 2, size)) for k in cand}
    by_first = {}
    for k in cand:
        by_first.setdefault(h[tuple(k)][0], []).append(k)
    p = rng.choice(sorted(by_first, key=lambda q: (-len(by_first[q]), q))[:3])
    group = sorted(by_first[p], key=lambda k: (h[tuple(k)][1], k))[: rng.randint(3, 5)]      # same salt-1 hash first
    taken = {p}
    bystanders = []
    for m in group[1:]:
        for lvl in (1, 2):
            q = h[tuple(m)][lvl]
            if q in taken or q in occupied_hint:
                continue
            pool = [k for k in by_first.get(q, []) if k not in group]
            if pool and rng.random() < 0.8:
                bystanders.append(rng.choice(pool))
                taken.add(q)
    return group, bystanders


def choose_repr(rng: random.Random, types, keys, tunit):
    """a representation for every column of one batch that holds its values exactly"""
    out = []
    for j, ty in enumerate(types):
        vals = [k[j] for k in keys]
        if ty == "time":
            out.append(rng.choice(["ns", "ns", "us", "us", "s"] if len(keys) <= 3 else ["ns", "us", "us"]))
            continue
        whole = all(float(v).is_integer() and abs(v) < 2**53 for v in vals)
        opts = ["float64"] if all(abs(v) < 2**53 for v in vals) or ty == "float" else []
        if all(float(v) == v and _f32_exact(float(v)) for v in vals):      # float(v) == v: an int beyond 2^53 must not be ROUNDED into a float
            opts.append("float32")
        if whole:
            opts += ["int64", "int64"] + [d for d, (lo, hi_) in SMALL_INT.items() if all(lo <= v <= hi_ for v in vals)]
        out.append(rng.choice(opts) if opts else None)
    return out


def expected_ok(hist):
    """per batch: will it be accepted (decided from the case: values, not representations), and the labels registered after it"""
    types, seen, labels, out = hist["cols"], set(), [], []
    for b in hist["batches"]:
        cks = [ic.canon_key(types, k) for k in b["keys"]]
        ok = bool(b["sims"]) and not b.get("bad") and len(set(cks)) == len(cks) and not (set(cks) & seen)
        if ok:
            seen |= set(cks)
            labels = labels + list(b["sims"])
        out.append((ok, list(labels)))
    return out


def add_repeats(rng: random.Random, hist):
    """LESSONS.md 12: exact repeats after something else happened – a whole batch registered again verbatim (same labels,
    same keys; also in another representation of the same values) must be refused as duplicates and change nothing; the same
    lookup asked again after another update; a lookup of a label that is not registered yet (KeyError), asked again right
    after that label was registered."""
    bs = hist["batches"]
    if not hist["cols"] or not bs:
        return
    if rng.random() < 0.35:
        j = rng.randrange(len(bs))
        if bs[j]["sims"] and not bs[j].get("bad"):
            k = rng.randint(j + 1, len(bs))
            rep = {kk: (list(v) if isinstance(v, list) else v) for kk, v in bs[j].items() if kk not in ("get", "get_kind")}
            rep["t"] = list(bs[k - 1]["t"]) if rng.random() < 0.5 else list(bs[j]["t"])
            rep["get"] = None
            rep["repeat_of"] = j
            if rng.random() < 0.5:
                rep["repr"] = choose_repr(rng, hist["cols"], rep["keys"], hist.get("tunit", "ns"))
            bs.insert(k, rep)
    ok = expected_ok(hist)
    gets = [i for i, b in enumerate(bs) if b.get("get") is not None]
    if gets and rng.random() < 0.4:
        j = rng.choice(gets)
        later = [k for k in range(j + 1, len(bs))]
        if later:
            k = rng.choice(later)
            bs[k]["get"], bs[k]["get_kind"] = list(bs[j]["get"]), bs[j].get("get_kind", "index")
            bs[k]["get_repeats"] = j
    cand = [j for j in range(len(bs) - 1) if ok[j + 1][0] and bs[j + 1]["sims"][0] not in ok[j][1] and "get_repeats" not in bs[j + 1]]
    if cand and rng.random() < 0.3:
        j = rng.choice(cand)
        req = rng.sample(ok[j][1], min(2, len(ok[j][1]))) + [bs[j + 1]["sims"][0]]
        bs[j]["get"], bs[j]["get_kind"] = list(req), "index"
        bs[j + 1]["get"], bs[j + 1]["get_kind"] = list(req), "index"
        bs[j + 1]["get_repeats"] = j


def gen_history(rng: random.Random, tier: str, dup_rate: float, n_batches=None, types=None, size=None, mode=None, hetero_rate=None):
    """one registration history; `mode` picks the shape (LESSONS.md 9: rare conjunctions get their own mode):
    plain – 1-6 batches of random sizes; trickle – a dense first batch, then many batches of 1-2 simulants;
    dense – a small block filled to 80-100 % (exactly full included); chain – aimed higher-order collisions inside
    one batch (integer keys, integer clock); badtype – a batch with an unhashable key column in between."""
    mode = mode or rng.choice(MODES)
    ncols = rng.choice([1, 1, 2, 2, 3])
    if mode == "chain":
        types = types or ["int"] * rng.choice([1, 1, 2])
    types = types or [rng.choice(["int", "int", "float", "time"]) for _ in range(ncols)]
    ncols = len(types)
    hi = 200 if tier == "quick" else 600
    if size is None:
        if mode == "dense":
            size = rng.choice(ic.coprime_sizes(ncols, 2, 31))
        elif mode == "chain":
            size = rng.choice(ic.coprime_sizes(ncols, 8, 60))
        else:
            size = rng.choice(ic.coprime_sizes(ncols, 5, hi))
    nb = n_batches or rng.randint(1, 6)
    fill = rng.choice([0.25, 0.4, 0.55, 0.7, 0.8])              # final load factor: drives the collision rate
    if mode == "dense":
        fill = rng.choice([0.8, 0.9, 1.0, 1.0])                  # 1.0: the block ends exactly full
        nb = n_batches or rng.randint(1, 3)
    if mode == "chain":
        fill = 0.75
        nb = n_batches or rng.randint(1, 3)
    total = max(1, int(size * fill))
    tunit = rng.choice(["ns", "ns", "ns", "us", "us", "s"])
    if tunit == "s" and "time" in types:
        total = min(total, 12)      # second resolution: pandas 3 + _clip_to_seconds send every datetime to ±1 – all keys collide
    spread = max(3, int(total * rng.choice([0.7, 1.5, 4])) // max(1, ncols - 1 + 1))
    clock = "int" if mode == "chain" else rng.choice(["time"] * 8 + ["int"] * 5 + ["float", "float", "npint", "tz", "tz"])
    if clock in ("time", "tz"):
        t = T0
    elif clock == "float":
        t = rng.choice([0.0, 0.5, 2.25])
    else:
        t = rng.randint(0, 5)
    gtypes = ["float32" if ty == "float" and rng.random() < 0.25 else ty for ty in types]    # value generators per column
    # LESSONS.md 13: the representation of a key column changes ALONG the history (int <-> float <-> narrower, datetime units)
    hetero = mode != "chain" and rng.random() < (hetero_rate if hetero_rate is not None else 0.4)
    if hetero:
        gtypes = ["int-small" if g == "int" else g for g in gtypes]
    # simulant labels: increasing with gaps, or dealt from a shuffled pool so that later batches interleave with earlier ones
    pool = None
    if rng.random() < 0.4:
        pool = list(range(0, 3 * total + 20))
        rng.shuffle(pool)
    seen, batches, next_sim = set(), [], rng.choice([0, 0, 7, 1000])
    registered_sims, rejected_sims = [], []
    left = total
    if mode == "trickle":
        first = max(1, int(total * rng.choice([0.5, 0.65, 0.8])))
        sizes = [first]
        while sum(sizes) < total and len(sizes) < 14:
            sizes.append(rng.choice([1, 1, 1, 2]))
    elif mode == "chain":
        sizes = None
    else:
        sizes = None
    b = 0
    while True:
        if sizes is not None:
            if b >= len(sizes):
                break
            n = min(sizes[b], left)
        else:
            if b >= nb:
                break
            n = max(1, left // (nb - b)) if b == nb - 1 else rng.randint(1, max(1, 2 * left // (nb - b)))
            n = min(n, left)
        if n <= 0:
            break
        malformed = rng.random() < dup_rate and mode != "chain"
        keys, local = [], set()
        if mode == "chain":
            if b < nb - 1:
                n = min(left, rng.randint(1, max(1, total // 6)))          # a few earlier simulants
            else:
                group, by = chain_keys(rng, ncols, size, int(t))
                aimed = [k for k in group + by if ic.canon_key(types, k) not in seen][: max(2, left - 1)]
                for k in aimed:
                    local.add(ic.canon_key(types, k))
                keys = aimed
                rng.shuffle(keys)
                n = min(left, len(keys) + rng.randint(0, 3))
        # this batch's value generators: a float column sometimes carries whole numbers only (so it can arrive as integers)
        btypes = ["float-whole" if hetero and types[j] == "float" and rng.random() < 0.45 else g for j, g in enumerate(gtypes)]
        tries = 0
        while len(keys) < n and tries < 50 * n:
            tries += 1
            k = [gen_value(rng, ty, spread) for ty in btypes] if mode != "chain" else [rng.randint(0, 6000)] + [rng.randint(0, 9) for _ in range(ncols - 1)]
            ck = ic.canon_key(types, k)
            if ck in seen or ck in local:
                continue
            local.add(ck)
            keys.insert(rng.randint(0, len(keys)), k) if mode == "chain" else keys.append(k)
        if malformed and keys:
            # duplicate inside the batch, or a key that is already registered
            if seen and rng.random() < 0.5:
                src = rng.choice(sorted(seen, key=str))
                keys[rng.randrange(len(keys))] = list(src)
            elif len(keys) >= 2:
                i, j = rng.sample(range(len(keys)), 2)
                keys[j] = list(keys[i])
            elif seen:
                keys[0] = list(rng.choice(sorted(seen, key=str)))
            else:
                keys = [keys[0], list(keys[0])]
        if pool is not None and len(pool) >= len(keys):
            sims = [pool.pop() for _ in keys]
        else:
            pool = None
            next_sim = max([next_sim] + [x + 1 for x in registered_sims + rejected_sims])
            sims = list(range(next_sim, next_sim + len(keys)))
            next_sim += len(keys) + rng.choice([0, 0, 3])
            if rng.random() < 0.5:
                rng.shuffle(sims)
        cks = [ic.canon_key(types, k) for k in keys]
        ok = len(set(cks)) == len(cks) and not (set(cks) & seen)
        batch = {"t": [clock, t], "sims": sims, "keys": keys, "get": None}
        # the frame the keys arrive in (LESSONS.md 2, 3): column order, extra columns, index kind and name
        fr = {}
        if ncols > 1 and rng.random() < 0.3:
            order = list(range(ncols))
            rng.shuffle(order)
            fr["order"] = order
        if rng.random() < 0.25:
            fr["extra"] = True
        if rng.random() < 0.2:
            fr["index_name"] = rng.choice(["foo", "simulant_index", "index"])
        if rng.random() < 0.3:
            fr["range"] = True
        if fr:
            batch["frame"] = fr
        if hetero and keys and rng.random() < 0.75:
            batch["repr"] = choose_repr(rng, types, keys, tunit)
        if mode == "badtype" and b == max(1, nb // 2) and ok:
            # same keys, but one column arrives with a dtype IndexMap cannot hash: must be rejected, map unchanged
            batch["bad"] = {"col": rng.randrange(ncols), "dtype": rng.choice(["bool", "str", "category"])}
            ok = False
        if ok:
            seen |= set(cks)
            left -= len(keys)
            registered_sims += sims
        else:
            rejected_sims += sims
        # lookups (LESSONS.md 5): all registered simulants in a permuted order, repeats, partial, reversed, empty,
        # a contiguous run as RangeIndex, every container; or a request containing a never-registered label
        r = rng.random()
        if registered_sims and r < 0.55:
            kind = rng.choice(["perm-all", "repeat", "partial", "reversed", "run", "empty"])
            if kind == "perm-all":
                req = rng.sample(registered_sims, len(registered_sims))
            elif kind == "repeat":
                req = [rng.choice(registered_sims) for _ in range(rng.randint(2, 8))]
            elif kind == "partial":
                req = rng.sample(registered_sims, rng.randint(1, len(registered_sims)))
            elif kind == "reversed":
                req = sorted(registered_sims, reverse=True)
            elif kind == "run":
                srt = sorted(registered_sims)
                a = rng.randrange(len(srt))
                req = [srt[a]]
                while a + 1 < len(srt) and srt[a + 1] == req[-1] + 1 and len(req) < 6:
                    a += 1
                    req.append(srt[a])
            else:
                req = []
            batch["get"] = req[:40]
            batch["get_kind"] = rng.choice(["index", "index", "int32", "range", "list", "array", "series"])
        elif r < 0.7:
            unknown = rng.choice(rejected_sims) if rejected_sims and rng.random() < 0.5 else max(registered_sims + rejected_sims + [0]) + 50
            batch["get"] = ([rng.choice(registered_sims)] if registered_sims else []) + [unknown]
            batch["get_kind"] = rng.choice(["index", "list", "array"])
        batches.append(batch)
        b += 1
        if rng.random() < 0.05 and mode == "plain":
            t -= DAY if clock in ("time", "tz") else 1            # legal for the index: an earlier clock time than before
        elif rng.random() < 0.8:
            if clock in ("time", "tz"):
                t += DAY * rng.randint(1, 3)
            elif clock == "float":
                t += rng.choice([0.5, 1.0, 0.25])
            else:
                t += rng.randint(1, 3)
    hist = {"kind": "hist", "mode": mode, "size": size, "cols": types, "tunit": tunit, "batches": batches}
    # column names (LESSONS.md 10; F31): names of a real model, and the name IndexMap gives its own index level
    r = rng.random()
    if r < 0.2:
        names = rng.sample(["age", "sex_id", "entrance_time", "location_id"], ncols)
        names[rng.randrange(ncols)] = "simulant_index"
        hist["names"] = names
    elif r < 0.3:
        hist["names"] = rng.sample(["age", "sex_id", "entrance_time", "location_id", "index", "tracked"], ncols)
    # dtypes (LESSONS.md 3): narrow / unsigned integers and float32 wherever every value of the column fits exactly
    dts = []
    for j, ty in enumerate(types):
        vals = [k[j] for bb in batches for k in bb["keys"]]
        dt = None
        if ty == "int" and vals and rng.random() < 0.35:
            fits = [d for d, (lo, hi_) in SMALL_INT.items() if all(lo <= v <= hi_ for v in vals)]
            dt = rng.choice(fits) if fits else None
        elif ty == "float" and vals and rng.random() < 0.8 and all(_f32_exact(v) for v in vals):
            dt = "float32"
        dts.append(dt)
    if any(dts):
        hist["dtypes"] = dts
    add_repeats(rng, hist)
    return hist


def coercion_hazard(hist, upto):
    """candidate finding (round 5): a numeric key column that holds integers of magnitude >= 2^53 AND arrives as float in some
    batch (up to batch `upto`): `MultiIndex.append` makes the level float64 and distinct integer keys collapse"""
    for j, ty in enumerate(hist["cols"]):
        if ty == "time":
            continue
        bs = [b for b in hist["batches"][: upto + 1] if b["sims"] and not b.get("bad")]
        if any(ic.repr_class(ic.repr_of(hist, b, j)) == "float" for b in bs) and \
                any(ic.repr_class(ic.repr_of(hist, b, j)) == "int" and any(abs(k[j]) >= 2**53 for k in b["keys"]) for b in bs):
            return True
    return False


def oracle_history(hist, obs, label=""):
    """The property on the observed behaviour of one map (no model involved). Expectations come from the case (keys,
    labels, block size) and the property text; positions are the ones `__getitem__` returns (the public observation
    point), `_map` is only cross-checked against them."""
    fails = []
    types, size = hist["cols"], hist["size"]
    if not types:
        return fails
    prev, registered = {}, set()
    for bi, (b, rec) in enumerate(zip(hist["batches"], obs)):
        cks = [ic.canon_key(types, k) for k in b["keys"]]
        dup = len(set(cks)) != len(cks) or bool(set(cks) & registered)
        cur = None
        if isinstance(rec.get("pos"), list):
            cur = {s: p for s, p in rec["pos"]}
            if rec["map"] is not None and sorted(rec["pos"]) != sorted(rec["map"]):
                fails.append({"sig": "getitem-disagrees-with-map", "msg": f"{label}batch {bi}: __getitem__ {rec['pos']}, _map {rec['map']}"})
        elif isinstance(rec.get("pos"), str):
            fails.append({"sig": "getitem-failed-for-registered", "msg": f"{label}batch {bi}: looking up every registered simulant gave {rec['pos']}"})
            cur = None if rec["map"] is None else {s: p for s, p in rec["map"]}
        elif rec["map"] is not None:         # observations made by an instrumented manager carry `_map` only
            cur = {s: p for s, p in rec["map"]}
        if not b["sims"]:
            if rec["outcome"] != "ok" or rec["map"] != rec["before"]:
                fails.append({"sig": "empty-batch-not-noop", "msg": f"{label}batch {bi}: {rec['outcome']}"})
            continue
        if b.get("bad"):
            # a key column of a type the index cannot hash: rejected rather than mapped
            if rec["outcome"] == "ok":
                fails.append({"sig": "unhashable-keys-mapped", "msg": f"{label}batch {bi}: a {b['bad']['dtype']} key column was accepted"})
            elif rec["outcome"] != "err:randomness":
                fails.append({"sig": "unhashable-keys-wrong-error", "msg": f"{label}batch {bi}: {rec['outcome']}"})
            if rec["map"] != rec["before"] or (cur or {}) != prev:
                fails.append({"sig": "rejected-update-changed-map", "msg": f"{label}batch {bi}: map before {rec['before']} after {rec['map']}"})
        elif dup:
            if rec["outcome"] == "ok":
                fails.append({"sig": "duplicate-keys-mapped", "msg": f"{label}batch {bi}: duplicate keys were accepted"})
            elif rec["outcome"] != "err:randomness":
                fails.append({"sig": "duplicate-keys-wrong-error", "msg": f"{label}batch {bi}: {rec['outcome']}"})
            if rec["outcome"] != "ok" and (rec["map"] != rec["before"] or (cur or {}) != prev):
                fails.append({"sig": "rejected-update-changed-map", "msg": f"{label}batch {bi}: map before {rec['before']} after {rec['map']}"})
        elif rec["outcome"] == "err:LoopBudgetExceeded":
            fails.append({"sig": "timeout", "msg": f"{label}batch {bi}: the collision loop ran more than size+8 = {size + 8} passes on a block that is not over-full and whose size is coprime to the salt shift (stopped by the harness)"})
        else:
            if rec["outcome"] != "ok" and "simulant_index" in ic.names_of(hist):
                fails.append({"sig": "key-column-named-simulant_index", "msg": f"{label}batch {bi}: a key column called 'simulant_index' (the name IndexMap gives its own index level) cannot be registered: {rec['outcome']}"})
            elif rec["outcome"] != "ok" and coercion_hazard(hist, bi):
                fails.append({"sig": "large-integer-keys-coerced-to-float", "msg": f"{label}batch {bi}: unique keys rejected ({rec['outcome']}): the column holds integers >= 2^53 and also arrived as float; the index level became float64 and distinct keys collapsed"})
            elif rec["outcome"] != "ok":
                fails.append({"sig": "unique-keys-rejected", "msg": f"{label}batch {bi}: {rec['outcome']}"})
        if rec["outcome"] == "ok" and not b.get("bad"):
            registered |= set(cks)
        if cur is not None:
            pos = list(cur.values())
            if any(not isinstance(p, int) for p in pos):
                fails.append({"sig": "position-missing", "msg": f"{label}batch {bi}: non-integer position in {sorted(cur.items())}"})
            else:
                if len(set(pos)) != len(pos):
                    fails.append({"sig": "not-injective", "msg": f"{label}batch {bi}: two simulants share a position: {sorted(cur.items())}"})
                if any(p < 0 or p >= size for p in pos):
                    fails.append({"sig": "out-of-range", "msg": f"{label}batch {bi}: position outside [0,{size}): {sorted(cur.items())}"})
            moved = {s: (p, cur.get(s)) for s, p in prev.items() if cur.get(s) != p}
            if moved:
                fails.append({"sig": "position-changed", "msg": f"{label}batch {bi}: earlier positions changed (sim: (before, after)) {moved}"})
            if rec["outcome"] == "ok":
                want = sorted(list(prev) + b["sims"])
                if sorted(cur) != want:
                    fails.append({"sig": "simulants-lost-or-invented", "msg": f"{label}batch {bi}: simulants in map {sorted(cur)}, expected {want}"})
                # every simulant still carries its own key
                given = {s: ic.plain_case_key(types, k) for s, k in zip(b["sims"], b["keys"])}
                for s, k in rec["keys"] or []:
                    if s in given and k != given[s]:
                        fails.append({"sig": "large-integer-keys-coerced-to-float" if coercion_hazard(hist, bi) else "key-misattached", "msg": f"{label}batch {bi}: simulant {s} carries key {k}, registered with {given[s]}"})
                        break
            prev = cur
        if b.get("get") is not None:
            known = cur or {}
            if all(s in known for s in b["get"]):
                want = [known[s] for s in b["get"]]          # request order, repeats included
                if rec.get("get") != want:
                    sig = "getitem-keyerror-for-registered" if rec.get("get") == "err:key" else "getitem-wrong-answer"
                    fails.append({"sig": sig, "msg": f"{label}batch {bi}: get[{b.get('get_kind', 'index')}] {b['get']} → {rec.get('get')}, expected {want}"})
            elif isinstance(rec.get("get"), list):
                fails.append({"sig": "getitem-answers-for-unregistered", "msg": f"{label}batch {bi}: get {b['get']} → {rec['get']} although {[s for s in b['get'] if s not in known]} was never registered"})
    return fails


def history_tags(hist, obs):
    t = [f"ncols={len(hist['cols'])}"] + ["type:" + x for x in set(hist["cols"])]
    if hist.get("mode"):
        t.append("mode:" + hist["mode"])
    if hist.get("names"):
        t.append("names:with-simulant_index" if "simulant_index" in hist["names"] else "names:custom")
        if "simulant_index" in hist["names"]:
            t.append(f"simulant_index-column:ncols={len(hist['cols'])}")
    for d in hist.get("dtypes") or []:
        if d:
            t.append("dtype:" + d)
    if not hist["cols"]:
        t.append("no-crn")
    if hist["size"] <= 2:
        t.append(f"size={hist['size']}")
    used, registered = set(), set()
    prev_cl = None
    for bi, (b, rec) in enumerate(zip(hist["batches"], obs)):
        t.append("update:" + rec["outcome"])
        cks = [ic.canon_key(hist["cols"], k) for k in b["keys"]] if hist["cols"] else []
        if "repeat_of" in b:
            t.append("repeat:batch-verbatim" + ("-other-representation" if b.get("repr") != hist["batches"][b["repeat_of"]].get("repr") else ""))
        if "get_repeats" in b:
            t.append("repeat:lookup-after-update" + ("(was-KeyError)" if isinstance(rec.get("get"), list) and obs[b["get_repeats"]].get("get") == "err:key" else ""))
        if hist["cols"] and b["sims"] and not b.get("bad"):
            cl = ic.batch_classes(hist, b)
            if bi and prev_cl is not None and cl != prev_cl:
                for a_, b_ in zip(prev_cl, cl):
                    if a_ != b_:
                        t.append(f"representation-change:{a_}->{b_}")
            prev_cl = cl
        if b.get("bad"):
            t.append("unhashable:" + b["bad"]["dtype"])
        elif len(set(cks)) != len(cks):
            t.append("dup:inside-batch")
        if set(cks) & registered and not b.get("bad"):
            t.append("dup:with-registered-key")
        if rec["outcome"] == "ok":
            registered |= set(cks)
        elif rec["before"] is None:
            t.append("rejected-while-map-empty")
        t.append("clock:" + b["t"][0])
        for k, v in (b.get("frame") or {}).items():
            t.append(f"frame:{k}" + (f"={v}" if k == "index_name" else ""))
        if not b["sims"]:
            t.append("empty-batch")
        if len(b["sims"]) == 1:
            t.append("batch-of-one" + ("-after-first" if bi else ""))
        if bi and prev_sims and b["sims"] and min(b["sims"]) < max(prev_sims):
            t.append("labels-interleave")
        prev_sims = (prev_sims if bi else []) + b["sims"]
        if "raw" in rec and rec["outcome"] == "ok":
            final = dict((s, p) for s, p in rec["map"])
            raws = rec["raw"]
            moved = [s for s, r in zip(b["sims"], raws) if final.get(s) != r]
            if any(r in used for r in raws):
                t.append("collision-with-old")
                if len(set(raws)) == len(raws):
                    t.append("collision-with-old-only(no-internal)")
            if len(set(raws)) != len(raws):
                t.append("collision-in-batch")
            if moved:
                t.append("rehashed")
            p_ = rec.get("passes", 0)
            t.append("loop-passes:" + ("0" if p_ == 0 else "1" if p_ == 1 else "2" if p_ == 2 else "3+"))
            # a bystander: its own first hash is free and unshared, but a re-hashed key of the same batch aimed at it
            free = [r for r in raws if raws.count(r) == 1 and r not in used]
            if moved and free and rec.get("passes", 0) >= 1:
                t.append("noncolliding-next-to-rehashed")
            if any(x < 0 for col in rec["ten"] for x in col):
                t.append("negative-ten-digit")
            used = set(final.values())
            if len(final) == hist["size"]:
                t.append("block-exactly-full")
            if any(p == hist["size"] - 1 for p in final.values()):
                t.append("hit:last-slot")
            if any(p == 0 for p in final.values()):
                t.append("hit:slot-0")
        if rec.get("get") is not None:
            t.append("get:" + (rec["get"] if isinstance(rec["get"], str) else "ok"))
            t.append("get-kind:" + b.get("get_kind", "index"))
            if isinstance(rec["get"], list):
                g = b["get"]
                if len(set(g)) != len(g):
                    t.append("get:repeated-labels")
                if g != sorted(g):
                    t.append("get:unsorted")
                if not g:
                    t.append("get:empty")
    return t


# ------------------------------------------------------------------ whole-simulation variant

def gen_sim(rng: random.Random):
    """a small real simulation; the block size max(map_size, 10*population) is kept coprime to ncols*111111 (F11).
    Variants (LESSONS.md 2, 4, 7, 10): who draws (the registering component or another one), draws inside the initializer
    right after registration, registration in two calls per creation, the whole frame (extra columns, other column
    order than key_columns) handed to register_simulants, DateTimeClock or SimpleClock, draws requested for every
    label ever created (an untracked simulant included)."""
    keycols = rng.choice([["k1"], ["k3"], ["k1", "k2"], ["k2", "k3"], ["k3", "k1"], ["k1", "k2", "k3"], ["k2", "k3", "k1"]])
    ncols = len(keycols)
    births, steps = rng.randint(0, 3), rng.randint(1, 5)
    if rng.random() < 0.4:
        # the population rule decides the size; gcd 2 (two key columns) only halves the reachable slots
        pop = rng.choice([p for p in (1, 2, 4, 5, 8, 10, 16) if ic.math.gcd(10 * p, ncols * ic.SPREAD) <= 2])
        map_size = rng.choice([1, 7, 10 * pop])
        while births * steps > 2 * pop:
            steps -= 1
        steps = max(1, steps)
        births = min(births, 2 * pop)
    else:
        pop = rng.randint(1, 8)
        need = max(10 * pop + 1, pop + births * steps + 2)
        map_size = rng.choice(ic.coprime_sizes(ncols, need, need + 60))
    return {"kind": "sim", "keycols": keycols, "pop": pop, "map_size": map_size, "births": births, "steps": steps,
            "seed": rng.randint(0, 9), "clock": rng.choice(["datetime", "datetime", "simple"]),
            "split": rng.random() < 0.35, "whole_frame": rng.random() < 0.5, "draw_at_creation": rng.random() < 0.5,
            "drawer": rng.random() < 0.5, "untrack": rng.random() < 0.4, "zero_births_call": births == 0,
            "f31": "k3" in keycols and rng.random() < 0.5,
            "hetero": ({"cohort": rng.choice(["frac", "frac", "int64", "float64", "int32"]), "imm": rng.choice(["int64", "int64", "float64", "int8"]),
                        "cohort_time_ns": rng.random() < 0.5} if "k1" in keycols and rng.random() < 0.5 else None)}


def run_sim(case):
    """A real simulation with CRN key columns and births; the manager's map after setup and every step."""
    impl.load()
    import pandas as pd
    from vivarium import Component
    from vivarium.framework.engine import SimulationContext

    # F31: the state table itself may have a column called 'simulant_index' that is a CRN key (k3 under another name)
    alias = {"k3": "simulant_index"} if case.get("f31") else {}
    keycols = [alias.get(c, c) for c in case["keycols"]]
    created = []
    draws = {}

    def record(streams, index, step):
        for i, s in enumerate(streams):
            dr = s.get_draw(index)
            for sim in index:
                draws.setdefault(int(sim), []).append([step, i, float(dr[sim])])

    class Pop(Component):
        @property
        def name(self):
            return "pop"

        @property
        def columns_created(self):
            return ["k1", "k2", alias.get("k3", "k3")]

        @property
        def columns_required(self):
            return ["tracked"]

        def setup(self, b):
            self.streams = [b.randomness.get_stream(f"d{i}") for i in range(3)]
            self.at_creation = [b.randomness.get_stream(f"c{i}") for i in range(3)]
            self.reg = b.randomness.register_simulants
            self.creator = b.population.get_simulant_creator()
            self.n = 0
            self.step_no = 0

        def on_initialize_simulants(self, d):
            n = len(d.index)
            if n == 0:
                # zero-count births (LESSONS.md 6): registering an empty frame is legal and must change nothing
                self.reg(pd.DataFrame({c: pd.Series([], dtype=float) for c in [alias.get("k3", "k3"), "k1", "k2"]}, index=d.index)[keycols])
                return
            k1 = [float(self.n + i) / 4 for i in range(n)]
            k3 = [(self.n + i) * 7 % 1000 for i in range(n)]
            k2 = d.creation_time
            het = case.get("hetero")
            if het:
                # LESSONS.md 13: the cohort and the later arrivals carry the key columns in different representations
                # (fractional float ages, then immigrants with whole ages as integers – or the other way round; nanosecond
                # entrance times for the cohort, pandas' default unit afterwards)
                if self.n == 0:
                    k1 = [i + 0.25 for i in range(n)] if het["cohort"] == "frac" else pd.Series(range(n), dtype=het["cohort"]).to_numpy()
                    if het.get("cohort_time_ns") and case.get("clock") != "simple":
                        k2 = pd.Series(k2).astype("datetime64[ns]").to_numpy()
                else:
                    k1 = pd.Series([100 + self.n + i for i in range(n)], dtype=het["imm"]).to_numpy()
            self.n += n
            # the frame has more columns than the keys and another column order than key_columns
            df = pd.DataFrame({alias.get("k3", "k3"): k3, "junk": "x", "k1": k1, "k2": k2}, index=d.index)
            parts = [df.iloc[: n // 2], df.iloc[n // 2:]] if case.get("split") and n > 1 else [df]
            for part in parts:
                self.reg(part if case.get("whole_frame") else part[keycols])
            self.population_view.update(df[["k1", "k2", alias.get("k3", "k3")]])
            created.extend(int(x) for x in d.index)
            if case.get("draw_at_creation"):
                record(self.at_creation, d.index, -1 - self.step_no)      # first use: inside the initializer

        def on_time_step(self, e):
            self.step_no += 1
            if case.get("untrack") and self.step_no == 2:
                self.population_view.update(pd.Series(False, index=pd.Index([created[0]]), name="tracked"))
            if case["births"] or case.get("zero_births_call"):
                self.creator(case["births"])
            if not case.get("drawer"):
                # every label ever created, newest first: untracked simulants included, not in table order
                record(self.streams, pd.Index(created[::-1]), self.step_no)

    class Drawer(Component):
        """another component owns the decision-point streams and draws through them"""

        @property
        def name(self):
            return "drawer"

        def setup(self, b):
            self.streams = [b.randomness.get_stream(f"d{i}") for i in range(3)]
            self.step_no = 0

        def on_time_step_cleanup(self, e):
            self.step_no += 1
            record(self.streams, pd.Index(created[::-1]), self.step_no)

    class PopNoStreams(Pop):
        def setup(self, b):
            self.streams = []
            self.at_creation = [b.randomness.get_stream(f"c{i}") for i in range(3)]
            self.reg = b.randomness.register_simulants
            self.creator = b.population.get_simulant_creator()
            self.n = 0
            self.step_no = 0

    SimulationContext._clear_context_cache()
    comps = [PopNoStreams(), Drawer()] if case.get("drawer") else [Pop()]
    conf = {"population": {"population_size": case["pop"]},
            "randomness": {"key_columns": keycols, "map_size": case["map_size"], "random_seed": case["seed"]}}
    kw = {}
    if case.get("clock") == "simple":
        conf["time"] = {"start": 0, "end": case["steps"], "step_size": 1}
        kw["plugin_configuration"] = {"required": {"clock": {"controller": "vivarium.framework.time.SimpleClock",
                                                             "builder_interface": "vivarium.framework.time.TimeInterface"}}}
    else:
        conf["time"] = {"start": {"year": 2020, "month": 1, "day": 1}, "end": {"year": 2020, "month": 1, "day": 1 + case["steps"]},
                        "step_size": 1}
    sim = SimulationContext(components=comps, configuration=conf, logging_verbosity=0, **kw)
    sim.setup()
    im = sim._randomness._key_mapping
    out = {"size": len(im), "maps": [], "draws": {}}
    if len(im) < case["pop"] + case["births"] * case["steps"]:
        # fewer slots than simulants: the collision loop could not terminate; report the size, do not run
        out["skipped"] = "block smaller than the planned population"
        return out

    def positions():
        """through `__getitem__`, newest label first"""
        if not created:
            return []
        req = created[::-1]
        return sorted([int(s_), ic._as_pos(p_)] for s_, p_ in zip(req, list(im[pd.Index(req)])))

    try:
        sim.initialize_simulants()
        out["maps"].append(positions())
        for _ in range(case["steps"]):
            sim.step()
            out["maps"].append(positions())
    except Exception as e:  # noqa: BLE001 - a crash of the simulation is an observation
        out["crash"] = ic.outcome_of(e)
    out["created"] = len(created)
    out["draws"] = {str(k): v for k, v in draws.items()}
    return out


def oracle_sim(case, obs):
    fails = []
    want = max(case["map_size"], 10 * case["pop"])
    if obs["size"] != want:
        fails.append({"sig": "block-size-rule", "msg": f"block size {obs['size']}, expected max(map_size, 10*population) = {want}"})
    if obs.get("crash"):
        fails.append({"sig": "simulation-crashed", "msg": f"the simulation (unique keys, block large enough) stopped with {obs['crash']}"})
    if obs.get("skipped"):
        return fails
    prev = {}
    for i, m in enumerate(obs["maps"]):
        cur = dict((s, p) for s, p in (m or []))
        n_expected = case["pop"] + case["births"] * i          # from the configuration, not from the run
        if len(cur) != n_expected and not obs.get("crash"):
            fails.append({"sig": "simulants-lost-or-invented", "msg": f"sim step {i}: {len(cur)} simulants have a position, {n_expected} were created"})
        pos = list(cur.values())
        if any(not isinstance(p, int) for p in pos):
            fails.append({"sig": "position-missing", "msg": f"sim step {i}: {m}"})
            break
        if len(set(pos)) != len(pos):
            fails.append({"sig": "not-injective", "msg": f"sim step {i}: {m}"})
        if any(p < 0 or p >= want for p in pos):
            fails.append({"sig": "out-of-range", "msg": f"sim step {i}: size {want}: {m}"})
        moved = {s: (p, cur.get(s)) for s, p in prev.items() if cur.get(s) != p}
        if moved:
            fails.append({"sig": "position-changed", "msg": f"sim step {i}: {moved}"})
        prev = cur
    # two simulants never draw the same numbers at the three decision points of one step
    seen = {}
    for s, tr in obs["draws"].items():
        by_step = {}
        for step, i, v in tr:
            by_step.setdefault(step, {})[i] = v
        for step, d in by_step.items():
            if len(d) == 3:
                k = (step, d[0], d[1], d[2])
                if k in seen and seen[k] != s:
                    fails.append({"sig": "two-simulants-same-draws", "msg": f"simulants {seen[k]} and {s} drew {k[1:]} at step {step}"})
                    return fails
                seen[k] = s
    if not obs.get("crash") and case["steps"] >= 1 and not obs["draws"]:
        fails.append({"sig": "harness-no-draws", "msg": "no draws were recorded"})
    return fails


def lessons_boundary():
    """edge cases added by the audit against notes/LESSONS.md (items 3, 5, 6, 9, 10)"""
    t = ["time", T0]
    out = []
    # 6: block sizes 2 and 5 filled exactly (the last key has to walk to the only free slot), one simulant at a time at the end
    out.append({"kind": "hist", "mode": "boundary", "size": 2, "cols": ["int"], "tunit": "ns",
                "batches": [{"t": t, "sims": [1, 0], "keys": [[1], [2]], "get": [0, 1, 0], "get_kind": "list"}]})
    out.append({"kind": "hist", "mode": "boundary", "size": 2, "cols": ["float"], "tunit": "ns",
                "batches": [{"t": ["int", 0], "sims": [0], "keys": [[0.5]], "get": [0]},
                            {"t": ["int", 1], "sims": [1], "keys": [[1.5]], "get": [1, 0], "get_kind": "array"}]})
    out.append({"kind": "hist", "mode": "boundary", "size": 5, "cols": ["int"], "tunit": "ns",
                "batches": [{"t": t, "sims": [4, 2, 0], "keys": [[0], [1], [2]], "get": None},
                            {"t": t, "sims": [3], "keys": [[3]], "get": [3, 0, 2, 4], "get_kind": "series"},
                            {"t": ["time", T0 + DAY], "sims": [1], "keys": [[4]], "get": [0, 1, 2, 3, 4], "get_kind": "range"}]})
    # 9 (seeded C03-1): a dense first batch, then single newcomers without internal collision whose first hash is taken
    size, t0, t1 = 17, 0, 1
    first, seen = [], set()
    v = 0
    while len(first) < 11:
        h = ic.ref_hash_int([v], t0, size)
        if h not in seen:
            seen.add(h)
            first.append(v)
        v += 1
    late = [w for w in range(100, 400) if ic.ref_hash_int([w], t1, size) in seen][:3]
    out.append({"kind": "hist", "mode": "boundary", "size": size, "cols": ["int"], "tunit": "ns",
                "batches": [{"t": ["int", t0], "sims": list(range(11)), "keys": [[x] for x in first], "get": None}]
                + [{"t": ["int", t1], "sims": [20 - i], "keys": [[w]], "get": list(range(11)) + [20 - i], "get_kind": "index"}
                   for i, w in enumerate(late)]})
    # 9 (seeded C04-1): four keys sharing every hash, and bystanders sitting exactly where the re-hashes land
    size, tt = 23, 4
    group = [w for w in range(0, 3000) if ic.ref_hash_int([w], tt, size) == 7][:4]
    by = []
    for lvl in (1, 2, 3):
        q = ic.ref_hash_int([group[0]], lvl, size)
        by += [w for w in range(0, 3000) if ic.ref_hash_int([w], tt, size) == q and w not in group][:1]
    keys = [[group[0]], [by[0]], [group[1]], [group[2]], [by[1]], [group[3]]] + [[w] for w in by[2:]]
    out.append({"kind": "hist", "mode": "boundary", "size": size, "cols": ["int"], "tunit": "ns",
                "batches": [{"t": ["int", tt], "sims": list(range(len(keys)))[::-1], "keys": keys, "get": list(range(len(keys))), "get_kind": "int32"}]})
    # 3, 2: narrow / unsigned / float32 dtypes, column names of a real model, frame columns in another order with extras,
    # named index, RangeIndex, every clock kind (a float clock only contributes its fractional part: 0.0 and 1.0 salt alike)
    out.append({"kind": "hist", "mode": "boundary", "size": 29, "cols": ["int", "float", "time"], "tunit": "us",
                "names": ["age_group", "entrance_draw", "entrance_time"], "dtypes": ["uint8", "float32", None],
                "batches": [{"t": ["float", 0.0], "sims": [0, 1, 2], "keys": [[200, 0.5, T0], [0, 1.5, T0], [7, 0.25, T0 - DAY]],
                             "frame": {"order": [2, 0, 1], "extra": True, "index_name": "simulant_index", "range": True}, "get": [2, 1, 0]},
                            {"t": ["float", 1.0], "sims": [5, 3], "keys": [[255, 0.5, T0], [1, 1.5, T0]],
                             "frame": {"order": [1, 2, 0], "index_name": "foo"}, "get": [5, 3, 0], "get_kind": "list"},
                            {"t": ["tz", T0 + DAY], "sims": [4], "keys": [[3, 3.75, T0 + DAY]], "frame": {"extra": True}, "get": []},
                            {"t": ["npint", 3], "sims": [6], "keys": [[3, 3.75, T0]], "get": [6, 4], "get_kind": "series"}]})
    # 10 (F31): key columns named like IndexMap's own index level, alone / first / middle / last of 1-3 columns; the frame's
    # index carries the same name; collisions, a later batch, a duplicate and lookups as for any other schema
    for names, cols in ((["simulant_index"], ["int"]), (["simulant_index", "b"], ["float", "int"]),
                        (["a", "simulant_index", "c"], ["int", "time", "float"]), (["a", "b", "simulant_index"], ["int", "int", "int"])):
        def key(i, cols=cols):
            return [{"int": i, "float": i / 4, "time": T0 + i * DAY}[c] for c in cols]
        out.append({"kind": "hist", "mode": "boundary", "size": 5, "cols": cols, "names": names, "tunit": "ns",
                    "batches": [{"t": ["int", 0], "sims": [10, 11, 12], "keys": [key(5), key(6), key(7)],
                                 "frame": {"index_name": "simulant_index", "extra": True}, "get": [11, 12, 10, 11], "get_kind": "list"},
                                {"t": ["int", 0], "sims": [13], "keys": [key(6)], "get": [13]},
                                {"t": ["int", 1], "sims": [3], "keys": [key(8)], "frame": {"order": list(range(len(cols)))[::-1]},
                                 "get": [3, 12, 10], "get_kind": "series"}]})
    # 13: the representation of a column changes along the history – integers after floats after narrower integers (with
    # collisions in a block of 17, a duplicate that is only a duplicate BY VALUE: 3 after 3.0, 30.0 after 30), datetimes in
    # ns, then us, then s, then ns again; 12: the first batch registered again verbatim, and again as other dtypes; the same
    # lookup before and after the label exists
    out.append({"kind": "hist", "mode": "boundary", "size": 17, "cols": ["float", "time"], "tunit": "ns",
                "batches": [{"t": ["int", 0], "sims": [0, 1, 2, 3], "keys": [[20.5, T0], [31.25, T0], [47.75, T0 + DAY], [3.0, T0]], "get": [3, 10]},
                            {"t": ["int", 1], "sims": list(range(10, 19)), "keys": [[float(v), T0 + DAY] for v in (30, 40, 50, 60, 70, 80, 90, 100, 110)],
                             "repr": ["int64", "us"], "get": [3, 10], "get_repeats": 0},
                            {"t": ["int", 2], "sims": [50], "keys": [[3.0, T0]], "repr": ["int32", "s"], "get": None},
                            {"t": ["int", 2], "sims": [51, 52], "keys": [[7.0, T0], [30.0, T0 + DAY]], "repr": ["float32", "ns"], "get": None},
                            {"t": ["int", 2], "sims": [0, 1, 2, 3], "keys": [[20.5, T0], [31.25, T0], [47.75, T0 + DAY], [3.0, T0]], "repeat_of": 0, "get": None},
                            {"t": ["int", 3], "sims": [0, 1, 2, 3], "keys": [[20.5, T0], [31.25, T0], [47.75, T0 + DAY], [3.0, T0]], "repeat_of": 0,
                             "repr": ["float32", "us"], "get": None},
                            {"t": ["int", 3], "sims": [53, 54], "keys": [[7.0, T0], [8.5, T0 + DAY]], "repr": [None, "s"], "get": [54, 53, 0, 18]},
                            {"t": ["int", 4], "sims": [60, 61], "keys": [[9.0, T0], [10.0, T0]], "repr": ["uint8", "ns"], "get": [54, 53, 0, 18], "get_repeats": 6}]})
    out.append({"kind": "hist", "mode": "boundary", "size": 19, "cols": ["int"], "tunit": "ns",
                "batches": [{"t": t, "sims": [0, 1], "keys": [[5], [90001]], "repr": ["int8" if False else "int32"], "get": None},
                            {"t": t, "sims": [2, 3], "keys": [[6], [-7]], "repr": ["float64"], "get": None},
                            {"t": t, "sims": [4], "keys": [[5]], "repr": ["float32"], "get": [4]},
                            {"t": t, "sims": [5, 6], "keys": [[8], [9]], "repr": ["uint8"], "get": [6, 5, 3, 2, 1, 0]}]})
    # 3, 10: a key column of a type the index cannot hash – as the very first registration and after a good one
    out.append({"kind": "hist", "mode": "boundary", "size": 19, "cols": ["int", "float"], "tunit": "ns",
                "batches": [{"t": t, "sims": [0, 1], "keys": [[1, 0.5], [2, 0.5]], "bad": {"col": 1, "dtype": "str"}, "get": [0]},
                            {"t": t, "sims": [0, 1], "keys": [[1, 0.5], [2, 0.5]], "get": [1, 0]},
                            {"t": t, "sims": [2, 3], "keys": [[3, 0.5], [4, 0.5]], "bad": {"col": 0, "dtype": "bool"}, "get": [0, 1]},
                            {"t": t, "sims": [4, 5], "keys": [[3, 0.5], [4, 0.5]], "bad": {"col": 0, "dtype": "category"}, "get": [4]},
                            {"t": t, "sims": [2, 3], "keys": [[3, 0.5], [4, 0.5]], "get": [3, 2, 1, 0]}]})
    return out


class C03(Prop):
    id = "C03"
    lean_modules = ["VivModel.Props.C03", "VivModel.Props.C03Src"]
    build_targets = ["VivModel.Model.IndexMap", "VivModel.Model.Proto"]
    driver = "C03"
    technique = ("Lean 4 proof (invariant of IndexMap.update for every hash function, block size, map and batch; lifted to every "
                 "history of batches by induction; hash range from the concrete int64 arithmetic) + differential correspondence "
                 "with the real IndexMap (exact positions after every update, hash of individual keys)")
    partial = ("termination of the collision loop is a hypothesis of every theorem (`update … = .ok m'`): the real loop has no "
               "bound and does not terminate when gcd(size, ncols*111111) cancels the salt shift or the block is full (F11, an "
               "observation outside the property's statement); float / datetime → ten-digit-integer conversion "
               "(_shift, _clip_to_seconds) is a parameter of the model, explored through the real helper, not proved")
    trusted_extra = ["modelled pandas primitives: Series.drop_duplicates (keep first), Index.difference (unique, sorted), "
                     "Series.reindex, sort_index, MultiIndex .loc on the first level; numpy int64 wrap-around and floor modulo"]
    n_quick = 150
    n_thorough = 2000
    case_timeout = 15
    workers = 4
    rule = ("cases = registration histories on a bare IndexMap (and small real simulations); distinct by case hash; "
            "non-trivial = at least one key was moved by collision resolution or a duplicate batch was rejected")

    # ------------------------------------------------------------------ generation
    def boundary(self):
        t = ["time", T0]
        out = [
            # empty frame, no CRN, lookup in an empty map
            {"kind": "hist", "size": 17, "cols": ["int"], "tunit": "ns",
             "batches": [{"t": t, "sims": [], "keys": [], "get": [0]},
                         {"t": t, "sims": [0, 1], "keys": [[1], [2]], "get": [1, 0, 1]},
                         {"t": t, "sims": [], "keys": [], "get": []}]},
            {"kind": "hist", "size": 10, "cols": [], "tunit": "ns",
             "batches": [{"t": t, "sims": [4, 2], "keys": [[], []], "get": [2, 9, 4]}]},
            # duplicate inside the very first batch (map stays None), then a good batch, then a duplicate of an old key
            {"kind": "hist", "size": 23, "cols": ["int", "float"], "tunit": "us",
             "batches": [{"t": ["int", 0], "sims": [0, 1], "keys": [[1, 0.5], [1, 0.5]], "get": [0]},
                         {"t": ["int", 0], "sims": [0, 1], "keys": [[1, 0.5], [1, 1.5]], "get": [0, 1]},
                         {"t": ["int", 1], "sims": [2, 3], "keys": [[2, 0.5], [1, 1.5]], "get": [2]},
                         {"t": ["int", 1], "sims": [2, 3], "keys": [[2, 0.5], [3, 1.5]], "get": [3, 2, 1, 0]}]},
            # a nearly full block: every slot but one is taken, long collision chains
            {"kind": "hist", "size": 5, "cols": ["int"], "tunit": "ns",
             "batches": [{"t": t, "sims": [0, 1], "keys": [[0], [1]], "get": None},
                         {"t": t, "sims": [2, 3], "keys": [[2], [3]], "get": [0, 1, 2, 3]}]},
            {"kind": "hist", "size": 17, "cols": ["float"], "tunit": "ns",   # floats equal modulo 1 share every hash… until the key differs
             "batches": [{"t": t, "sims": list(range(6)), "keys": [[0.5], [1.5], [2.5], [0.25], [7.25], [3.0]], "get": list(range(6))}]},
            {"kind": "hist", "size": 1, "cols": ["int"], "tunit": "ns",
             "batches": [{"t": t, "sims": [0], "keys": [[5]], "get": [0]}]},
            # same keys at a later clock time in another map size; negative and huge integers
            {"kind": "hist", "size": 19, "cols": ["int", "time"], "tunit": "s",
             "batches": [{"t": t, "sims": [3, 1, 2], "keys": [[-1, T0], [2**62, T0 + DAY], [90001, -DAY - 10**9]], "get": [1, 2, 3]},
                         {"t": ["time", T0 + DAY], "sims": [0], "keys": [[-1, T0 + DAY]], "get": [0, 3]}]},
        ]
        out += lessons_boundary()
        out.append({"kind": "sim", "keycols": ["k1"], "pop": 6, "map_size": 61, "births": 3, "steps": 4, "seed": 3})
        out.append({"kind": "sim", "keycols": ["k3", "k1"], "pop": 4, "map_size": 41, "births": 2, "steps": 3, "seed": 2, "clock": "simple",
                    "split": True, "whole_frame": True, "draw_at_creation": True, "drawer": True, "untrack": True})
        out.append({"kind": "sim", "keycols": ["k2", "k1"], "pop": 5, "map_size": 53, "births": 3, "steps": 3, "seed": 8,
                    "hetero": {"cohort": "frac", "imm": "int64", "cohort_time_ns": True}, "draw_at_creation": True})
        out.append({"kind": "sim", "keycols": ["k1"], "pop": 4, "map_size": 41, "births": 2, "steps": 2, "seed": 9, "clock": "simple",
                    "hetero": {"cohort": "int32", "imm": "float64"}, "drawer": True})
        out.append({"kind": "sim", "keycols": ["k3"], "pop": 5, "map_size": 53, "births": 2, "steps": 3, "seed": 6, "f31": True,
                    "draw_at_creation": True, "whole_frame": True})
        out.append({"kind": "sim", "keycols": ["k1", "k3", "k2"], "pop": 3, "map_size": 47, "births": 1, "steps": 2, "seed": 7, "f31": True,
                    "split": True, "drawer": True, "clock": "simple"})
        out.append({"kind": "sim", "keycols": ["k2", "k1"], "pop": 1, "map_size": 1, "births": 0, "steps": 2, "seed": 4,
                    "whole_frame": True, "draw_at_creation": True, "untrack": False, "zero_births_call": True})
        out.append({"kind": "sim", "keycols": ["k1", "k2"], "pop": 10, "map_size": 5, "births": 1, "steps": 3, "seed": 0})
        out.append({"kind": "sim", "keycols": ["k3", "k2", "k1"], "pop": 3, "map_size": 43, "births": 2, "steps": 5, "seed": 1})
        return out

    def generate(self, rng, i, tier):
        if i % 25 == 24:
            return gen_sim(rng)
        return gen_history(rng, tier, dup_rate=rng.choice([0.0, 0.15, 0.35]))

    def shrink(self, case):
        if case["kind"] != "hist":
            for k in ("steps", "births", "pop"):
                if case[k] > (1 if k != "births" else 0):
                    yield dict(case, **{k: case[k] - 1})
            return
        bs = case["batches"]
        for i in range(len(bs) - 1, -1, -1):
            yield dict(case, batches=bs[:i] + bs[i + 1:])
        for i, b in enumerate(bs):
            for j in range(len(b["sims"]) - 1, -1, -1):
                nb = dict(b, sims=b["sims"][:j] + b["sims"][j + 1:], keys=b["keys"][:j] + b["keys"][j + 1:])
                yield dict(case, batches=bs[:i] + [nb] + bs[i + 1:])
            if b.get("get"):
                yield dict(case, batches=bs[:i] + [dict(b, get=None)] + bs[i + 1:])

    # ------------------------------------------------------------------ implementation / model / oracle
    def run_impl(self, case):
        ic.repeat_alarm(self.case_timeout)
        if case["kind"] == "sim":
            return run_sim(case)
        return {"batches": ic.run_history(case)}

    def model_lines(self, case, obs):
        if case["kind"] == "sim":
            return []
        return ic.history_lines(case, obs["batches"])[0]

    def compare(self, case, obs, replies):
        if case["kind"] == "sim":
            return []
        _, plan = ic.history_lines(case, obs["batches"])
        return ic.compare_history(case, obs["batches"], replies, plan)

    def oracle(self, case, obs):
        if case["kind"] == "sim":
            return oracle_sim(case, obs)
        return oracle_history(case, obs["batches"])

    def nontrivial(self, case, obs):
        if case["kind"] == "sim":
            return bool(obs["maps"]) and len(obs["maps"][-1] or []) > 1
        tg = history_tags(case, obs["batches"])
        return "rehashed" in tg or "update:err:randomness" in tg

    def tags(self, case, obs):
        if case["kind"] == "sim":
            return (["sim", f"sim-ncols={len(case['keycols'])}", "sim-clock:" + case.get("clock", "datetime")]
                    + (["sim-size-from-population"] if 10 * case["pop"] > case["map_size"] else ["sim-size-from-config"])
                    + ["sim:" + k for k in ("split", "whole_frame", "draw_at_creation", "drawer", "untrack", "f31") if case.get(k)]
                    + ([f"sim:hetero cohort={case['hetero']['cohort']} imm={case['hetero']['imm']}" + ("+ns" if case["hetero"].get("cohort_time_ns") else "")] if case.get("hetero") else [])
                    + (["sim:births=0"] if not case["births"] else []) + (["sim:creator(0)"] if case.get("zero_births_call") and not case["births"] else []) + (["sim:pop=1"] if case["pop"] == 1 else []))
        return ["hist"] + history_tags(case, obs["batches"])

    def sample_view(self, case, obs):
        if case["kind"] == "sim":
            return {"case": case, "size": obs["size"], "final_map": obs["maps"][-1] if obs["maps"] else None}
        return {"case": {k: v for k, v in case.items() if k != "batches"},
                "batches": [{"t": b["t"], "sims": b["sims"][:8], "keys": b["keys"][:8], "outcome": r["outcome"],
                             "first_hash": r.get("raw", [])[:8], "map_after": (r["map"] or [])[:12]}
                            for b, r in list(zip(case["batches"], obs["batches"]))[:3]]}


PROP = C03()
