"""C04 — same identity, same randomness across scenarios.

Tie: correspondence, in pairs. Two real `IndexMap`s of the same block size are fed two registration
histories that share keys registered at the same clock time but differ in everything the property says must
not matter: simulant labels (relabelled, non-monotonically), the order of rows inside a batch, which other
simulants exist (sub- and super-set batches, extra batches in between), earlier history. Both histories also go
to Driver/C03.lean (the model of Props/C04.lean; positions after every update and hashes are compared exactly).
A second case kind runs two whole simulations with different birth schedules, index labels and within-batch
orders; the `update` calls the RandomnessManager makes are recorded (instance attribute, source untouched) and
replayed through the model, and the draws each key receives at three decision points are compared.

Oracle (the property, no model involved): every key registered in both runs at the same clock time whose first
hashed position is unique in both runs – not a position of the map it is added to, not the first hash of
another key of its batch – has the same position in both (and, in simulations, the same draws at every step).
"""
from __future__ import annotations

import random

from .. import imap_common as ic
from .. import impl
from ..runner import Prop
from . import c03

T0, DAY = c03.T0, c03.DAY


# ------------------------------------------------------------------ derive run B from run A

def derive(rng: random.Random, A: dict, mode: str):
    """history B sharing keys (and their clock times) with history A"""
    types = A["cols"]
    spread = 40
    used = {ic.canon_key(types, k) for b in A["batches"] for k in b["keys"]}
    label = {}
    fresh_sim = [10_000]            # source labels of simulants that exist in B only (never reused)

    def new_sim():
        fresh_sim[0] += 1
        return fresh_sim[0]

    def relabel(s):
        if s not in label:
            label[s] = (s * 7 + 3) if mode == "relabel-affine" else None
            if label[s] is None:
                while True:
                    c = rng.randint(0, 5000)
                    if c not in label.values():
                        label[s] = c
                        break
        return label[s]

    # integers >= 2^53 must not share a column with float batches (the index level would become float64 and distinct keys
    # collapse: candidate finding of round 5, reported, not generated)
    big_ints = any(ty == "int" and abs(k[j]) >= 2**53 for j, ty in enumerate(types) for b in A["batches"] for k in b["keys"])
    hetero = (any(b.get("repr") for b in A["batches"]) or mode == "history") and not big_ints

    def fresh_key(classes=None):
        """a key nobody has; its values fit the representation classes of the batch it joins"""
        gt = []
        for j, ty in enumerate(types):
            if ty == "int":
                gt.append("int-small" if hetero else "int")
            elif ty == "float" and classes and classes[j] == "int":
                gt.append("float-whole")
            else:
                gt.append(ty)
        for _ in range(200):
            k = [c03.gen_value(rng, g, spread * 3) for g in gt]
            ck = ic.canon_key(types, k)
            if ck not in used:
                used.add(ck)
                return k
        return None

    def same_class_repr(classes, keys):
        """a representation for B's batch in the classes A's batch arrived in (the width may differ: it must not matter)"""
        out = []
        for j, cl in enumerate(classes):
            vals = [k[j] for k in keys]
            if cl == "int":
                fits = [d for d, (lo, hi_) in c03.SMALL_INT.items() if all(lo <= v <= hi_ for v in vals)]
                out.append(rng.choice(["int64", "int64"] + fits))
            elif cl == "float":
                out.append("float32" if all(float(v) == v and c03._f32_exact(float(v)) for v in vals) and rng.random() < 0.3 else "float64")
            else:
                out.append(cl[2:])
        return out

    def extra_batch(tt, n):
        """simulants that exist in B only, registered earlier, in a representation of their own (LESSONS.md 13)"""
        k = [x for x in (fresh_key() for _ in range(n)) if x is not None]
        if not k:
            return None
        nb = {"t": tt, "sims": [relabel(new_sim()) for _ in k], "keys": k, "get": None}
        if hetero:
            nb["repr"] = c03.choose_repr(rng, types, k, A.get("tunit", "ns"))
        return nb

    batches = []
    if mode == "history" and A["batches"]:
        t0 = A["batches"][0]["t"]
        eb = extra_batch([t0[0], t0[1] - (DAY if t0[0] in ("time", "tz") else 1)], rng.randint(1, 4))
        if eb:
            batches.append(eb)
    for bi, b in enumerate(A["batches"]):
        if mode == "history" and bi == 0 and len(A["batches"]) > 1 and rng.random() < 0.5:
            continue                                    # A's first registration never happened in B
        classes = ic.batch_classes(A, b)
        rows = list(zip(b["sims"], b["keys"]))
        if mode in ("subset", "mixed") and len(rows) > 1:
            keep = [r for r in rows if rng.random() < 0.7] or rows[:1]
            rows = keep
        if mode in ("superset", "mixed"):
            for _ in range(rng.randint(1, 4)):
                k = fresh_key(classes)
                if k is not None:
                    rows.insert(rng.randint(0, len(rows)), (new_sim(), k))
        if mode in ("permute", "mixed", "relabel", "superset"):
            rng.shuffle(rows)
        if mode in ("relabel", "relabel-affine", "mixed", "superset", "subset", "history"):
            rows = [(relabel(s), k) for s, k in rows]
        if mode == "mixed" and rng.random() < 0.3:
            # an extra batch at another clock time in between (other simulants exist earlier)
            eb = extra_batch([b["t"][0], b["t"][1] - (DAY // 2 if b["t"][0] in ("time", "tz") else 0)], rng.randint(1, 3))
            if eb:
                batches.append(eb)
        if mode == "mixed" and rng.random() < 0.15:
            continue                                    # this batch does not exist in B at all
        nb = {"t": list(b["t"]), "sims": [s for s, _ in rows], "keys": [k for _, k in rows], "get": None}
        if b.get("bad"):
            nb["bad"] = dict(b["bad"])
        if rows and (b.get("repr") or A.get("dtypes") or hetero):
            nb["repr"] = same_class_repr(classes, nb["keys"])      # the same classes as in A: only then is the hash the same
        # the frame arrives differently in B (LESSONS.md 2, 3): other column order, extra columns, index kind / name
        fr = {}
        if len(types) > 1 and rng.random() < 0.4:
            order = list(range(len(types)))
            rng.shuffle(order)
            fr["order"] = order
        if rng.random() < 0.3:
            fr["extra"] = True
        if rng.random() < 0.3:
            fr["index_name"] = rng.choice(["foo", "simulant_index"])
        if fr:
            nb["frame"] = fr
        batches.append(nb)
    B = dict(A, batches=batches)
    r = rng.random()
    if r < 0.25:
        B.pop("names", None)                                   # B under the default names
    elif r < 0.5:
        names = [f"col_{i}" for i in range(len(types))]
        names[rng.randrange(len(types))] = "simulant_index"       # F31: the key column named like IndexMap's own level, in B (too)
        B["names"] = names
    B.pop("dtypes", None)              # every batch of B says itself how it arrives (same classes as A's, any width)
    return B


def total_keys(h):
    return sum(len(b["keys"]) for b in h["batches"])


# ------------------------------------------------------------------ a third run: the key all alone

def solo_candidates(histA, histB, limit=3):
    """shared keys registered at the same clock time in both histories (decided from the case alone), at most `limit`"""
    types = histA["cols"]
    where = {}
    for h, side in ((histA, "a"), (histB, "b")):
        for b in h["batches"]:
            if b.get("bad"):
                continue
            for k in b["keys"]:
                where.setdefault(ic.canon_key(types, k), {}).setdefault(side, []).append(
                    (tuple(b["t"]), k, [ic.repr_of(h, b, j) for j in range(len(types))], ic.batch_classes(h, b)))
    out = []
    for ck in sorted(where, key=str):
        w = where[ck]
        if len(w.get("a", [])) == 1 and len(w.get("b", [])) == 1 and w["a"][0][0] == w["b"][0][0] and w["a"][0][3] == w["b"][0][3]:
            out.append((list(w["a"][0][0]), w["a"][0][1], w["a"][0][2]))
    step = max(1, len(out) // limit)
    return out[::step][:limit]


def run_solo(histA, histB):
    """Register each candidate key ALONE, in a fresh real IndexMap of the same size, at the same clock time, under an
    unrelated label: nobody is registered with or before it, so the exception in the property cannot apply and the
    position it gets is its initial hashed position by definition – obtained through the public `update` /
    `__getitem__`, not through the private `_hash` the other clauses classify with (LESSONS.md 1)."""
    impl.load()
    import pandas as pd
    from vivarium.framework.randomness.index_map import IndexMap
    out = []
    names = ic.names_of(histA)
    for n, (t, k, reprs) in enumerate(solo_candidates(histA, histB)):
        im = IndexMap(list(names), size=histA["size"])
        df = ic.mk_frame(histA["cols"], histA.get("tunit", "ns"), [777 + n], [k], names=names, reprs=reprs)   # the batch's OWN representation
        try:
            im.update(df, ic.mk_salt(t, histA.get("tunit", "ns")))
            pos = ic._as_pos(list(im[pd.Index([777 + n])])[0])
        except Exception as e:  # noqa: BLE001
            pos = ic.outcome_of(e)
        out.append({"t": t, "key": k, "pos": pos, "repr": reprs})
    return out


# ------------------------------------------------------------------ the property on two observed runs

def registrations(hist, recs):
    """key → (clock time, first hash, first hash unique?, final position, simulant) for successfully registered keys"""
    types = hist["cols"]
    out = {}
    for b, rec in zip(hist["batches"], recs):
        if rec["outcome"] != "ok" or not b["sims"] or "raw" not in rec:
            continue
        occupied = {p for _, p in (rec["before"] or [])}
        raws = rec["raw"]
        for i, (s, k) in enumerate(zip(b["sims"], b["keys"])):
            r = raws[i]
            unique = r not in occupied and raws.count(r) == 1
            out[ic.canon_key(types, k)] = {"t": tuple(b["t"]), "raw": r, "unique": unique, "sim": s, "cls": ic.batch_classes(hist, b)}
    last = recs[-1] if recs else {}
    final = dict((s, p) for s, p in (last.get("pos") if isinstance(last.get("pos"), list) else last.get("map") or []))
    for v in out.values():
        v["pos"] = final.get(v["sim"])
    return out


def oracle_pair(histA, recsA, histB, recsB, solo=()):
    fails = []
    ra, rb = registrations(histA, recsA), registrations(histB, recsB)
    for so in solo:
        ck = ic.canon_key(histA["cols"], so["key"])
        if not isinstance(so["pos"], int) or not 0 <= so["pos"] < histA["size"]:
            fails.append({"sig": "solo-registration-failed", "msg": f"key {so['key']} registered alone at {so['t']}: {so['pos']}"})
            continue
        for side, reg in (("A", ra), ("B", rb)):
            r = reg.get(ck)
            if r is None or list(r["t"]) != list(so["t"]) or list(r["cls"]) != [ic.repr_class(x) for x in so["repr"]]:
                continue
            if r["raw"] != so["pos"]:
                fails.append({"sig": "first-hash-is-not-the-solo-position",
                              "msg": f"run {side}: key {so['key']} at {so['t']}: registered alone it sits at {so['pos']}, the first hash used to tell colliding from non-colliding keys is {r['raw']}"})
            elif r["unique"] and r["pos"] != so["pos"]:
                fails.append({"sig": "position-differs-from-solo-registration",
                              "msg": f"run {side}: key {so['key']} at {so['t']} (simulant {r['sim']}): position {r['pos']}, registered alone in a map of the same size it sits at {so['pos']}, and no simulant registered with or before it hashes there"})
    n_shared = n_free = 0
    for k in ra.keys() & rb.keys():
        a, b = ra[k], rb[k]
        if a["t"] != b["t"] or a["cls"] != b["cls"]:
            continue            # another clock time, or the same values in another representation (int / float / datetime unit)
        n_shared += 1
        if a["unique"] and b["unique"]:
            n_free += 1
            if a["pos"] != b["pos"]:
                fails.append({"sig": "same-key-different-position",
                              "msg": f"key {list(k)} registered at {a['t']} in both runs, first hash {a['raw']}/{b['raw']} free and unshared in both; "
                                     f"position {a['pos']} (simulant {a['sim']}) vs {b['pos']} (simulant {b['sim']})"})
                break
    return fails, n_shared, n_free


# ------------------------------------------------------------------ two whole simulations

def run_sim(case, which):
    """One simulation of the pair. Newborn number j of step s carries the key (s + j/64 [, creation time][, 1000*s + j])
    whatever its index label; the order in which the keys are dealt inside a batch is a case parameter. Per run
    (LESSONS.md 2, 5, 7, 10): who draws (the registering component in `time_step`, or another component in
    `time_step__cleanup`), draws inside the initializer right after registration, registration in two calls, the whole
    frame (extra columns, other column order than key_columns) handed to register_simulants; draws are requested for
    every label ever created, newest first."""
    impl.load()
    import pandas as pd
    from vivarium import Component
    from vivarium.framework.engine import SimulationContext

    alias = {"k3": "simulant_index"} if (case.get("f31") or [False, False])[which] else {}      # F31, per run
    keycols = [alias.get(c, c) for c in case["keycols"]]
    births = case["births"][which]
    perm_seed = case["perm"][which]
    var = (case.get("variant") or [{}, {}])[which]
    het = (case.get("hetero") or {}).get("runs", [None, None])[which]
    clock_kind = case.get("clock", "datetime")
    created = []
    draws = {}
    clock = []

    def record(streams, index, tag):
        now = str(clock[0]())
        for i, st in enumerate(streams):
            dr = st.get_draw(index)
            for sim in index:
                draws.setdefault(int(sim), []).append([now, f"{tag}{i}", float(dr[sim])])

    class Pop(Component):
        @property
        def name(self):
            return "pop"

        @property
        def columns_created(self):
            return ["k1", "k2", alias.get("k3", "k3")]

        def setup(self, b):
            self.streams = [] if var.get("drawer") else [b.randomness.get_stream(f"d{i}") for i in range(3)]
            self.at_creation = [b.randomness.get_stream(f"c{i}") for i in range(2)]
            self.reg = b.randomness.register_simulants
            self.creator = b.population.get_simulant_creator()
            clock.append(b.time.clock())
            self.step_no = 0

        def on_initialize_simulants(self, d):
            n = len(d.index)
            if n == 0:
                return
            js = list(range(n))
            if perm_seed is not None:
                random.Random(perm_seed * 1000 + self.step_no).shuffle(js)
            s = self.step_no
            k1, k2 = [s + j / 64 for j in js], d.creation_time
            if het:
                # LESSONS.md 13 (seeded C04-3): the initial cohort and the immigrants carry the key columns in different
                # representations, and differently in the two simulations. Immigrant j of step s has the whole-number key
                # 100*s + j in BOTH runs and arrives as `imm` (int64 / float64) in both – these are the shared simulants; the
                # cohort has fractional float ages in one run and whole ages (as integers or floats) in the other; the
                # cohort's entrance times may be nanoseconds while later ones are pandas' default unit.
                if s == 0:
                    k1 = ([j + 0.25 for j in js] if het["cohort"] == "frac" else pd.Series([j for j in js], dtype=het["cohort"]).to_numpy())
                    if het.get("cohort_time_ns"):
                        k2 = pd.Series(k2).astype("datetime64[ns]").to_numpy() if clock_kind != "simple" else k2
                else:
                    k1 = pd.Series([100 * s + j for j in js], dtype=case["hetero"]["imm"]).to_numpy()
            df = pd.DataFrame({alias.get("k3", "k3"): [1000 * s + j for j in js], "junk": "x", "k1": k1,
                               "k2": k2}, index=d.index)
            parts = [df.iloc[: n // 2], df.iloc[n // 2:]] if var.get("split") and n > 1 else [df]
            for part in parts:
                self.reg(part if var.get("whole_frame") else part[keycols])
            self.population_view.update(df[["k1", "k2", alias.get("k3", "k3")]])
            created.extend(int(x) for x in d.index)
            if var.get("draw_at_creation"):
                record(self.at_creation, d.index, "c")

        def on_time_step(self, e):
            self.step_no += 1
            if births:
                self.creator(births)
            if self.streams:
                record(self.streams, pd.Index(created[::-1]), "d")

    class Drawer(Component):
        @property
        def name(self):
            return "drawer"

        def setup(self, b):
            self.streams = [b.randomness.get_stream(f"d{i}") for i in range(3)]

        def on_time_step_cleanup(self, e):
            record(self.streams, pd.Index(created[::-1]), "d")

    SimulationContext._clear_context_cache()
    conf = {"population": {"population_size": case["pop"][which]},
            "randomness": {"key_columns": keycols, "map_size": case["map_size"], "random_seed": case["seed"]}}
    kw = {}
    if case.get("clock") == "simple":
        conf["time"] = {"start": 0, "end": case["steps"], "step_size": 1}
        kw["plugin_configuration"] = {"required": {"clock": {"controller": "vivarium.framework.time.SimpleClock",
                                                             "builder_interface": "vivarium.framework.time.TimeInterface"}}}
    else:
        conf["time"] = {"start": {"year": 2020, "month": 1, "day": 1}, "end": {"year": 2020, "month": 1, "day": 1 + case["steps"]},
                        "step_size": 1}
    sim = SimulationContext(components=[Pop()] + ([Drawer()] if var.get("drawer") else []), configuration=conf,
                            logging_verbosity=0, **kw)
    sim.setup()
    im = sim._randomness._key_mapping
    log = []
    ic.instrument(im, log)
    crash = None
    try:
        sim.initialize_simulants()
        for _ in range(case["steps"]):
            sim.step()
    except Exception as e:  # noqa: BLE001 - a crash of the simulation is an observation
        crash = ic.outcome_of(e)
    types = log[0]["types"] if log else []
    hist = {"size": len(im), "cols": types, "tunit": "ns", "batches": [x["batch"] for x in log]}
    return {"hist": hist, "batches": [x["rec"] for x in log], "draws": {str(k): v for k, v in draws.items()}, "crash": crash,
            "expected_size": max(case["map_size"], 10 * case["pop"][which])}


def oracle_sims(obs):
    A, B = obs["a"], obs["b"]
    for side in (A, B):
        if side.get("crash"):
            return [{"sig": "simulation-crashed", "msg": f"a simulation with unique keys stopped with {side['crash']}"}], 0, 0
    for side in (A, B):
        if side["hist"]["size"] != side["expected_size"]:      # from the configuration (RandomnessManager.setup's rule)
            return [{"sig": "block-size-rule", "msg": f"block size {side['hist']['size']}, configuration says {side['expected_size']}"}], 0, 0
    if A["hist"]["size"] != B["hist"]["size"]:
        return [{"sig": "harness-pair-size", "msg": "the two simulations were configured with different block sizes"}], 0, 0
    fails, n_shared, n_free = oracle_pair(A["hist"], A["batches"], B["hist"], B["batches"])
    ra, rb = registrations(A["hist"], A["batches"]), registrations(B["hist"], B["batches"])
    for k in ra.keys() & rb.keys():
        a, b = ra[k], rb[k]
        if a["t"] != b["t"] or a["cls"] != b["cls"] or not (a["unique"] and b["unique"]):
            continue
        da = {(t, i): v for t, i, v in A["draws"].get(str(a["sim"]), [])}
        db = {(t, i): v for t, i, v in B["draws"].get(str(b["sim"]), [])}
        diff = [(tp, da[tp], db[tp]) for tp in sorted(da.keys() & db.keys()) if da[tp] != db[tp]]
        if diff:
            fails.append({"sig": "same-key-different-draws",
                          "msg": f"key {list(k)} (simulant {a['sim']} / {b['sim']}): draws differ at (time, decision point) {diff[:3]}"})
            break
    return fails, n_shared, n_free


class C04(Prop):
    id = "C04"
    lean_modules = ["VivModel.Props.C04", "VivModel.Props.C04Src"]
    build_targets = ["VivModel.Model.IndexMap", "VivModel.Model.Proto"]
    driver = "C03"
    technique = ("Lean 4 proof (a non-colliding key keeps its first hash for every hash function, map, batch, labelling and order; "
                 "two-simulation corollary; relabelling commutes with update; batch permutation) + differential correspondence of "
                 "pairs of real IndexMaps / pairs of whole simulations with the model")
    partial = ("termination of the collision loop is a hypothesis (see C03); 'same position ⇒ same draws' uses the pointwise "
               "definition of get_draw, which is C02's theorem – here it is observed on pairs of real simulations, not proved; "
               "update_batch_perm is proved for non-colliding keys (the statement of the property); full invariance of the whole "
               "map under batch permutation is false (keys colliding on their first hash are placed in batch order)")
    trusted_extra = c03.C03.trusted_extra
    n_quick = 100
    n_thorough = 1500
    case_timeout = 30
    workers = 6
    rule = ("cases = pairs of registration histories on two bare IndexMaps of equal size (relabelled / permuted / sub- and super-set / "
            "extra batches) and pairs of whole simulations with different birth schedules; distinct by case hash; non-trivial = at "
            "least one shared key is non-colliding in both runs and at least one key was moved by collision resolution")

    # ------------------------------------------------------------------ generation
    def boundary(self):
        t = ["time", T0]
        A = {"size": 17, "cols": ["int"], "tunit": "ns",
             "batches": [{"t": t, "sims": [0, 1, 2, 3, 4, 5], "keys": [[1], [2], [3], [4], [5], [6]], "get": None}]}
        out = [
            # one key column, collisions inside the batch: the F4 situation (positions re-attached in MultiIndex order)
            {"kind": "pair", "mode": "permute", "a": A, "b": dict(A, batches=[dict(A["batches"][0], sims=[5, 4, 3, 2, 1, 0], keys=[[6], [5], [4], [3], [2], [1]])])},
            {"kind": "pair", "mode": "relabel", "a": A, "b": dict(A, batches=[dict(A["batches"][0], sims=[40, 7, 19, 3, 88, 5])])},
            {"kind": "pair", "mode": "superset", "a": A,
             "b": dict(A, batches=[dict(A["batches"][0], sims=[9, 0, 1, 2, 3, 4, 5, 6], keys=[[77], [1], [2], [3], [4], [5], [6], [90001]])])},
            # identical runs: every key, colliding or not, must agree (nothing differs)
            {"kind": "pair", "mode": "identical", "a": A, "b": A},
            # the key exists in both runs but is registered at different clock times: nothing is claimed
            {"kind": "pair", "mode": "other-time", "a": A, "b": dict(A, batches=[dict(A["batches"][0], t=["time", T0 + DAY])])},
        ]
        # LESSONS.md 13 / seeded C04-3 at IndexMap level: the same three integer ages are registered after a float cohort (A) and
        # after an integer cohort (B); the same three microsecond times after a nanosecond batch (A) and alone (B)
        t1 = ["time", T0 + DAY]
        ages = {"t": t1, "sims": [10, 11, 12], "keys": [[30.0], [40.0], [50.0]], "repr": ["int64"], "get": None}
        out.append({"kind": "pair", "mode": "history", "a": {"size": 1009, "cols": ["float"], "tunit": "ns", "batches": [
                        {"t": t, "sims": [0, 1, 2], "keys": [[20.5], [31.25], [47.75]], "get": None}, ages]},
                    "b": {"size": 1009, "cols": ["float"], "tunit": "ns", "batches": [
                        {"t": t, "sims": [0, 1, 2], "keys": [[20.0], [31.0], [47.0]], "repr": ["int64"], "get": None}, dict(ages, sims=[5, 3, 4], repr=["int32"])]}})
        times = {"t": t1, "sims": [10, 11, 12], "keys": [[T0 + 40 * DAY], [T0 + 41 * DAY], [T0 + 42 * DAY]], "repr": ["us"], "get": None}
        out.append({"kind": "pair", "mode": "history", "a": {"size": 1009, "cols": ["time"], "tunit": "ns", "batches": [
                        {"t": t, "sims": [0, 1], "keys": [[T0], [T0 + DAY]], "repr": ["ns"], "get": None}, times]},
                    "b": {"size": 1009, "cols": ["time"], "tunit": "ns", "batches": [dict(times, sims=[2, 1, 0])]}})
        # F31: the key column is called 'simulant_index' in run A, in run B, in both
        An = dict(A, names=["simulant_index"])
        Bn = dict(A, names=["simulant_index"], batches=[dict(A["batches"][0], sims=[40, 7, 19, 3, 88, 5], keys=[[4], [6], [1], [5], [2], [3]])])
        out += [{"kind": "pair", "mode": "relabel", "a": An, "b": out[1]["b"]}, {"kind": "pair", "mode": "permute", "a": A, "b": Bn},
                {"kind": "pair", "mode": "permute", "a": An, "b": Bn}]
        out.append({"kind": "sims", "keycols": ["k3", "k1"], "pop": [5, 3], "births": [1, 2], "steps": 3, "map_size": 59, "seed": 5,
                    "perm": [None, 4], "f31": [True, False]})
        # seeded C04-3's scenario: a cohort with fractional (float) ages vs one in whole years (integers); both admit the same
        # immigrants with integer ages; entrance time + age are the keys; and the same with nanosecond cohort entrance times
        out.append({"kind": "sims", "keycols": ["k2", "k1"], "pop": [5, 5], "births": [3, 3], "steps": 3, "map_size": 1009, "seed": 1,
                    "perm": [None, None], "hetero": {"imm": "int64", "runs": [{"cohort": "frac"}, {"cohort": "int64"}]}})
        out.append({"kind": "sims", "keycols": ["k1"], "pop": [4, 6], "births": [2, 3], "steps": 2, "map_size": 211, "seed": 2,
                    "perm": [3, None], "hetero": {"imm": "int64", "runs": [{"cohort": "float64", "cohort_time_ns": True}, {"cohort": "frac"}]}})
        out.append({"kind": "sims", "keycols": ["k2", "k3"], "pop": [3, 3], "births": [2, 2], "steps": 3, "map_size": 307, "seed": 3,
                    "perm": [None, None], "hetero": {"imm": "float64", "runs": [{"cohort": "frac", "cohort_time_ns": True}, {"cohort": "frac"}]}})
        out.append({"kind": "sims", "keycols": ["k1"], "pop": [6, 6], "births": [1, 3], "steps": 5, "map_size": 61, "seed": 3, "perm": [None, None]})
        out.append({"kind": "sims", "keycols": ["k1"], "pop": [6, 6], "births": [1, 3], "steps": 5, "map_size": 1009, "seed": 3, "perm": [None, 5]})
        out.append({"kind": "sims", "keycols": ["k3", "k2"], "pop": [4, 9], "births": [2, 2], "steps": 3, "map_size": 101, "seed": 0, "perm": [2, None]})
        return out

    def generate(self, rng, i, tier):
        if i % 9 == 8:
            ncols_choice = rng.choice([["k1"], ["k1"], ["k3"], ["k1", "k2"], ["k3", "k2"], ["k2", "k1", "k3"]])
            pop = [rng.randint(1, 8), rng.randint(1, 8)]
            if rng.random() < 0.5:
                pop[1] = pop[0]
            births = [rng.randint(0, 3), rng.randint(0, 4)]
            steps = rng.randint(1, 5)
            need = max(10 * max(pop) + 1, max(pop) + max(births) * steps + 2)
            lo = need if rng.random() < 0.7 else need * 4
            var = [{k: rng.random() < 0.5 for k in ("split", "whole_frame", "draw_at_creation", "drawer")} for _ in (0, 1)]
            if rng.random() < 0.5:
                var[1]["draw_at_creation"] = var[0]["draw_at_creation"] = True      # comparable draws inside the initializer
            return {"kind": "sims", "keycols": ncols_choice, "pop": pop, "births": births, "steps": steps,
                    "map_size": rng.choice(ic.coprime_sizes(len(ncols_choice), lo, lo + 40)), "seed": rng.randint(0, 9),
                    "perm": [rng.choice([None, rng.randint(0, 99)]), rng.choice([None, rng.randint(0, 99)])],
                    "clock": rng.choice(["datetime", "datetime", "simple"]), "variant": var,
                    "f31": [("k3" in ncols_choice and rng.random() < 0.5) for _ in (0, 1)],
                    "hetero": ({"imm": rng.choice(["int64", "int64", "float64"]),
                                "runs": [{"cohort": rng.choice(["frac", "frac", "int64", "float64", "int32"]), "cohort_time_ns": rng.random() < 0.5}
                                         for _ in (0, 1)]} if "k1" in ncols_choice and rng.random() < 0.5 else None)}
        mode = rng.choice(["permute", "relabel", "relabel-affine", "subset", "superset", "mixed", "mixed", "mixed", "history", "history"])
        # the shape of history A (LESSONS.md 9): plain, a dense first batch followed by single newcomers, a small block filled
        # (almost) completely, or aimed collision chains with bystanders exactly where the re-hashes land (seeded C04-1)
        shape = rng.choice(["plain"] * 4 + ["trickle"] * 2 + ["chain"] * (3 if mode != "history" else 0) + (["dense"] if mode in ("permute", "relabel", "relabel-affine", "subset") else []))
        # single key columns get extra weight: that is where key/position re-attachment went wrong (F4)
        types = [rng.choice(["int", "int", "float", "time"])] if rng.random() < 0.45 and shape != "chain" else None
        room = 1.0 if shape == "dense" else 0.85
        while True:
            size = None if shape == "dense" else rng.choice(ic.coprime_sizes(6, 8 if shape == "chain" else 5, (60 if shape == "chain" else 110) if tier == "quick" else 400))
            A = c03.gen_history(rng, tier, dup_rate=0.05 if mode == "mixed" else 0.0, types=types, size=size,   # sizes coprime for 1, 2 and 3 columns
                                n_batches=None if shape in ("trickle", "dense") else rng.randint(2 if mode == "history" else 1, 4), mode=shape,
                                hetero_rate=0.8 if mode == "history" else None)
            if shape == "dense" and ic.math.gcd(A["size"], 6 * ic.SPREAD) != 1:
                continue
            for b in A["batches"]:
                b["get"] = None
                b.pop("get_kind", None)
                b.pop("get_repeats", None)
            B = derive(rng, A, mode)
            if max(total_keys(A), total_keys(B)) <= room * A["size"]:      # the block must not overflow (F11)
                break
        A.pop("kind", None)
        B.pop("kind", None)
        return {"kind": "pair", "mode": mode, "shape": shape, "a": A, "b": B}

    def shrink(self, case):
        if case["kind"] != "pair":
            for k in ("steps",):
                if case[k] > 1:
                    yield dict(case, **{k: case[k] - 1})
            for w in (0, 1):
                if case["births"][w] > 0:
                    nb = list(case["births"]); nb[w] -= 1          # noqa: E702
                    yield dict(case, births=nb)
                if case["pop"][w] > 1:
                    npop = list(case["pop"]); npop[w] -= 1         # noqa: E702
                    yield dict(case, pop=npop)
            return
        for side in ("a", "b"):
            h = case[side]
            bs = h["batches"]
            for i in range(len(bs) - 1, -1, -1):
                yield dict(case, **{side: dict(h, batches=bs[:i] + bs[i + 1:])})
            for i, b in enumerate(bs):
                for j in range(len(b["sims"]) - 1, -1, -1):
                    nb = dict(b, sims=b["sims"][:j] + b["sims"][j + 1:], keys=b["keys"][:j] + b["keys"][j + 1:])
                    yield dict(case, **{side: dict(h, batches=bs[:i] + [nb] + bs[i + 1:])})

    # ------------------------------------------------------------------ implementation / model / oracle
    def run_impl(self, case):
        ic.repeat_alarm(self.case_timeout)
        if case["kind"] == "sims":
            return {"a": run_sim(case, 0), "b": run_sim(case, 1)}
        # hash probes: run A only and few (the hash arithmetic is C03's business; here the first hashes matter)
        return {"a": {"hist": case["a"], "batches": ic.run_history(case["a"], hash_probe=2)},
                "b": {"hist": case["b"], "batches": ic.run_history(case["b"], hash_probe=0)},
                "solo": run_solo(case["a"], case["b"])}

    def _lines(self, obs):
        la, pa = ic.history_lines(obs["a"]["hist"], obs["a"]["batches"], name="imap@a")
        lb, pb = ic.history_lines(obs["b"]["hist"], obs["b"]["batches"], name="imap@b")
        return la, pa, lb, pb

    def model_lines(self, case, obs):
        la, _, lb, _ = self._lines(obs)
        return la + lb

    def compare(self, case, obs, replies):
        la, pa, lb, pb = self._lines(obs)
        return (ic.compare_history(obs["a"]["hist"], obs["a"]["batches"], replies[:len(la)], pa, label="run A: ")
                + ic.compare_history(obs["b"]["hist"], obs["b"]["batches"], replies[len(la):], pb, label="run B: "))

    def oracle(self, case, obs):
        if case["kind"] == "sims":
            fails = oracle_sims(obs)[0]
        else:
            fails = oracle_pair(obs["a"]["hist"], obs["a"]["batches"], obs["b"]["hist"], obs["b"]["batches"], obs.get("solo") or ())[0]
            if case.get("mode") == "identical" and obs["a"]["batches"] and obs["a"]["batches"][-1]["map"] != obs["b"]["batches"][-1]["map"]:
                fails.append({"sig": "identical-runs-differ", "msg": "the same history gave two different maps"})
        # each run on its own must satisfy C03 as well (a misattached key shows up there as `key-misattached`)
        for side in ("a", "b"):
            for f in c03.oracle_history(obs[side]["hist"], obs[side]["batches"], label=f"run {side.upper()}: "):
                if f["sig"] in ("key-misattached", "position-missing", "timeout"):
                    fails.append(f)
        return fails

    def _stats(self, case, obs):
        if case["kind"] == "sims":
            return oracle_sims(obs)[1:]
        return oracle_pair(obs["a"]["hist"], obs["a"]["batches"], obs["b"]["hist"], obs["b"]["batches"])[1:]

    def nontrivial(self, case, obs):
        n_shared, n_free = self._stats(case, obs)
        moved = any("rehashed" in c03.history_tags(obs[s]["hist"], obs[s]["batches"]) for s in ("a", "b"))
        return n_free > 0 and moved

    def tags(self, case, obs):
        n_shared, n_free = self._stats(case, obs)
        t = [case["kind"], "mode:" + case.get("mode", "sims"), f"ncols={len(obs['a']['hist']['cols'])}"]
        t += ["type:" + x for x in set(obs["a"]["hist"]["cols"])]
        t.append("shared-keys:" + ("0" if n_shared == 0 else "1-5" if n_shared <= 5 else "6+"))
        t.append("shared-noncolliding:" + ("0" if n_free == 0 else "1-5" if n_free <= 5 else "6+"))
        if n_shared > n_free:
            t.append("shared-colliding(exempt)")
        for s in ("a", "b"):
            tg = c03.history_tags(obs[s]["hist"], obs[s]["batches"])
            t += [x for x in ("rehashed", "collision-with-old", "collision-in-batch", "update:err:randomness", "loop-passes:2",
                              "loop-passes:3+", "noncolliding-next-to-rehashed", "collision-with-old-only(no-internal)",
                              "block-exactly-full", "labels-interleave", "frame:order", "frame:extra") if x in tg]
            t += [x for x in tg if x.startswith(("dtype:", "clock:"))]
        for side in ("a", "b"):
            if "simulant_index" in (obs[side]["hist"].get("names") or []):
                t.append(f"simulant_index-column:run-{side.upper()}")
        if case["kind"] == "sims":
            t += [f"simulant_index-column:run-{'AB'[w]}" for w in (0, 1) if (case.get("f31") or [False, False])[w]]
        for side in ("a", "b"):
            tg = c03.history_tags(obs[side]["hist"], obs[side]["batches"])
            t += sorted({f"run-{side.upper()}:{x}" for x in tg if x.startswith("representation-change")})
            if any(x.startswith("repeat:batch") for x in tg):
                t.append("repeat:batch-verbatim")
        ra_, rb_ = registrations(obs["a"]["hist"], obs["a"]["batches"]), registrations(obs["b"]["hist"], obs["b"]["batches"])
        ha, hb = obs["a"]["hist"], obs["b"]["hist"]
        cls_hist = lambda h: [ic.batch_classes(h, b) for b in h["batches"] if b["sims"] and not b.get("bad")]     # noqa: E731
        if cls_hist(ha) != cls_hist(hb) and (len(set(cls_hist(ha))) > 1 or len(set(cls_hist(hb))) > 1):
            t.append("representation-history-differs-between-runs")
        if any(ra_[k]["cls"] != rb_[k]["cls"] for k in ra_.keys() & rb_.keys()):
            t.append("shared-values-other-representation(not-compared)")
        if case["kind"] == "sims" and case.get("hetero"):
            t.append("sims:hetero imm=" + case["hetero"]["imm"])
            t += [f"sims:cohort={r['cohort']}" + ("+ns" if r.get("cohort_time_ns") else "") for r in case["hetero"]["runs"]]
        if case["kind"] == "pair":
            t.append("shape:" + case.get("shape", "boundary"))
            solo = obs.get("solo") or []
            t.append(f"solo-registrations:{len(solo)}")
            ra = registrations(obs["a"]["hist"], obs["a"]["batches"])
            if any(ra.get(ic.canon_key(obs["a"]["hist"]["cols"], so["key"]), {}).get("unique") for so in solo):
                t.append("solo-vs-noncolliding-compared")
            if (obs["a"]["hist"].get("dtypes") or None) != (obs["b"]["hist"].get("dtypes") or None):
                t.append("dtypes-differ-between-runs")
        if case["kind"] == "sims":
            for w in (0, 1):
                t += [f"sims:{k}" for k, v in (case.get("variant") or [{}, {}])[w].items() if v]
            t.append("sims-clock:" + case.get("clock", "datetime"))
            n_cmp = 0
            ra, rb = registrations(obs["a"]["hist"], obs["a"]["batches"]), registrations(obs["b"]["hist"], obs["b"]["batches"])
            for k in ra.keys() & rb.keys():
                da = {(x[0], x[1]) for x in obs["a"]["draws"].get(str(ra[k]["sim"]), [])}
                db = {(x[0], x[1]) for x in obs["b"]["draws"].get(str(rb[k]["sim"]), [])}
                n_cmp += len(da & db)
            t.append("sims-draws-compared:" + ("0" if n_cmp == 0 else "1-50" if n_cmp <= 50 else "51+"))
            t.append("sims-births-differ" if case["births"][0] != case["births"][1] else "sims-births-equal")
            t.append("sims-pop-differ" if case["pop"][0] != case["pop"][1] else "sims-pop-equal")
        return t

    def sample_view(self, case, obs):
        n_shared, n_free = self._stats(case, obs)
        v = {"kind": case["kind"], "shared_keys_same_time": n_shared, "of_which_noncolliding_in_both": n_free}
        if case["kind"] == "sims":
            v["case"] = case
        else:
            v["mode"] = case["mode"]
            v["size"], v["cols"] = case["a"]["size"], case["a"]["cols"]
            for s in ("a", "b"):
                v[s] = [{"t": b["t"], "sims": b["sims"][:6], "keys": b["keys"][:6], "first_hash": r.get("raw", [])[:6],
                         "map_after": (r["map"] or [])[:8]} for b, r in list(zip(case[s]["batches"], obs[s]["batches"]))[:2]]
        return v


PROP = C04()
