"""C05 — decisions are monotone functions of the common draw.

Tie: correspondence. The same real randomness stacks as C02 (vcheck/stream_common.py). For every filter / choice
operation the harness reads the common draw with `get_draw` at the same time and additional key, hands the block
(computed with the real `get_hash(stream._key(..))` + numpy), the index map's positions and the exact arguments
(probabilities / weights as integers over a common power-of-two denominator) to Driver/C05.lean and compares the
selected labels / chosen option indices exactly. `filter_for_rate` is tied to `filter_for_probability` on the
implementation side: the model gets the probabilities the real `rate_to_probability` returned, so `exp` is never
modelled. Exact stream: dyadic weights with power-of-two row sums, weights built from real draws (`[d, 1-d]`,
`[d, RESIDUAL]`: the draw sits exactly on a bin edge), probabilities equal to a real draw, and `_choice` called
directly with crafted draws on every bin edge. General stream (arbitrary floats): a decision is only compared when
the exact rational is farther than 2^-40 from every edge.

Oracle (independent of the model, exact rationals): kept = exactly the rows whose draw is below their probability,
in input order, same type, rows intact; monotone; 0 -> nobody; >= 1 -> everybody; rate = probability of the real
conversion and of 1-exp(-min(r,250)); chosen option k has C_{k-1} < d <= C_k and positive weight; proportional
weight matrices and spelled-out residuals decide alike; two placeholders in a row / placeholder with sum > 1 are
refused. Known finding F9 (`choice-draw0-leading-zero-weight`): a draw of exactly 0.0 with a leading zero weight.
"""
from __future__ import annotations

import math
import random
from fractions import Fraction

from .. import stream_common as sc
from ..runner import Prop
from . import c02 as _c02

EPS = Fraction(1, 1 << 40)
POPKINDS = ["index", "series", "frame", "frame0"]
PKINDS_OK = ["scalar", "list", "tuple", "array", "array0", "series"]


def _h(x: float) -> str:
    return "h:" + float(x).hex()


def _i(n: int) -> str:
    """an INTEGER-typed argument (python int; lists / arrays / Series made only of them have an integer dtype)"""
    return f"i:{int(n)}"


def _tv(tok: str):
    """value of a literal token (`h:` float, `i:` int)"""
    return int(tok[2:]) if tok.startswith("i:") else float.fromhex(tok[2:])


def _scaled(tok: str, c) -> str:
    """the literal token times c; integers stay integers under an integer factor"""
    if tok.startswith("i:") and float(c).is_integer():
        return _i(int(tok[2:]) * int(c))
    return _h(_tv(tok) * c)


def _np_dtype(vals):
    return "int64" if vals and all(isinstance(v, int) and not isinstance(v, bool) for v in vals) else "float64"


SCALARS = ("scalar", "array0", "npscalar", "f32scalar")
F32KINDS = ("f32array", "f32series", "f32scalar")


def _opts(s: str):
    """'kind|a=b|c=d' -> ('kind', {'a': 'b', 'c': 'd'}): how the call is made (LESSONS.md 2, 3):
    ix = kind of Index object, form = pos / kw / omit, h = ord / init (kind of stream handle), vals = str / int / mixed (choices)"""
    parts = s.split("|")
    return parts[0], dict(x.split("=", 1) for x in parts[1:])


def _split_op(op):
    """(the op with a bare kind field, its call options)"""
    j = {"filter": 2, "rate": 2, "choice": 3, "rchoice": 4}.get(op[0])
    if j is None:
        return op, {}
    base, o = _opts(op[j])
    return op[:j] + [base] + op[j + 1:], o


def _req_pos(op):
    return {"filter": 3, "rate": 3, "choice": 2}.get(op[0])


def _concrete(op, o):
    """the op with its request made concrete: a request may be `{"surv": id, ...}` = the simulants kept by the filter whose kind field
    carries `id=<id>` (optionally reversed / every second one), known only at run time and recorded in the observation"""
    j = _req_pos(op)
    if j is not None and isinstance(op[j], dict):
        return op[:j] + [list(o.get("req", []))] + op[j + 1:]
    return op


def _with(kind: str, **o) -> str:
    return kind + "".join(f"|{k}={v}" for k, v in o.items() if v not in (None, "", "int64", "pos", "ord", "str"))


def _choice_labels(k, vals):
    if vals == "int":
        return [7 + 10 * j for j in range(k)]
    if vals == "mixed":
        return ["c0"] + [j if j % 2 else float(j) + 0.5 for j in range(1, k)]
    return [f"c{j}" for j in range(k)]


# ---------------------------------------------------------------------- implementation side
def _resolve(tok, draws):
    """token -> float (or the residual placeholder)"""
    import numpy as np
    kind, _, arg = tok.partition(":")
    if kind == "h":
        return float.fromhex(arg)
    if kind == "i":
        return int(arg)
    if kind == "b":
        return bool(int(arg))
    if kind == "R":
        return "R"
    d = float(draws.iloc[int(arg)])
    if kind == "d":
        return d
    if kind == "d+":
        return float(np.nextafter(d, 2.0))
    if kind == "d-":
        return float(np.nextafter(d, -1.0))
    if kind == "1-d":
        return 1.0 - d
    raise ValueError(tok)


def _population(env, kind, req, ix="int64"):
    import numpy as np
    pd = env.pd
    idx = env.index(req, ix)
    n = len(req)
    if kind == "index":
        return idx
    if kind == "series":
        return pd.Series(np.arange(n) * 10 + 3, index=idx, name="v")
    if kind == "frame":
        return pd.DataFrame({"row": np.arange(n), "w": np.arange(n) * 0.5}, index=idx)
    if kind == "frame0":
        return pd.DataFrame(index=idx)
    raise ValueError(kind)


def _rows_of(res, kind):
    """positions (in the input population) of the rows of the result, where the payload allows to tell"""
    if kind == "series":
        return [int((int(v) - 3) // 10) for v in res.values]
    if kind == "frame":
        return [int(v) for v in res["row"].values]
    return None


def _prob_object(env, kind, vals, req):
    import numpy as np
    pd = env.pd
    if kind == "scalar":
        return vals[0]
    if kind == "npscalar":
        return np.float64(vals[0])
    if kind == "f32array":
        return np.array(vals, dtype="float32")
    if kind == "f32series":
        return pd.Series(np.array(vals, dtype="float32"), index=env.index(req))
    if kind == "f32scalar":
        return np.float32(vals[0])
    if kind == "boollist":
        return [bool(v) for v in vals]
    if kind == "array0":
        return np.array(vals[0])
    if kind in ("list", "short", "long"):
        return list(vals)
    if kind == "tuple":
        return tuple(vals)
    if kind == "array":
        return np.array(vals, dtype=_np_dtype(vals))
    if kind == "series":
        return pd.Series(np.array(vals, dtype=_np_dtype(vals)), index=env.index(req))
    if kind == "series_perm":
        k = list(range(len(req)))[::-1]
        return pd.Series(np.array([vals[i] for i in k], dtype=_np_dtype(vals)), index=env.index([req[i] for i in k]))
    raise ValueError(kind)


CKINDS_SERIES = ["series", "series_rot", "series_rev", "series_gap", "series_big", "series_str"]


def _choices_object(pd, np, ckind, labels):
    """the `choices` argument: the option at POSITION j is labels[j] whatever the container and, for a Series, whatever its index"""
    k = len(labels)
    if ckind == "list":
        return list(labels)
    if ckind == "tuple":
        return tuple(labels)
    if ckind == "array":
        return np.array(labels)
    if ckind == "series":
        return pd.Series(labels)
    if ckind == "series_rot":      # integer labels 1, 2, …, k-1, 0: a permutation of the positions without fixed point
        return pd.Series(labels, index=[(j + 1) % k for j in range(k)])
    if ckind == "series_rev":      # k-1, …, 0
        return pd.Series(labels, index=list(range(k))[::-1])
    if ckind == "series_gap":      # 1, 3, 5, …: integer labels with gaps, 0 missing
        return pd.Series(labels, index=[2 * j + 1 for j in range(k)])
    if ckind == "series_big":      # 100, 101, …: no label is a position
        return pd.Series(labels, index=[100 + j for j in range(k)])
    if ckind == "series_str":
        return pd.Series(labels, index=[f"opt{j}" for j in range(k)])
    raise ValueError(ckind)


def _flat_values(arg):
    """the numbers inside a probability / rate argument as python floats, in order (after whatever rounding its dtype did)"""
    import numpy as np
    if hasattr(arg, "values") and not isinstance(arg, (list, tuple)):
        arg = arg.values
    return [float(x) for x in np.atleast_1d(np.asarray(arg, dtype=float))]


def _prob_index(kind, req):
    return [req[i] for i in range(len(req))][::-1] if kind == "series_perm" else list(req)


def _run_ops(case):
    import numpy as np
    env = sc.Env(case["env"])
    pd = env.pd
    from vivarium.framework.randomness.stream import RESIDUAL_CHOICE, _choice
    from vivarium.framework.utilities import rate_to_probability
    blocks = {}
    obs = {"size": env.size, "pos0": env.positions(), "ops": [], "blocks": blocks, "seed": env.seed_str}
    kept_by_id = {}
    for op in case["ops"]:
        op, opts = _split_op(op)
        kind = op[0]
        ix, form, handle = opts.get("ix", "int64"), opts.get("form", "pos"), opts.get("h", "ord")
        o = {"t": env.tstr(), "step": env.steps}
        obs["ops"].append(o)
        j = _req_pos(op)
        if j is not None and isinstance(op[j], dict):
            # the survivors of an earlier filter (a cascade of decisions about nested sub-populations)
            src = list(kept_by_id.get(op[j].get("surv"), []))
            if op[j].get("rev"):
                src = src[::-1]
            if op[j].get("odd"):
                src = src[1::2] + src[0::2][:1]
            o["req"] = src
            op = _concrete(op, o)
        if kind == "step":
            env.step()
            continue
        if kind == "untrack":
            env.untrack(op[1])
            continue
        if kind == "rchoice":
            _, nums, k, wspec, ckind = op
            draws = pd.Series(np.array([n / float(sc.TWO53) for n in nums], dtype=float), index=pd.RangeIndex(len(nums)))
            o["dhx"] = [sc.fhex(x) for x in draws.values]
            stream = None
            req = list(range(len(nums)))
            ak = None
        else:
            stream = env.init_stream if handle == "init" else env.streams[op[1]]
            req = op[3] if kind in ("filter", "rate") else op[2]
            ak = sc.ak_obj(op[-1])
            try:
                ks, blk = env.block(stream, ak)
                o["ks"] = ks
                blocks.setdefault(ks, blk)
            except Exception as e:  # noqa: BLE001
                o["ks"] = None
            try:
                draws = stream.get_draw(env.index(req, ix), ak)
                o["dhx"] = [sc.fhex(x) for x in draws.values]
            except Exception as e:  # noqa: BLE001
                draws = None
                o["derr"] = sc.exc_class(e)
        try:
            if kind in ("filter", "rate"):
                _, _, popkind, _, (pkind, toks), _ = op
                if draws is None and any(not t.startswith(("h:", "i:", "b:")) for t in toks):
                    o["r"] = "skip"
                    continue
                vals = [_resolve(t, draws) for t in toks]
                arg = _prob_object(env, pkind, vals, req)
                pop = _population(env, popkind, req, ix)
                fn = stream.filter_for_rate if kind == "rate" else stream.filter_for_probability
                flat = _flat_values(arg)[::-1] if pkind == "series_perm" else _flat_values(arg)     # in the order of the tokens
                if kind == "rate":
                    o["vhx"] = [sc.fhex(x) for x in flat]
                    try:
                        p = rate_to_probability(arg)
                    except Exception as e:  # noqa: BLE001
                        # the conversion itself refuses the argument: nothing to hand to the model; judged by the oracle
                        o["r"] = "skip"
                        o["conv_err"] = sc.exc_class(e)
                        continue
                    o["phx"] = [sc.fhex(x) for x in np.atleast_1d(np.asarray(p, dtype=float))]
                else:
                    o["phx"] = [sc.fhex(x) for x in flat]
                if form == "kw":
                    res = fn(population=pop, **{"rate" if kind == "rate" else "probability": arg}, additional_key=ak)
                elif form == "omit" and ak is None:
                    res = fn(pop, arg)
                else:
                    res = fn(pop, arg, ak)
                base = lambda x: next((c.__name__ for c in (pd.DataFrame, pd.Series, pd.Index) if isinstance(x, c)), type(x).__name__)   # noqa: E731
                o["type"] = base(res)           # Index / Series / DataFrame (a filtered RangeIndex is an Index)
                o["intype"] = base(pop)
                o["kept"] = [int(x) for x in (res if isinstance(res, pd.Index) else res.index)]
                o["rows"] = _rows_of(res, popkind)
                o["ncols"] = int(res.shape[1]) if isinstance(res, pd.DataFrame) else None
                o["r"] = "ok"
                if opts.get("id"):
                    kept_by_id[opts["id"]] = list(o["kept"])
            else:
                if kind == "choice":
                    _, _, _, ckind, k, wspec, _ = op
                if draws is None:
                    # the real call raises in get_draw as well; make it
                    stream.choice(env.index(req), [f"c{j}" for j in range(k)], None, ak)
                    o["r"] = "ok?"
                    continue
                labels = _choice_labels(k, opts.get("vals", "str"))
                choices = _choices_object(pd, np, ckind, labels)
                p = None
                if wspec is not None:
                    dim, cont, rows = wspec
                    rv = [[_resolve(t, draws) for t in row] for row in rows]
                    o["whx"] = [["R" if v == "R" else sc.fhex(v) for v in row] for row in rv]
                    py = [[RESIDUAL_CHOICE if v == "R" else v for v in row] for row in rv]
                    p = py[0] if dim == 1 else py
                    if cont == "array":
                        flat = [v for row in rv for v in row]
                        p = np.array(p, dtype=object if any(v == "R" for v in flat) else _np_dtype(flat))
                    elif cont == "tuple":
                        p = tuple(p) if dim == 1 else tuple(tuple(r) for r in p)
                    elif cont == "series":           # 1-d weights as a Series (default index)
                        p = pd.Series(py[0])
                    elif cont == "series_rev":       # … with a reversed index: weights are positional, labels must not matter
                        p = pd.Series(py[0], index=list(range(len(py[0])))[::-1])
                    elif cont == "frame":            # 2-d weights as a DataFrame, one row per simulant
                        p = pd.DataFrame(py)
                if kind == "choice":
                    idx = env.index(req, ix)
                    if form == "kw":
                        res = stream.choice(index=idx, choices=choices, p=p, additional_key=ak)
                    elif form == "omit" and ak is None:
                        res = stream.choice(idx, choices) if p is None else stream.choice(idx, choices, p)
                    else:
                        res = stream.choice(idx, choices, p, ak)
                else:
                    res = _choice(draws, choices, p) if form != "kw" else _choice(draws=draws, choices=choices, p=p)
                o["idx"] = [int(x) for x in res.index]
                keymap = {str(v): j for j, v in enumerate(labels)}
                o["picks"] = [keymap[str(x)] for x in res.values]
                o["r"] = "ok"
        except Exception as e:  # noqa: BLE001
            o["r"] = sc.exc_class(e)
    env.close()
    return obs


# ---------------------------------------------------------------------- exact reference semantics (oracle side)
def _fr(hexs):
    return [Fraction(float.fromhex(h)) for h in hexs]


def matrix_status(whx, dim, n, k):
    """what the property says about a weight argument: ('ok', rows per simulant as Fractions) |
    ('reject', why) | ('dontcare', why)"""
    if whx is None:
        return "ok", [[Fraction(1)] * k for _ in range(n)]
    rows = [[None if c == "R" else Fraction(float.fromhex(c)) for c in row] for row in whx]
    if n == 0:
        return "dontcare", "no simulant"
    if dim == 1:
        rows = [rows[0] for _ in range(n)]
    elif len(rows) == 1:
        rows = [rows[0] for _ in range(n)]
    elif len(rows) != n:
        return "dontcare", "row count"
    if any(len(r) != k for r in rows):
        return "dontcare", "column count"
    if any(c is not None and c < 0 for r in rows for c in r):
        return "dontcare", "negative weight"
    if any(c is None for r in rows for c in r):
        cnt = [sum(c is None for c in r) for r in rows]
        if any(c >= 2 for c in cnt):
            return "reject", "two-residuals"
        if any(c == 0 for c in cnt):
            return "dontcare", "mixed rows"
        if any(sum(c for c in r if c is not None) > 1 for r in rows):
            return "reject", "residual-sum"
        rows = [[1 - sum(c for c in r if c is not None) if c is None else c for c in r] for r in rows]
    if any(sum(r) == 0 for r in rows):
        return "dontcare", "zero row"          # nothing to choose from (the code refuses: 0/0 under numpy.seterr(all="raise"))
    return "ok", rows


def row_exact(row):
    """IEEE arithmetic on this row (sum, division by the sum, cumulative sum, 1 - sum) is exact in any order:
    all weights are multiples of a unit u, the total is a power of two and total / u <= 2^53"""
    W = sum(row)
    if W <= 0 or not sc.is_pow2(W):
        return False
    u = sc.dyadic_unit(list(row) + [Fraction(1)])
    return W / u <= sc.TWO53 and 1 / u <= sc.TWO53


def expected_pick(row, d):
    """(k, gap): the option whose cumulative interval (C_{k-1}/W, C_k/W] contains d (k = first positive-weight
    option for d = 0), and the distance of d from the nearest bin edge"""
    W = sum(row)
    c, k, gap = Fraction(0), None, None
    for j, w in enumerate(row):
        c += w
        g = abs(d - c / W)
        gap = g if gap is None else min(gap, g)
        if k is None and w > 0 and d <= c / W:
            k = j
    return k, gap


class C05(Prop):
    id = "C05"
    lean_modules = ["VivModel.Props.C05", "VivModel.Props.C05Src"]
    build_targets = ["VivModel.Model.Stream", "VivModel.Model.Proto"]
    driver = "C05"
    technique = ("Lean 4 proof (induction over populations / weight rows, integer cross-multiplication) + differential correspondence "
                 "with the real filter_for_probability / filter_for_rate / choice / _choice on exact dyadic inputs and real draws")
    partial = ("float arithmetic inside _choice (normalisation, cumulative sums) and rate_to_probability (exp) is idealised as exact: the "
               "exact stream compares strictly on inputs where IEEE arithmetic is exact, the general stream skips decisions closer than "
               "2^-40 to a bin edge; 'never picks a zero-weight option' is proved only for a positive draw or a positive first weight (F9)")
    n_quick = 220
    n_thorough = 3500
    workers = 4
    trusted_extra = ["numpy block / SHA-1 seed hash and the index map's positions are data (see C02, C03)",
                     "np.exp monotone with exp(0) = 1 (rate_mono is proved for every monotone f with f 0 = 0)"]
    rule = ("case = one randomness stack and 8-40 operations on it: filter_for_probability / filter_for_rate over Index, Series, DataFrame "
            "(with and without columns) populations with scalar / list / tuple / array / Series arguments, choice with 1-d / 2-d weights, "
            "placeholders, zero weights, scaled copies, weights built from the simulants' own draws, _choice with crafted draws; distinct by "
            "case hash; non-trivial = a filter that keeps some and drops some, and a choice that picks two different options")

    # ------------------------------------------------------------------ generation
    def _dy(self, rng, bits=4):
        return rng.randint(0, 1 << bits) / float(1 << bits)

    def _pvals(self, rng, n, own=True):
        """n probability tokens"""
        out = []
        if rng.random() < 0.12:          # integer-typed probabilities only: the list / array / Series has an integer dtype
            return [_i(rng.choice([0, 0, 1, 1, 2])) for _ in range(n)]
        for i in range(n):
            r = rng.random()
            if r < 0.04:
                out.append(_i(rng.choice([0, 1, 1, 3])))
            elif r < 0.12:
                out.append(_h(0.0))
            elif r < 0.22:
                out.append(_h(1.0))
            elif r < 0.3:
                out.append(_h(rng.choice([1.5, 2.0, 1.0000000000000002, 17.0])))
            elif own and r < 0.42:
                out.append(f"d:{i}")
            elif own and r < 0.5:
                out.append(f"d+:{i}")
            elif own and r < 0.56:
                out.append(f"d-:{i}")
            elif r < 0.7:
                out.append(_h(self._dy(rng)))
            elif r < 0.75:
                out.append(_h(rng.choice([1e-300, 5e-324, 2.0 ** -60, 1 - 2.0 ** -53])))
            else:
                out.append(_h(rng.random()))
        return out

    def _raise_tokens(self, rng, toks):
        """pointwise >= tokens (for the monotonicity pairs)"""
        out = []
        for t in toks:
            r = rng.random()
            if t.startswith("b:"):
                out.append(rng.choice([t, "b:1", _h(1.0)]))
            elif t.startswith("i:"):
                v = int(t[2:])
                out.append(t if r < 0.3 else _i(v + rng.choice([0, 1, 2, 100])) if r < 0.8 else _h(v + rng.choice([0.0, 0.5])))
            elif t.startswith("h:"):
                v = float.fromhex(t[2:])
                out.append(t if r < 0.4 else _h(v + rng.choice([0.0, 2.0 ** -53, 0.125, 0.5, 1.0])))
            elif t.startswith("d-:"):
                out.append(rng.choice([t, "d:" + t[3:], "d+:" + t[3:]]))
            elif t.startswith("d:"):
                out.append(rng.choice([t, "d+:" + t[2:], _h(1.0)]))
            else:
                out.append(rng.choice([t, _h(1.0)]))
        return out

    def _weights_row(self, rng, k, style):
        """one row of k weight tokens"""
        if style == "dyadic":          # power-of-two total: split 2^m units
            units = 1 << rng.choice([2, 3, 4, 6])
            cuts = sorted(rng.randint(0, units) for _ in range(k - 1))
            parts = [b - a for a, b in zip([0] + cuts, cuts + [units])]
            scale = rng.choice([1.0 / units, 1.0 / units, 1.0, 4.0 / units, 0.5 / units])
            if scale == 1.0 and rng.random() < 0.6:
                return [_i(p) for p in parts]            # integer weights (integer dtype as an array)
            return [_h(p * scale) for p in parts]
        if style == "zeros":
            parts = [rng.choice([0, 0, 1, 2, 3]) for _ in range(k)]
            if rng.random() < 0.5:
                parts[0] = 0
            if rng.random() < 0.4:
                parts[-1] = 0
            if sum(parts) == 0:
                parts[rng.randrange(k)] = 2
            if rng.random() < 0.5:
                return [_i(p) for p in parts]
            return [_h(float(p)) for p in parts]
        if style == "float":
            return [_h(rng.choice([0.0, rng.random(), rng.random(), rng.randint(1, 9) / 10.0])) for _ in range(k)]
        raise ValueError(style)

    def _spell_residual(self, rng, row_toks):
        """replace one entry of a dyadic row that sums to 1 by the placeholder"""
        j = rng.randrange(len(row_toks))
        return row_toks[:j] + ["R"] + row_toks[j + 1:]

    def _unit_row(self, rng, k):
        units = 1 << rng.choice([2, 3, 4])
        cuts = sorted(rng.randint(0, units) for _ in range(k - 1))
        parts = [b - a for a, b in zip([0] + cuts, cuts + [units])]
        return [_h(p / float(units)) for p in parts]

    def _choice_ops(self, rng, si, req, ak, how=None):
        ops = []
        n = len(req)
        k = rng.choice([1, 2, 2, 3, 3, 4, 5])
        r = rng.random()
        how = how or (lambda kind, **kw: kind)
        if n == 0:
            r = r * 0.3 if r < 0.6 else 0.5 + r * 0.18      # no simulant: only argument forms that have a shape without rows
        ck = lambda: how(rng.choice(["list", "list", "tuple", "array"] + CKINDS_SERIES), vals=rng.choice(["str", "str", "int", "mixed"]))   # noqa: E731
        cont = lambda: rng.choice(["list", "list", "array", "tuple"])           # noqa: E731
        cont1 = lambda: rng.choice(["list", "list", "array", "tuple", "series", "series_rev"])      # noqa: E731  containers of a 1-d weight row
        cont2 = lambda: rng.choice(["list", "list", "array", "tuple", "frame"])                     # noqa: E731  … of a matrix
        if r < 0.12:
            ops.append(["choice", si, req, ck(), rng.choice([1, 2, 4, 3, 5]), None, ak])
        elif r < 0.3:      # 1-d rows, scaled copy
            row = self._weights_row(rng, k, rng.choice(["dyadic", "zeros", "float"]))
            ops.append(["choice", si, req, ck(), k, [1, cont1(), [row]], ak])
            c = rng.choice([2.0, 0.25, 3.0, 8.0, 0.1])
            ops.append(["choice", si, req, ck(), k, [1, cont1(), [[_scaled(t, c) for t in row]]], ak])
        elif r < 0.5:      # 2-d rows
            rows = [self._weights_row(rng, k, rng.choice(["dyadic", "dyadic", "zeros", "float"])) for _ in range(n)]
            ops.append(["choice", si, req, ck(), k, [2, cont2(), rows], ak])
            if rng.random() < 0.5 and n:
                cs = [rng.choice([2.0, 0.5, 4.0, 3.0]) for _ in range(n)]
                ops.append(["choice", si, req, ck(), k,
                            [2, cont2(), [[_scaled(t, c) for t in row] for row, c in zip(rows, cs)]], ak])
        elif r < 0.68:     # residual placeholder and the spelled-out row
            if rng.random() < 0.5 or n == 0:
                row = self._unit_row(rng, k)
                ops.append(["choice", si, req, ck(), k, [1, cont1(), [row]], ak])
                ops.append(["choice", si, req, ck(), k, [1, cont1(), [self._spell_residual(rng, row)]], ak])
            else:
                rows = [self._unit_row(rng, k) for _ in range(n)]
                ops.append(["choice", si, req, ck(), k, [2, cont2(), rows], ak])
                ops.append(["choice", si, req, ck(), k, [2, cont2(), [self._spell_residual(rng, row) for row in rows]], ak])
        elif r < 0.86 and n:     # weights built from the simulants' own draws: the draw sits exactly on a bin edge
            form = rng.choice(["d", "0d", "dR", "Rd", "d0R", "half"])
            rows = []
            for i in range(n):
                if form == "d":
                    rows.append([f"d:{i}", f"1-d:{i}"])
                elif form == "0d":
                    rows.append([_h(0.0), f"d:{i}", f"1-d:{i}"])
                elif form == "dR":
                    rows.append([f"d:{i}", "R"])
                elif form == "Rd":
                    rows.append(["R", f"1-d:{i}"])
                elif form == "d0R":
                    rows.append([f"d:{i}", _h(0.0), "R"])
                else:
                    rows.append([f"d:{i}", f"d:{i}"] if i % 2 else [f"1-d:{i}", f"1-d:{i}"])
            ops.append(["choice", si, req, ck(), len(rows[0]), [2, cont2(), rows], ak])
        else:              # refused arguments
            form = rng.choice(["RR", "over", "over-row", "mixed", "rows", "one-row"])
            if form == "RR":
                ops.append(["choice", si, req, ck(), 3, [1, cont(), [[_h(0.25), "R", "R"]]], ak])
            elif form == "over":
                ops.append(["choice", si, req, ck(), 3, [1, cont(), [[_h(0.75), _h(0.5), "R"]]], ak])
            elif form == "over-row" and n:
                rows = [[_h(0.5), "R", _h(0.25)] for _ in range(n)]
                rows[rng.randrange(n)] = [_h(0.5), "R", _h(0.75)]
                ops.append(["choice", si, req, ck(), 3, [2, cont2(), rows], ak])
            elif form == "mixed" and n >= 2:
                rows = [[_h(0.5), "R"] for _ in range(n)]
                rows[rng.randrange(n)] = [_h(0.5), _h(0.5)]
                ops.append(["choice", si, req, ck(), 2, [2, cont2(), rows], ak])
            elif form == "rows":
                rows = [self._unit_row(rng, 3) for _ in range(n + rng.choice([1, 2]))]
                if len(rows) > 1:
                    ops.append(["choice", si, req, ck(), 3, [2, cont2(), rows], ak])
            else:
                ops.append(["choice", si, req, ck(), 3, [2, cont(), [self._unit_row(rng, 3)]], ak])
        if ops and rng.random() < 0.6:
            # the same decision with the choices in another container: list vs Series with its own index
            base = ops[0]
            bk, bo = _opts(base[3])
            other = rng.choice(CKINDS_SERIES) if bk in ("list", "tuple", "array") else "list"
            ops.append(base[:3] + [_with(other, **bo)] + base[4:])
        return ops

    def _rchoice(self, rng, f9=False):
        """`_choice` directly, crafted draws on, just below and just above every bin edge"""
        k = rng.randint(2, 5)
        units = 1 << rng.choice([2, 3, 4])
        cuts = sorted(rng.randint(0, units) for _ in range(k - 1))
        parts = [b - a for a, b in zip([0] + cuts, cuts + [units])]
        if f9:
            parts[0] = 0
            if sum(parts) == 0:
                parts[-1] = units
            units = sum(parts)
            while units & (units - 1):      # keep the total a power of two
                parts[-1] += 1
                units += 1
        nums, c = [], 0
        for p in parts:
            c += p
            e = c * sc.TWO53 // units
            nums += [x for x in (e - 1, e, e + 1) if 0 <= x < sc.TWO53]
        nums += [sc.TWO53 - 1, 1]
        if f9 or (parts[0] > 0 and rng.random() < 0.5):
            nums.append(0)
        rng.shuffle(nums)
        scale = rng.choice([1.0, 1.0 / units, 0.5])
        row = [_h(p * scale) for p in parts]
        if rng.random() < 0.3 and scale == 1.0 / units and not f9:
            row = self._spell_residual(rng, row)
        if rng.random() < 0.5:
            return ["rchoice", nums, k, [1, rng.choice(["list", "array", "series", "series_rev"]), [row]],
                    _with(rng.choice(["list", "array", "tuple"] + CKINDS_SERIES), form=rng.choice(["pos", "kw"]), vals=rng.choice(["str", "int", "mixed"]))]
        return ["rchoice", nums, k, [2, rng.choice(["list", "array", "frame"]), [row for _ in nums]],
                _with(rng.choice(["list", "array"] + CKINDS_SERIES), form=rng.choice(["pos", "kw"]), vals=rng.choice(["str", "int"]))]

    def generate(self, rng: random.Random, i: int, tier: str):
        env = _c02.PROP._env(rng)
        known = list(range(env["pop"])) if env["mode"] == "sim" else list(env["labels"])
        ns = len(env["streams"])
        ops = []
        plain = rng.random() < 0.3           # a third of the cases: ordinary handles, int64 indexes, positional calls only
        for blockno in range(rng.randint(1, 3)):
            si = rng.randrange(ns)
            ak = rng.choice([None, None, 3, "x", "a_b"] + ([] if plain else [rng.choice(_c02.AKS[15:])]))
            req = _c02.PROP._request(rng, known, env["size"], env["crn"], allow_bad=rng.random() < 0.15)
            if rng.random() < 0.1:
                req = []
            n = len(req)
            # the kind of handle is fixed per block (pairs of calls are compared), index object and call form vary per call
            handle = "init" if (not plain and rng.random() < 0.15) else "ord"

            def how(kind, **kw):
                if plain:
                    return _with(kind, **kw)
                return _with(kind, ix=rng.choice(sc.IX_KINDS), form=rng.choice(["pos", "kw"] + (["omit"] if ak is None else [])), h=handle, **kw)

            if env["mode"] == "sim" and known and not plain and rng.random() < 0.3:
                ops.append(["untrack", rng.sample(known, rng.randint(1, max(1, len(known) // 2)))])     # stay registered, still decided for
            valid = n <= env["size"] if handle == "init" else all((s in known) if env["crn"] else (0 <= s < env["size"]) for s in req)
            own = valid and n > 0
            popkind = lambda: how(rng.choice(POPKINDS))     # noqa: E731
            # --- filters
            for _ in range(rng.randint(1, 3)):
                r = rng.random()
                if r < 0.35:
                    toks = self._pvals(rng, 1, own=False)
                    if own and rng.random() < 0.5:
                        toks = [rng.choice(["d:", "d+:", "d-:"]) + str(rng.randrange(n))]
                    kind = rng.choice(["scalar", "scalar", "array0", "npscalar"])
                    ops.append(["filter", si, popkind(), req, [kind, toks], ak])
                    ops.append(["filter", si, popkind(), req, [kind, self._raise_tokens(rng, toks)], ak])
                elif r < 0.85:
                    toks = self._pvals(rng, n, own=own)
                    kind = rng.choice(["list", "tuple", "array", "series", "f32array"])
                    if toks and all(t in ("i:0", "i:1") for t in toks) and rng.random() < 0.5:
                        kind, toks = "boollist", ["b:" + t[2:] for t in toks]
                    ops.append(["filter", si, popkind(), req, [kind, toks], ak])
                    ops.append(["filter", si, popkind(), req, [rng.choice(["list", "array", "series"]), self._raise_tokens(rng, toks)], ak])
                elif r < 0.93:
                    m = max(0, n + rng.choice([-1, 1, 2]))
                    ops.append(["filter", si, popkind(), req, [rng.choice(["list", "tuple", "array"]), self._pvals(rng, m, own=False)], ak])
                else:
                    ops.append(["filter", si, popkind(), req, ["series_perm", self._pvals(rng, n, own=False)], ak])
            # --- rates
            if rng.random() < 0.55:
                # integer-typed rates: python ints, lists / tuples / arrays / Series of integer dtype, and mixtures with floats;
                # next to them the same rates lowered by a float (monotonicity across the dtypes) and raised
                IR = [0, 1, 1, 2, 5, 249, 250, 251, 400]
                pk = popkind()
                if rng.random() < 0.4:
                    v = rng.choice(IR)
                    kind = rng.choice(["scalar", "array0"])
                    ops.append(["rate", si, pk, req, [kind, [_i(v)]], ak])
                    ops.append(["rate", si, popkind(), req, [rng.choice(["scalar", "array0"]), [_h(v * rng.choice([0.5, 0.25, 1.0]))]], ak])
                    ops.append(["rate", si, popkind(), req, [kind, [_i(v + rng.choice([0, 1, 3]))]], ak])
                else:
                    ints = [rng.choice(IR) for _ in range(n)]
                    kind = rng.choice(["list", "tuple", "array", "series"])
                    toks = [_i(v) for v in ints]
                    if rng.random() < 0.25 and n:
                        j = rng.randrange(n)
                        toks[j] = _h(float(ints[j]))            # one float among the ints: the whole array is float
                    ops.append(["rate", si, pk, req, [kind, toks], ak])
                    ops.append(["rate", si, popkind(), req, [rng.choice(["list", "array", "series"]), [_h(v * rng.choice([0.5, 1.0, 0.75])) for v in ints]], ak])
                    ops.append(["rate", si, popkind(), req, [rng.choice(["list", "tuple", "array", "series"]), self._raise_tokens(rng, toks)], ak])
            if rng.random() < 0.7:
                rates = [rng.choice([0.0, 0.0, 0.125, 1.0, 3.0, 40.0, 250.0, 251.0, 1e6, rng.random(), rng.random() * 5]) for _ in range(n)]
                kind = rng.choice(["list", "array", "series", "tuple", "f32array", "f32series"])
                pk = popkind()
                ops.append(["rate", si, pk, req, [kind, [_h(x) for x in rates]], ak])
                ops.append(["rate", si, pk, req, [kind, [_h(x + rng.choice([0.0, 0.5, 2.0 ** -20, 300.0])) for x in rates]], ak])
                if rng.random() < 0.5:
                    ops.append(["rate", si, popkind(), req, [rng.choice(["scalar", "array0", "npscalar", "f32scalar"]), [_h(rng.choice([0.0, 0.25, 2.0, 100.0, 120.0, 1000.0]))]], ak])
            if rng.random() < 0.3:
                # float32 rates with entries from 88 upwards (F32): ordinary inputs, converted in float64
                big = [rng.choice([0.0, 0.5, 3.0, 88.0, 100.0, 120.0, 250.0, 300.0, 1e6]) for _ in range(n)]
                k32 = rng.choice(["f32array", "f32series", "f32scalar"])
                toks = [_h(rng.choice([100.0, 120.0, 250.0, 1e6]))] if k32 == "f32scalar" else [_h(x) for x in big]
                ops.append(["rate", si, popkind(), req, [k32, toks], ak])
                ops.append(["rate", si, popkind(), req, ["scalar" if k32 == "f32scalar" else "array", [_h(float.fromhex(t[2:]) * 0.5) for t in toks]], ak])
            # --- choices
            for _ in range(rng.randint(1, 3)):
                ops += self._choice_ops(rng, si, req, ak, how)
            # --- LESSONS.md 12: the same decision again on the SAME handle at the same time and additional key - verbatim, reversed,
            # permuted, on a covered sub-index, on the survivors of a filter - after k operations on other handles / keys / streams
            uniq = list(dict.fromkeys(req))
            if valid and len(uniq) >= 2 and rng.random() < (0.8 if handle == "init" else 0.45):
                ident = f"b{blockno}"
                base_req = uniq if rng.random() < 0.75 else req      # the remembered decision: mostly over unique labels
                first = rng.choice(["filter", "filter", "rate", "choice"])
                if first == "filter":
                    ops.append(["filter", si, how(rng.choice(POPKINDS), id=ident), base_req, ["scalar", [_h(rng.choice([0.5, 0.75, 0.25]))]], ak])
                elif first == "rate":
                    ops.append(["rate", si, how(rng.choice(POPKINDS), id=ident), base_req, ["scalar", [_h(rng.choice([0.5, 1.0, 2.0]))]], ak])
                else:
                    ops.append(["choice", si, base_req, how(rng.choice(["list", "array", "series_rot"])), 3, None, ak])
                for rep_no in range(rng.randint(1, 3)):
                    for _ in range(rng.choice([0, 0, 1, 2, 3])):      # intervening operations: another handle / stream / key, `_choice`
                        w = rng.random()
                        h2 = handle if w < 0.35 else ("ord" if handle == "init" else "init")
                        s2 = si if w < 0.7 or ns == 1 else rng.choice([k_ for k_ in range(ns) if k_ != si])
                        ak2 = rng.choice(["other", 7, ak]) if w < 0.35 else ak
                        if w > 0.9:
                            ops.append(self._rchoice(rng))
                        else:
                            ops.append(["filter", s2, _with(rng.choice(POPKINDS), h=h2, form=rng.choice(["pos", "kw"])), base_req,
                                        ["scalar", [_h(rng.choice([0.0, 0.5, 1.0]))]], ak2])
                    v = rng.choice(["same", "rev", "perm", "sub", "sub"] + (["surv", "surv", "surv-rev", "surv-odd"] if first != "choice" else []))
                    if v == "same":
                        r2 = list(base_req)
                    elif v == "rev":
                        r2 = base_req[::-1]
                    elif v == "perm":
                        r2 = list(base_req)
                        rng.shuffle(r2)
                    elif v == "sub":      # covered, not a prefix: drop the first label, keep a random part of the rest in another order
                        r2 = rng.sample(uniq[1:], rng.randint(1, len(uniq) - 1))
                    else:
                        r2 = {"surv": ident}
                        if v == "surv-rev":
                            r2["rev"] = True
                        if v == "surv-odd":
                            r2["odd"] = True
                    k2 = rng.choice(["filter", "rate", "choice"])
                    if k2 == "filter":
                        ops.append(["filter", si, how(rng.choice(POPKINDS)), r2, ["scalar", [_h(rng.choice([0.5, 0.75, 0.25, 1.0]))]], ak])
                    elif k2 == "rate":
                        ops.append(["rate", si, how(rng.choice(POPKINDS)), r2, ["scalar", [_h(rng.choice([0.5, 1.0, 2.0]))]], ak])
                    else:
                        ops.append(["choice", si, r2, how(rng.choice(["list", "tuple", "series_rot", "series_str"])), rng.choice([2, 3, 4]),
                                    rng.choice([None, [1, "list", [[_h(0.5), _h(0.25), _h(0.25)]]]]), ak])
                        if ops[-1][5] is not None:
                            ops[-1][4] = 3
            if rng.random() < 0.4:
                ops.append(self._rchoice(rng, f9=rng.random() < 0.15))
            if rng.random() < 0.6:
                ops.append(["step"])
        return {"env": env, "ops": ops}

    def boundary(self):
        out = []
        H = _h
        for mode, crn, clock in (("direct", False, "simple"), ("direct", True, "datetime"), ("sim", True, "simple"), ("sim", False, "datetime")):
            env = {"mode": mode, "crn": crn, "clock": clock, "size": 101, "pop": 6, "seed": [2, None], "streams": [["dp", None], ["a_b", None]]}
            lab = [0, 1, 2, 3, 4, 5]
            if mode == "direct":
                lab = [40, 7, 300, 12, 99, 5] if crn else [0, 5, 17, 50, 99, 100]
                env["labels"] = lab
            n = len(lab)
            req = [lab[3], lab[0], lab[5], lab[1], lab[4], lab[2]]
            dup = [lab[1], lab[1], lab[4], lab[1]]
            own = [f"d:{i}" for i in range(n)]
            ops = []
            for pk in POPKINDS:
                ops += [["filter", 0, pk, req, ["scalar", [H(0.0)]], None], ["filter", 0, pk, req, ["scalar", [H(1.0)]], None],
                        ["filter", 0, pk, req, ["scalar", [H(1.5)]], None], ["filter", 0, pk, req, ["scalar", [H(0.5)]], None],
                        ["filter", 0, pk, req, ["list", own], None], ["filter", 0, pk, req, ["array", [f"d+:{i}" for i in range(n)]], None],
                        ["filter", 0, pk, req, ["series", [f"d-:{i}" for i in range(n)]], None],
                        ["filter", 0, pk, req, ["scalar", ["d:2"]], None], ["filter", 0, pk, req, ["scalar", ["d+:2"]], None],
                        ["filter", 0, pk, [], ["scalar", [H(1.0)]], None], ["filter", 0, pk, [], ["list", [H(1.0)]], None],
                        ["filter", 0, pk, dup, ["list", [H(0.0), H(1.0), H(0.5), H(1.0)]], "x"],
                        ["filter", 0, pk, req, ["list", [H(0.5)] * (n - 1)], None], ["filter", 0, pk, req, ["series_perm", [H(0.5)] * n], None],
                        # a palindromic request: the reversed Series is identically labelled and is compared position by position
                        ["filter", 0, pk, [lab[1], lab[4], lab[1]], ["series_perm", [H(0.0), H(1.0), H(1.0)]], None],
                        ["filter", 0, pk, req, ["tuple", [H(0.5)]], None], ["filter", 0, pk, req, ["list", [H(0.5)]], None],
                        ["rate", 0, pk, req, ["scalar", [H(0.0)]], None], ["rate", 0, pk, req, ["scalar", [H(1000.0)]], None],
                        ["rate", 0, pk, req, ["list", [H(x) for x in (0.0, 0.1, 1.0, 5.0, 250.0, 300.0)]], None],
                        # integer-typed arguments (python int, integer-dtype list / tuple / ndarray / Series) next to smaller float ones
                        ["rate", 0, pk, req, ["scalar", [H(0.5)]], None], ["rate", 0, pk, req, ["scalar", [_i(1)]], None],
                        ["rate", 0, pk, req, ["scalar", [_i(2)]], None], ["rate", 0, pk, req, ["array0", [_i(1)]], None],
                        ["rate", 0, pk, req, ["scalar", [_i(0)]], None], ["rate", 0, pk, req, ["scalar", [_i(250)]], None],
                        ["rate", 0, pk, req, ["scalar", [_i(251)]], None], ["rate", 0, pk, req, ["scalar", [_i(400)]], None],
                        ["rate", 0, pk, req, ["list", [H(x) for x in (0.0, 0.5, 1.0, 2.5, 100.0, 125.0)]], None],
                        ["rate", 0, pk, req, ["list", [_i(x) for x in (0, 1, 2, 5, 249, 250)]], None],
                        ["rate", 0, pk, req, ["tuple", [_i(x) for x in (1, 1, 2, 5, 251, 400)]], None],
                        ["rate", 0, pk, req, ["array", [_i(x) for x in (0, 1, 2, 5, 249, 250)]], None],
                        ["rate", 0, pk, req, ["series", [_i(x) for x in (1, 2, 2, 5, 250, 400)]], None],
                        ["rate", 0, pk, req, ["array", [_i(1), H(1.0), _i(2), _i(5), _i(251), _i(0)]], None],
                        ["filter", 0, pk, req, ["scalar", [_i(0)]], None], ["filter", 0, pk, req, ["scalar", [_i(1)]], None],
                        ["filter", 0, pk, req, ["array0", [_i(1)]], None], ["filter", 0, pk, req, ["scalar", [_i(2)]], None],
                        ["filter", 0, pk, req, ["list", [_i(x) for x in (0, 1, 0, 1, 2, 0)]], None],
                        ["filter", 0, pk, req, ["array", [_i(x) for x in (0, 1, 0, 1, 2, 0)]], None],
                        ["filter", 0, pk, req, ["series", [_i(x) for x in (1, 1, 0, 0, 1, 3)]], None],
                        ["filter", 0, pk, req, ["tuple", [_i(x) for x in (1, 0, 0, 0, 1, 1)]], None]]
            bad = 1000 if crn else 101
            ops += [["filter", 0, "index", [lab[0], bad], ["scalar", [H(1.0)]], None],
                    ["choice", 0, [lab[0], bad], "list", 2, None, None]]
            ops += [["choice", 1, req, "list", 2, None, None], ["choice", 1, req, "array", 3, None, "x"], ["choice", 1, [], "list", 2, None, None],
                    ["choice", 1, req, "list", 2, [2, "list", [[f"d:{i}", f"1-d:{i}"] for i in range(n)]], None],
                    ["choice", 1, req, "list", 2, [2, "array", [[f"d:{i}", "R"] for i in range(n)]], None],
                    ["choice", 1, req, "tuple", 3, [2, "list", [[H(0.0), f"d:{i}", f"1-d:{i}"] for i in range(n)]], None],
                    ["choice", 1, req, "series", 3, [2, "list", [[f"d:{i}", H(0.0), "R"] for i in range(n)]], None],
                    ["choice", 1, req, "list", 3, [1, "list", [[H(0.25), H(0.0), H(0.75)]]], None],
                    ["choice", 1, req, "list", 3, [1, "list", [[H(1.0), H(0.0), H(3.0)]]], None],
                    ["choice", 1, req, "list", 3, [1, "list", [[_i(1), _i(0), _i(3)]]], None],
                    # the choices as a Series with its own index: the option at POSITION k counts, whatever its label
                    *[["choice", 1, req, ckd, 3, [1, "list", [[H(0.25), H(0.0), H(0.75)]]], None] for ckd in CKINDS_SERIES],
                    *[["choice", 1, req, ckd, 3, [1, "list", [[H(0.0), H(0.5), H(0.5)]]], None] for ckd in CKINDS_SERIES],
                    *[["choice", 1, req, ckd, 2, None, None] for ckd in CKINDS_SERIES],
                    *[["choice", 1, req, ckd, 3, [2, "list", [[f"d:{i}", H(0.0), "R"] for i in range(n)]], None] for ckd in ("series_rot", "series_gap", "series_str")],
                    *[["choice", 1, req, ckd, 2, [2, "array", [[_i(1), _i(3)], [_i(0), _i(4)], [_i(2), _i(2)], [_i(4), _i(0)], [_i(3), _i(1)], [_i(1), _i(1)]]], None]
                      for ckd in ("series_rot", "series_rev", "series_big")],
                    ["choice", 1, req, "array", 3, [1, "array", [[_i(1), _i(0), _i(3)]]], None],
                    ["choice", 1, req, "list", 3, [1, "tuple", [[_i(2), _i(0), _i(6)]]], None],
                    ["choice", 1, req, "list", 2, [2, "array", [[_i(1), _i(3)], [_i(0), _i(4)], [_i(2), _i(2)], [_i(4), _i(0)], [_i(3), _i(1)], [_i(1), _i(1)]]], None],
                    ["choice", 1, req, "list", 2, [1, "list", [[_i(0), "R"]]], None], ["choice", 1, req, "list", 2, [1, "array", [["R", _i(1)]]], None],
                    ["choice", 1, req, "list", 2, [1, "list", [[_i(2), "R"]]], None],
                    ["choice", 1, req, "list", 3, [1, "list", [[H(0.25), H(0.0), "R"]]], None],
                    ["choice", 1, req, "list", 3, [1, "list", [["R", H(0.0), H(0.75)]]], None],
                    ["choice", 1, req, "list", 3, [1, "array", [[H(0.25), "R", "R"]]], None],
                    ["choice", 1, req, "list", 3, [1, "list", [[H(0.75), "R", H(0.5)]]], None],
                    ["choice", 1, req, "list", 2, [2, "list", [[H(0.5), "R"]] * (n - 1) + [[H(0.5), H(0.5)]]], None],
                    ["choice", 1, req, "list", 2, [2, "list", [[H(0.5), H(0.5)]] * (n + 1)], None],
                    ["choice", 1, req, "list", 2, [2, "list", [[H(0.25), H(0.75)]]], None],
                    ["choice", 1, req, "list", 2, [1, "list", [[H(0.0), H(0.0), H(1.0)]]], None],
                    ["choice", 1, dup, "list", 2, [2, "list", [[H(1.0), H(0.0)], [H(0.0), H(1.0)], [H(0.5), H(0.5)], [H(0.0), H(2.0)]]], None],
                    ["step"],
                    ["filter", 0, "series", req, ["list", own], None], ["choice", 1, req, "list", 2, [2, "list", [[f"d:{i}", "R"] for i in range(n)]], None]]
            out.append({"env": env, "ops": ops})
            # ---- LESSONS.md audit: every kind of handle, call form, index object, additional key, container and dtype
            W = _with
            a2 = []
            half = [H(0.5)] * n
            for h in ("ord", "init"):
                for ix in sc.IX_KINDS:
                    for form in ("pos", "kw", "omit"):
                        a2 += [["filter", 0, W("series", ix=ix, form=form, h=h), req, ["list", own], None],
                               ["filter", 0, W("index", ix=ix, form=form, h=h), req, ["scalar", [H(0.5)]], None],
                               ["choice", 1, req, W("series_rot", ix=ix, form=form, h=h), 2, [2, "list", [[f"d:{i}", "R"] for i in range(n)]], None],
                               ["choice", 1, req, W("list", ix=ix, form=form, h=h), 3, None, None]]
                a2 += [["filter", 0, W("frame", h=h), dup, ["list", [H(0.0), H(1.0), H(0.5), H(1.0)]], "x"],
                       ["rate", 0, W("frame0", h=h, form="kw"), req, ["array", [_i(x) for x in (0, 1, 2, 5, 249, 250)]], None],
                       ["rate", 0, W("index", h=h), req, ["scalar", [H(0.5)]], None], ["rate", 0, W("index", h=h, form="kw"), req, ["scalar", [_i(1)]], None],
                       ["filter", 0, W("index", h=h), [], ["scalar", [H(1.0)]], None], ["choice", 1, [], W("list", h=h), 2, None, None]]
            for ak in _c02.AKS[15:] + [0, "", -3]:
                a2 += [["filter", 0, W("series", form="kw"), req, ["scalar", [H(0.5)]], ak], ["choice", 1, req, W("series_gap", form="kw"), 2, None, ak]]
            a2 += [["filter", 0, "index", req, ["npscalar", [H(0.5)]], None], ["filter", 0, "series", req, ["npscalar", ["d:1"]], None],
                   ["filter", 0, "frame", req, ["f32array", [H(0.5), H(0.25), H(1.0), H(0.0), "d:4", H(0.75)]], None],
                   ["filter", 0, "index", req, ["boollist", ["b:1", "b:0", "b:1", "b:1", "b:0", "b:0"]], None],
                   ["rate", 0, "series", req, ["f32array", [H(x) for x in (0.0, 0.5, 1.0, 5.0, 40.0, 80.0)]], None],
                   ["rate", 0, "series", req, ["npscalar", [H(2.0)]], None],
                   # F32 (repaired): float32 rates from ~88 upwards used to underflow exp() in float32 and raise
                   ["rate", 0, "index", req, ["f32array", [H(x) for x in (0.0, 0.5, 1.0, 5.0, 100.0, 300.0)]], None],
                   ["rate", 0, "series", req, ["f32series", [H(x) for x in (0.25, 88.0, 120.0, 250.0, 251.0, 1e6)]], None],
                   ["rate", 0, "frame", req, ["f32scalar", [H(120.0)]], None], ["rate", 0, "frame0", req, ["f32scalar", [H(100.0)]], None],
                   ["rate", 0, "index", req, ["f32scalar", [H(0.5)]], None], ["rate", 0, "index", req, ["array", [H(x) for x in (0.0, 0.25, 0.5, 2.5, 50.0, 150.0)]], None],
                   ["filter", 0, "series", req, ["f32series", [H(0.5), H(0.25), H(1.0), H(0.0), "d:4", H(0.75)]], None]]
            for cont in ("series", "series_rev"):
                a2 += [["choice", 1, req, "list", 3, [1, cont, [[H(0.25), H(0.0), H(0.75)]]], None],
                       ["choice", 1, req, "series_rot", 3, [1, cont, [[H(0.25), "R", H(0.5)]]], None],
                       ["choice", 1, req, "list", 3, [1, cont, [[_i(1), _i(0), _i(3)]]], None]]
            a2 += [["choice", 1, req, "list", 2, [2, "frame", [[f"d:{i}", f"1-d:{i}"] for i in range(n)]], None],
                   ["choice", 1, req, "series_rev", 2, [2, "frame", [[f"d:{i}", "R"] for i in range(n)]], None],
                   ["choice", 1, req, "tuple", 3, [2, "frame", [[_i(1), _i(0), _i(3)]] * n], None]]
            for vals in ("int", "mixed"):
                for ckd in ("list", "tuple", "array", "series", "series_rot", "series_str"):
                    a2 += [["choice", 1, req, W(ckd, vals=vals), 3, [1, "list", [[H(0.25), H(0.0), H(0.75)]]], None]]
            for ckd in ("list", "array", "series_big", "series_str"):        # a single option
                a2 += [["choice", 1, req, ckd, 1, None, None], ["choice", 1, req, ckd, 1, [1, "list", [[H(0.5)]]], None],
                       ["choice", 1, req, ckd, 1, [1, "list", [["R"]]], None], ["choice", 1, req, ckd, 1, [2, "array", [[_i(3)]] * n], None]]
            if mode == "sim":
                a2 += [["untrack", [lab[1], lab[4]]], ["filter", 0, "series", req, ["list", own], None], ["filter", 0, "frame", [lab[4], lab[1]], ["scalar", [H(1.0)]], None],
                       ["rate", 0, "index", req, ["scalar", [_i(1)]], None], ["choice", 1, req, "series_rot", 2, [2, "list", [[f"d:{i}", "R"] for i in range(n)]], None],
                       ["choice", 1, [lab[1]], "list", 2, None, None],
                       ["filter", 0, W("frame", ix="pop"), lab, ["list", half], None], ["choice", 1, lab, W("series_gap", ix="pop", form="kw"), 3, None, "x"]]
            out.append({"env": env, "ops": a2})
            # ---- LESSONS.md 12: cascades of decisions about nested sub-populations and exact / permuted repeats on ONE handle at one
            # time and additional key (filter -> filter the survivors -> choose among the survivors), with other handles in between
            a3 = []
            for h in ("ord", "init"):
                o_ = "init" if h == "ord" else "ord"
                a3 += [["filter", 0, W("series", h=h, id=f"{h}1"), req, ["scalar", [H(0.7)]], "k"],
                       ["filter", 0, W("index", h=h, id=f"{h}2"), {"surv": f"{h}1"}, ["scalar", [H(0.7)]], "k"],
                       ["choice", 0, {"surv": f"{h}2"}, W("list", h=h), 3, None, "k"],
                       ["rate", 0, W("frame", h=h, form="kw"), {"surv": f"{h}1", "rev": True}, ["scalar", [H(1.0)]], "k"],
                       ["choice", 0, {"surv": f"{h}1", "odd": True}, W("series_rot", h=h), 2, [1, "list", [[H(0.5), H(0.5)]]], "k"],
                       ["filter", 0, W("index", h=h), req, ["scalar", [H(0.7)]], "k"],                       # verbatim
                       ["filter", 0, W("index", h=h), req[::-1], ["scalar", [H(0.7)]], "k"],                 # reversed
                       ["filter", 0, W("frame0", h=h), [req[3], req[1]], ["scalar", [H(0.7)]], "k"],         # covered, not a prefix
                       ["choice", 0, req[1:], W("array", h=h, form="kw"), 2, None, "k"],
                       ["rate", 0, W("series", h=h, id=f"{h}3"), req, ["scalar", [H(0.5)]], "k2"],
                       ["filter", 0, W("index", h=o_), req, ["scalar", [H(0.5)]], "k2"],                     # another handle in between
                       ["filter", 1, W("index", h=h), req, ["scalar", [H(0.5)]], "k"],                       # another stream / key
                       ["rate", 0, W("index", h=h), {"surv": f"{h}3"}, ["scalar", [H(0.5)]], "k2"],
                       ["choice", 0, {"surv": f"{h}3", "rev": True}, W("tuple", h=h), 3, [1, "list", [[H(0.25), H(0.25), H(0.5)]]], "k2"],
                       ["choice", 0, req, W("list", h=h, id=f"{h}4"), 2, None, None],
                       ["choice", 0, req[::-1], W("list", h=h), 2, None, None], ["choice", 0, [req[4], req[0], req[2]], W("list", h=h), 2, None, None],
                       ["filter", 0, W("index", h=h), [req[5], req[4]], ["scalar", [H(0.5)]], None]]
            a3 += [["step"]] + [op for op in a3[:9]]
            out.append({"env": env, "ops": a3})
        # `_choice` directly: every bin edge, one numerator below and above, first and last representable draw
        T = sc.TWO53
        e = lambda a, b: a * T // b    # noqa: E731
        edge = lambda a, b: [e(a, b) - 1, e(a, b), e(a, b) + 1]    # noqa: E731
        env = {"mode": "direct", "crn": False, "clock": "simple", "size": 17, "pop": 2, "seed": [0, None], "streams": [["dp", None]], "labels": [0, 1]}
        out.append({"env": env, "ops": [
            ["rchoice", [1, T - 1] + edge(1, 4) + edge(1, 2) + edge(3, 4), 4, [1, "list", [[H(0.25)] * 4]], "list"],
            *[["rchoice", [1, T - 1] + edge(1, 4) + edge(1, 2) + edge(3, 4), 4, [1, "list", [[H(1.0), H(1.0), H(0.0), H(2.0)]]], ckd] for ckd in CKINDS_SERIES],
            ["rchoice", [0, 1, T - 1] + edge(1, 4) + edge(1, 2), 4, [1, "list", [[H(1.0), H(1.0), H(0.0), H(2.0)]]], "array"],
            ["rchoice", [1, T - 1] + edge(1, 2), 3, [1, "list", [[H(0.0), H(4.0), H(4.0)]]], "list"],
            ["rchoice", [1, 2, T - 1] + edge(1, 8), 3, [1, "array", [[H(0.125), "R", H(0.0)]]], "tuple"],
            ["rchoice", [0, 5, T - 1], 3, None, "list"],
            ["rchoice", [0, T - 1] + edge(1, 2), 2, None, "list"],
            ["rchoice", [T - 1, 1], 2, [1, "list", [[H(0.25), H(0.25), H(0.5)]]], "list"],      # more weights than choices: IndexError
            ["rchoice", [1, 2], 3, [1, "list", [[H(0.25), H(0.25), H(0.5)]]], "list"],          # … unless nobody lands there
            ["rchoice", [], 2, [1, "list", [[H(0.5), H(0.5)]]], "list"],
        ]})
        # F9 (known finding): a draw of exactly 0.0 with a leading zero weight picks the zero-weight option
        out.append({"env": env, "ops": [
            ["rchoice", [0, 1], 2, [1, "list", [[H(0.0), H(1.0)]]], "list"],
            ["rchoice", [0, 0, 1], 4, [2, "list", [[H(0.0), H(0.0), H(3.0), H(1.0)], [H(0.5), H(0.0), H(0.5), H(0.0)], [H(0.0), H(0.0), H(3.0), H(1.0)]]], "list"],
        ]})
        return out

    def shrink(self, case):
        ops = case["ops"]
        size = len(ops) // 2
        while size >= 1:                      # delta debugging: drop halves, quarters, … single ops
            for i in range(0, len(ops), size):
                yield dict(case, ops=ops[:i] + ops[i + size:])
            size //= 2
        for i, op in enumerate(ops):
            if op[0] == "rchoice" and len(op[1]) > 1 and (op[3] is None or op[3][0] == 1):
                for j in range(len(op[1])):
                    yield dict(case, ops=ops[:i] + [[op[0], op[1][:j] + op[1][j + 1:]] + op[2:]] + ops[i + 1:])

    # ------------------------------------------------------------------ implementation
    def run_impl(self, case):
        return _run_ops(case)

    # ------------------------------------------------------------------ model
    def _components(self, case, op, o, opts):
        st = case["env"]["streams"][op[1]]
        sd = case["env"]["seed"]
        base = str(sd[0]) + (str(sd[1]) if sd[1] is not None else "")
        t = sc.expected_tstr(case["env"], o["step"])          # from the configuration, not read back from the clock
        if opts.get("h") == "init":
            return "crn.init", t, sc.ak_str(op[-1]), base
        return st[0], t, sc.ak_str(op[-1]), base if st[1] is None else str(st[1])

    @staticmethod
    def _weights_token(whx):
        """(token, Q) for the driver: integers over the common dyadic unit of the matrix"""
        dim, rows = whx
        vals = [Fraction(float.fromhex(c)) for r in rows for c in r if c != "R"]
        u = sc.dyadic_unit(vals + [Fraction(1)])
        Q = 1 / u
        enc = lambda r: ",".join("R" if c == "R" else str(int(Fraction(float.fromhex(c)) / u)) for c in r)   # noqa: E731
        if dim == 1:
            return f"1:{int(Q)}:{enc(rows[0])}"
        return f"2:{int(Q)}:" + ";".join(enc(r) for r in rows)

    def model_lines(self, case, obs):
        env = case["env"]
        L = [f"size {obs['size']}", f"crn {1 if env['crn'] else 0}"]
        if env["crn"] and obs["pos0"] is not None:
            L.append(sc.pos_line(obs["pos0"]))
        seen = set()
        for op, o in zip(case["ops"], obs["ops"]):
            op, opts = _split_op(op)
            op = _concrete(op, o)
            kind = op[0]
            pre = "i" if opts.get("h") == "init" else ""
            if kind == "step" or o.get("r") in ("skip", None):
                continue
            if kind == "rchoice":
                w = "none" if op[3] is None else self._weights_token((op[3][0], o["whx"]))
                L.append(f"rchoice {sc.TWO53} {','.join(map(str, op[1])) or '-'} {op[2]} {w}")
                continue
            if o.get("ks") is not None:
                L += sc.blocks_lines(obs["blocks"], seen, o["ks"])
            k, t, a, sd = self._components(case, op, o, opts)
            head = f"{sc.hx(k)} {sc.hx(t)} {sc.hx(a)} {sc.hx(sd)}"
            if kind in ("filter", "rate"):
                req = op[3]
                pk = op[4][0]
                if kind == "rate" and pk == "tuple":
                    pk = "array"          # rate_to_probability returns an ndarray whatever sequence it was given
                ps = _fr(o["phx"])
                e = max([0] + [p.denominator.bit_length() - 1 for p in ps])
                shift = max(0, e - 53)
                D = 1 << (53 + shift)
                ns = [str(int(p * D)) for p in ps]
                if pk in SCALARS:
                    tok = f"s:{ns[0]}"
                elif pk in ("series", "series_perm", "f32series"):
                    if pk == "series_perm":
                        ns = ns[::-1]       # the Series carries the values in the (reversed) order of its index
                    tok = f"x:{','.join(map(str, _prob_index(pk, req))) or '-'}:{','.join(ns) or '-'}"
                elif pk == "tuple":
                    tok = f"t:{','.join(ns) or '-'}"
                else:
                    tok = f"l:{','.join(ns) or '-'}"
                L.append(f"{pre}filter {head} {shift} {','.join(map(str, req)) or '-'} {tok}")
            else:
                req = op[2]
                if "whx" not in o and op[5] is not None:
                    # the draw itself was refused before the weights could be built: compared as a refusal
                    L.append(f"{pre}choice {head} {','.join(map(str, req)) or '-'} {op[4]} none")
                    continue
                w = "none" if op[5] is None else self._weights_token((op[5][0], o["whx"]))
                L.append(f"{pre}choice {head} {','.join(map(str, req)) or '-'} {op[4]} {w}")
        return L

    def _near(self, op, o):
        """per simulant: True when the decision may legitimately differ between exact and float arithmetic"""
        op, _ = _split_op(op)
        kind = op[0]
        wspec = op[3] if kind == "rchoice" else op[5]
        k = op[2] if kind == "rchoice" else op[4]
        ds = _fr(o["dhx"])
        st, rows = matrix_status(o.get("whx"), wspec[0] if wspec else 1, len(ds), k)
        if st != "ok":
            return [False] * len(ds)
        out = []
        for row, d in zip(rows, ds):
            W = sum(row)
            if W == 0 or row_exact(row):
                out.append(False)
                continue
            _, gap = expected_pick(row, d)
            out.append(gap < EPS)
        return out

    def compare(self, case, obs, replies):
        env = case["env"]
        dis = []
        it = iter(replies)
        next(it), next(it)
        if env["crn"] and obs["pos0"] is not None:
            next(it)
        seen = set()
        for n, (op, o) in enumerate(zip(case["ops"], obs["ops"])):
            op, opts = _split_op(op)
            op = _concrete(op, o)
            kind = op[0]
            if kind == "step" or o.get("r") in ("skip", None):
                continue
            if kind != "rchoice" and o.get("ks") is not None and o["ks"] not in seen and o["ks"] in obs["blocks"]:
                seen.add(o["ks"])
                if next(it) != "ok":
                    dis.append(f"op #{n}: model refused the block")
            r = next(it)
            if r.startswith("bad-op") or r == "err noblock":
                dis.append(f"op #{n} {str(op)[:120]}: model says {r}")
                continue
            if o["r"] != "ok":
                want = {"err:ValueError": ("length", "labels", "shape"), "err:IndexError": ("lookup", "index"),
                        "err:KeyError": ("lookup",), "err:RandomnessError": ("lookup", "residualCount", "residualSum"),
                        "err:FloatingPointError": ("zeroRow",)}.get(o["r"], ())
                if not (r.startswith("err ") and r[4:] in want):
                    dis.append(f"op #{n} {str(op)[:160]}: impl {o['r']}, model {r[:80]}")
                continue
            if not r.startswith("ok "):
                dis.append(f"op #{n} {str(op)[:160]}: impl ok, model {r}")
                continue
            m = [] if r[3:] == "-" else [int(x) for x in r[3:].split(",")]
            if kind in ("filter", "rate"):
                if m != o["kept"]:
                    dis.append(f"op #{n} {str(op)[:160]}: kept impl {o['kept']}, model {m}")
            else:
                near = self._near(op, o)
                bad = [i for i, (a, b) in enumerate(zip(o["picks"], m)) if a != b and not near[i]]
                want_idx = list(range(len(op[1]))) if kind == "rchoice" else op[2]
                if o["idx"] != want_idx:
                    dis.append(f"op #{n} {str(op)[:160]}: result indexed by {o['idx']}, request {want_idx}")
                if bad or len(m) != len(o["picks"]):
                    dis.append(f"op #{n} {str(op)[:160]}: picks impl {o['picks']}, model {m} (differ at {bad})")
        return dis

    # ------------------------------------------------------------------ oracle
    def oracle(self, case, obs):
        env = case["env"]
        F = []

        def fail(sig, msg):
            F.append({"sig": sig, "msg": msg})

        known = set(range(env["pop"])) if env["mode"] == "sim" else set(env.get("labels", []))
        size = sc.expected_size(env)             # from the configuration (LESSONS.md 1)
        if obs["size"] != size:
            fail("block-size", f"the index map has size {obs['size']}, configured {env['size']} with population {env['pop']}")
        filters, choices = [], []

        def valid(req, opts):
            """every member can be given a draw: registered / inside the block; an initialising stream takes anybody, positionally"""
            if opts.get("h") == "init":
                return len(req) <= size
            return all((s in known) if env["crn"] else (0 <= s < size) for s in req)

        for n, (op, o) in enumerate(zip(case["ops"], obs["ops"])):
            op, opts = _split_op(op)
            op = _concrete(op, o)
            kind = op[0]
            if kind == "rate" and o.get("conv_err"):
                rs = [float.fromhex(h) for h in o["vhx"]]
                if op[4][0] in F32KINDS and o["conv_err"] == "err:FloatingPointError" and any(r > 87 for r in rs):
                    # F32 (repaired by a97e775c, `np.array(rate, dtype=float)`): a float32 rate above ~88 (clipped at 250) made exp(-r)
                    # underflow in float32 and vivarium's numpy.seterr(all="raise") turned that into FloatingPointError
                    fail("rate-float32-underflow", f"op #{n} {str(op)[:160]}: rate_to_probability raised {o['conv_err']} for float32 rates {rs}")
                elif all(math.isfinite(r) and r >= 0 for r in rs):
                    fail("rate-conversion-refused", f"op #{n} {str(op)[:160]}: rate_to_probability raised {o['conv_err']} for rates {rs}")
                continue
            if kind == "step" or o.get("r") in ("skip", None):
                continue
            if "t" in o and o["t"] != sc.expected_tstr(env, o["step"]):
                fail("clock-string", f"op #{n}: the clock reads {o['t']!r} after {o['step']} steps, configured {sc.expected_tstr(env, o['step'])!r}")
            tag = f"op #{n} {str(op)[:200]} {opts or ''}"
            if kind in ("filter", "rate"):
                _, si, popkind, req, (pkind, toks), ak = op
                if opts.get("h") == "init":
                    si = "init"
                if kind == "rate" and pkind == "tuple":
                    pkind = "array"
                nreq = len(req)
                valid_sims = valid(req, opts)
                if nreq == 0:
                    if o["r"] != "ok":
                        fail("filter-refused", f"{tag}: {o['r']} for an empty population")
                    elif o["kept"] or o["type"] != o["intype"]:
                        fail("filter-empty-population", f"{tag}: returned {o['type']} {o['kept']}")
                    continue
                if not valid_sims:
                    if o["r"] == "ok":
                        fail("unknown-simulant-accepted", f"{tag}: kept {o['kept']}")
                    continue
                m = len(toks)
                ok_arg = pkind in SCALARS or (pkind == "series_perm" and m == nreq and req == req[::-1]) or \
                    (pkind not in ("series_perm",) and m == nreq) or (pkind == "tuple" and m == 1)
                if not ok_arg:
                    continue            # malformed argument: outside the property (the model pins today's refusal)
                if o["r"] != "ok":
                    fail("filter-refused", f"{tag}: {o['r']}")
                    continue
                if "dhx" not in o:
                    continue
                ds = [float.fromhex(h) for h in o["dhx"]]
                ps = [float.fromhex(h) for h in o["phx"]]
                if pkind in SCALARS or (pkind == "tuple" and m == 1):
                    ps = ps * nreq
                if pkind == "series_perm":
                    ps = ps[::-1]           # a palindromic request: the reversed Series is identically labelled
                if o["type"] != o["intype"]:
                    fail("filter-type", f"{tag}: population {o['intype']}, result {o['type']}")
                want_rows = [i for i in range(nreq) if ds[i] < ps[i]]
                want = [req[i] for i in want_rows]
                if o["kept"] != want or (o["rows"] is not None and o["rows"] != want_rows):
                    extra = [s for s in o["kept"] if s not in want]
                    if all(p == 0 for p in ps) and o["kept"]:
                        sig = "filter-zero-selects"
                    elif all(p >= 1 for p in ps):
                        sig = "filter-one-drops"
                    elif sorted(o["kept"]) == sorted(want) and (o["rows"] is None or sorted(o["rows"]) == want_rows):
                        sig = "filter-order"
                    elif any(ds[i] == ps[i] for i in range(nreq)) and set(extra) <= {req[i] for i in range(nreq) if ds[i] == ps[i]} and \
                            all(s in o["kept"] for s in want):
                        sig = "filter-keeps-draw-equal-probability"
                    else:
                        sig = "filter-not-below"
                    fail(sig, f"{tag}: draws {ds}, probabilities {ps}: kept {o['kept']} rows {o['rows']}, expected {want} rows {want_rows}")
                if popkind == "frame" and o["ncols"] != 2 or popkind == "frame0" and o["ncols"] != 0:
                    fail("filter-columns", f"{tag}: result has {o['ncols']} columns")
                if kind == "rate":
                    rs = [float.fromhex(h) for h in o["vhx"]]
                    if pkind in SCALARS or (pkind == "tuple" and m == 1):
                        rs = rs * nreq
                    for i in range(nreq):
                        pe = 1.0 - math.exp(-min(rs[i], 250.0))
                        if abs(Fraction(ds[i]) - Fraction(pe)) < EPS:       # float32 rates are converted in float64 (F32)
                            continue
                        if (ds[i] < pe) != (ds[i] < ps[i]):
                            fail("rate-conversion", f"{tag}: rate {rs[i]} converted to probability {ps[i]}; 1-exp(-min(r,250)) = {pe}, draw {ds[i]}")
                            break
                    if all(r == 0 for r in rs) and o["kept"]:
                        fail("rate-zero-selects", f"{tag}: kept {o['kept']}")
                    filters.append((n, ("rate", si, o["step"], repr(ak), tuple(req)), rs, o))
                else:
                    filters.append((n, ("prob", si, o["step"], repr(ak), tuple(req)), ps, o))
                continue
            # ---- choice / _choice
            if kind == "rchoice":
                _, nums, k, wspec, ckind = op
                req = list(range(len(nums)))
                valid_sims = True
            else:
                _, si, req, ckind, k, wspec, ak = op
                if opts.get("h") == "init":
                    si = "init"
                valid_sims = valid(req, opts)
            if not valid_sims:
                if o["r"] == "ok":
                    fail("unknown-simulant-accepted", f"{tag}: picks {o.get('picks')}")
                continue
            if "dhx" not in o:
                continue
            ds = _fr(o["dhx"])
            st, rows = matrix_status(o.get("whx"), wspec[0] if wspec else 1, len(ds), k)
            if st == "dontcare":
                continue
            if st == "reject":
                if o["r"] == "ok":
                    fail("choice-" + rows + "-accepted", f"{tag}: picks {o['picks']}")
                continue
            if o["r"] != "ok":
                fail("choice-refused", f"{tag}: {o['r']}")
                continue
            if o["idx"] != req:
                fail("choice-index", f"{tag}: result indexed by {o['idx']}")
                continue
            for i, (row, d, pick) in enumerate(zip(rows, ds, o["picks"])):
                W = sum(row)
                if W == 0:
                    continue
                want, gap = expected_pick(row, d)
                exact = row_exact(row)
                if pick == want:
                    continue
                if not exact and gap < EPS:
                    continue
                if row[pick] == 0:
                    if d == 0 and pick == 0:
                        fail("choice-draw0-leading-zero-weight", f"{tag}: row {i} weights {[float(x) for x in row]}, draw 0.0 picks option 0 (weight 0)")
                    else:
                        fail("choice-picks-zero-weight", f"{tag}: row {i} weights {[float(x) for x in row]}, draw {float(d)} picks option {pick}")
                elif gap == 0:
                    fail("choice-edge", f"{tag}: row {i} weights {[float(x) for x in row]}, draw {float(d)} exactly on a bin edge picks {pick}, expected {want}")
                else:
                    fail("choice-interval", f"{tag}: row {i} weights {[float(x) for x in row]}, draw {float(d)} picks {pick}, expected {want}")
                break
            if kind == "choice":
                choices.append((n, (si, o["step"], repr(ak), tuple(req)), rows, o, ckind))
        # monotonicity: same population and draws, pointwise larger argument
        for a in range(len(filters)):
            for b in range(len(filters)):
                na, ka, pa, oa = filters[a]
                nb, kb, pb, ob = filters[b]
                if a == b or ka != kb or len(pa) != len(pb) or not all(x <= y for x, y in zip(pa, pb)):
                    continue
                ra = oa["rows"] if oa["rows"] is not None else None
                rb = ob["rows"] if ob["rows"] is not None else None
                lost = [s for s in oa["kept"] if oa["kept"].count(s) > ob["kept"].count(s)] if ra is None or rb is None else \
                    [i for i in ra if i not in rb]
                if lost:
                    fail("filter-not-monotone", f"ops #{na} and #{nb}: argument raised pointwise ({pa} -> {pb}) but {lost} dropped out")
                    break
            else:
                continue
            break
        # proportional weight matrices (rescaling, spelled-out residual) decide alike
        for a in range(len(choices)):
            for b in range(a + 1, len(choices)):
                na, ka, ra, oa, ca = choices[a]
                nb, kb, rb, ob, cb = choices[b]
                if ka != kb or len(ra) != len(rb):
                    continue
                ds = _fr(oa["dhx"])
                for i, (x, y) in enumerate(zip(ra, rb)):
                    Wx, Wy = sum(x), sum(y)
                    if len(x) != len(y) or Wx == 0 or Wy == 0 or any(u * Wy != v * Wx for u, v in zip(x, y)):
                        continue
                    if oa["picks"][i] != ob["picks"][i]:
                        _, gap = expected_pick(x, ds[i])
                        if gap < EPS and not (row_exact(x) and row_exact(y)):
                            continue
                        if ds[i] == 0:
                            continue
                        if x == y and ca != cb:
                            fail("choice-depends-on-choices-container", f"ops #{na} (choices as {ca}) and #{nb} (choices as {cb}), row {i}: same weights "
                                 f"{[float(t) for t in x]}, draw {float(ds[i])}: option at position {oa['picks'][i]} vs {ob['picks'][i]}")
                            break
                        fail("choice-not-scale-invariant", f"ops #{na} and #{nb}, row {i}: weights {[float(t) for t in x]} vs {[float(t) for t in y]} "
                             f"(proportional), draw {float(ds[i])}: picks {oa['picks'][i]} vs {ob['picks'][i]}")
                        break
        return F

    # ------------------------------------------------------------------ reporting
    def nontrivial(self, case, obs):
        f = c = False
        for op, o in zip(case["ops"], obs["ops"]):
            if op[0] in ("filter", "rate") and o.get("r") == "ok" and 0 < len(o["kept"]) < len(_concrete(op, o)[3]):
                f = True
            if op[0] in ("choice", "rchoice") and o.get("r") == "ok" and len(set(o["picks"])) > 1:
                c = True
        return f and c

    def tags(self, case, obs):
        env = case["env"]
        t = [f"mode:{env['mode']}", f"crn:{int(env['crn'])}", f"clock:{env['clock']}"]
        untracked = set()
        for op, o in zip(case["ops"], obs["ops"]):
            op, opts = _split_op(op)
            op = _concrete(op, o)
            kind = op[0]
            t.append("op:" + kind)
            if kind == "untrack":
                untracked |= set(op[1])
            if o.get("conv_err"):
                t.append(f"rate-conversion-refused:{op[4][0]}:{o['conv_err'][4:]}")
            if kind == "step" or o.get("r") in ("skip", None):
                continue
            res = o["r"] if o["r"] == "ok" else "refused:" + o["r"][4:]
            t.append(f"{kind}:{res}")
            t += [f"handle:{opts.get('h', 'ord')}", f"call-form:{opts.get('form', 'pos')}"]
            if kind != "rchoice":
                t.append(f"index-kind:{opts.get('ix', 'int64')}")
                ak_ = op[-1]
                t.append("ak:" + ("none" if ak_ is None else "obj-" + next(iter(ak_)) if isinstance(ak_, dict) else type(ak_).__name__))
                if untracked & set(op[3] if kind in ("filter", "rate") else op[2]):
                    t.append("untracked-simulants-in-population")
            if kind in ("choice", "rchoice"):
                t.append(f"choice-values:{opts.get('vals', 'str')}")
                t.append(f"options:{op[2] if kind == 'rchoice' else op[4]}" if (op[2] if kind == "rchoice" else op[4]) == 1 else "options:>1")
            if kind in ("filter", "rate"):
                _, si, popkind, req, (pkind, toks), ak = op
                t += [f"pop:{popkind}", f"arg:{pkind}"]
                if toks and all(x.startswith("i:") for x in toks):
                    t.append(f"dtype:int-{'rate' if kind == 'rate' else 'probability'}")
                    if kind == "rate" and any(1 <= int(x[2:]) <= 250 for x in toks):
                        t.append("int-rate-in-1..250")
                elif any(x.startswith("i:") for x in toks):
                    t.append("dtype:mixed-int-float")
                if not req:
                    t.append("pop-empty")
                if o["r"] == "ok" and req and "dhx" in o:
                    ds = [float.fromhex(h) for h in o["dhx"]]
                    ps = [float.fromhex(h) for h in o["phx"]]
                    ps = ps * len(ds) if len(ps) == 1 else ps
                    if len(ps) == len(ds):
                        if any(d == p for d, p in zip(ds, ps)):
                            t.append("edge:probability-equals-draw")
                        if any(p == 0 for p in ps):
                            t.append("p:0")
                        if any(p == 1 for p in ps):
                            t.append("p:1")
                        if any(p > 1 for p in ps):
                            t.append("p:>1")
                        t.append("kept:" + ("none" if not o["kept"] else "all" if len(o["kept"]) == len(req) else "some"))
                    if popkind == "frame0" and all(p == 0 for p in ps):
                        t.append("F14-columnless-frame-p0")
                if len(set(req)) < len(req):
                    t.append("pop-duplicate-labels")
            else:
                wspec = op[3] if kind == "rchoice" else op[5]
                t.append("weights:" + ("none" if wspec is None else f"{wspec[0]}d-{wspec[1]}"))
                t.append("choices:" + (op[4] if kind == "rchoice" else op[3]))
                if wspec is not None and all(c == "R" or c.startswith("i:") for r in wspec[2] for c in r):
                    t.append("dtype:int-weights")
                whx = o.get("whx")
                if whx:
                    if any(c == "R" for r in whx for c in r):
                        t.append("weights:residual")
                    z = [[c != "R" and float.fromhex(c) == 0 for c in r] for r in whx]
                    if any(r[0] for r in z):
                        t.append("zero-weight:first")
                    if any(r[-1] for r in z):
                        t.append("zero-weight:last")
                    if any(any(r[1:-1]) for r in z):
                        t.append("zero-weight:middle")
                if o["r"] == "ok" and "dhx" in o:
                    ds = _fr(o["dhx"])
                    st, rows = matrix_status(whx, wspec[0] if wspec else 1, len(ds), op[2] if kind == "rchoice" else op[4])
                    if st == "ok":
                        ex = 0
                        for row, d in zip(rows, ds):
                            if sum(row) == 0:
                                continue
                            _, gap = expected_pick(row, d)
                            if gap == 0:
                                t.append("edge:draw-on-bin-edge")
                            elif gap < EPS and not row_exact(row):
                                t.append("near-edge-skipped")
                            ex += row_exact(row)
                        t.append("stream:" + ("exact" if ex == len(ds) else "general"))
                        if any(d == 0 for d in ds):
                            t.append("draw:0")
                elif o["r"] != "ok" and "dhx" in o:
                    st, why = matrix_status(whx, wspec[0] if wspec else 1, len(o["dhx"]), op[2] if kind == "rchoice" else op[4])
                    t.append(f"refused-class:{st}:{why if st != 'ok' else ''}")
        return t

    def sample_view(self, case, obs):
        return {"env": case["env"], "ops": [str(o)[:200] for o in case["ops"][:5]],
                "observed": [{k: v for k, v in o.items() if k in ("r", "kept", "picks", "type", "dhx", "phx")} for o in obs["ops"][:5]]}


PROP = C05()
