"""C06 — the lifecycle only ever advances in the legal order.

Tie: (a) translator: phases + context-method skeletons are regenerated from engine.py/lifecycle.py and
the theorems of Props/C06.lean are re-proved about them; (b) correspondence: random sequences of
context calls and direct state requests on a real SimulationContext, and random lifecycle definitions
on a bare LifeCycleManager, against Driver/C06.lean (outcome class, state after, listener log, clock).
"""
from __future__ import annotations

import random

from .. import impl
from ..runner import Prop

ENGINE_STATES = ["initialization", "setup", "post_setup", "population_creation", "time_step__prepare", "time_step",
                 "time_step__cleanup", "collect_metrics", "simulation_end", "report"]
METHODS = ["setup", "initialize_simulants", "step", "finalize", "report"]
LEGAL_NEXT = {  # the order the property states (oracle, independent of the model)
    "initialization": ["setup"], "setup": ["post_setup"], "post_setup": ["population_creation"],
    "population_creation": ["time_step__prepare"], "time_step__prepare": ["time_step"],
    "time_step": ["time_step__cleanup"], "time_step__cleanup": ["collect_metrics"],
    "collect_metrics": ["time_step__prepare", "simulation_end"], "simulation_end": ["report"], "report": [],
}


def _mk_context(case, log, fail):
    impl.load()
    from vivarium import Component
    from vivarium.framework.engine import SimulationContext

    class ListenerFailure(Exception):
        pass

    def maybe_fail(event):
        if fail.get("on") == event:
            fail["on"] = None
            raise ListenerFailure(event)

    class Probe(Component):
        @property
        def name(self):
            return "probe"

        def setup(self, builder):
            log.append("setup_components")
            builder.event.register_listener("report", lambda e: log.append("emit:report"))

        def on_post_setup(self, e):
            maybe_fail("post_setup")
            log.append("emit:post_setup")

        def on_initialize_simulants(self, d):
            log.append("create")

        def on_time_step_prepare(self, e):
            maybe_fail("time_step__prepare")
            log.append("emit:time_step__prepare")

        def on_time_step(self, e):
            maybe_fail("time_step")
            log.append("emit:time_step")

        def on_time_step_cleanup(self, e):
            maybe_fail("time_step__cleanup")
            log.append("emit:time_step__cleanup")

        def on_collect_metrics(self, e):
            maybe_fail("collect_metrics")
            log.append("emit:collect_metrics")

        def on_simulation_end(self, e):
            maybe_fail("simulation_end")
            log.append("emit:simulation_end")

    SimulationContext._clear_context_cache()
    plugins = {"required": {"clock": {"controller": "vivarium.framework.time.SimpleClock",
                                      "builder_interface": "vivarium.framework.time.TimeInterface"}}}
    cls = SimulationContext
    if case.get("interactive"):
        from vivarium.interface.interactive import InteractiveContext
        cls = lambda **kw: InteractiveContext(setup=False, **kw)      # noqa: E731
    return cls(
        components=[Probe()],
        configuration={"population": {"population_size": case.get("pop", 2)},
                       "time": {"start": case["start"], "end": case["stop"], "step_size": case["step"]}},
        plugin_configuration=plugins, logging_verbosity=0)


class C06(Prop):
    id = "C06"
    lean_modules = ["VivModel.Props.C06"]
    build_targets = ["VivModel.Model.Context", "VivModel.Model.Proto"]
    driver = "C06"
    technique = "Lean 4 proof (induction over request lists; decide over tables regenerated from engine.py) + differential correspondence with the real SimulationContext / LifeCycleManager"
    n_quick = 160
    n_thorough = 3000
    rule = ("cases = random sequences of context-method calls / direct set_state requests on a real SimulationContext, "
            "and random phase definitions + request lists on a bare LifeCycleManager; distinct by case hash; "
            "non-trivial = at least one accepted and one refused request")

    # ------------------------------------------------------------------ generation
    def boundary(self):
        legal = ["call:setup", "call:initialize_simulants", "call:step", "call:step", "call:finalize", "call:report"]
        out = [{"kind": "ctx", "start": 0, "stop": 2, "step": 1, "ops": legal},
               {"kind": "ctx", "start": 0, "stop": 3, "step": 1,
                "ops": ["call:setup", "call:initialize_simulants", "run", "call:finalize", "call:report", "run"]}]
        # every method and every direct request from every resting state
        prefix = []
        for nxt in legal:
            for m in METHODS:
                out.append({"kind": "ctx", "start": 0, "stop": 2, "step": 1, "ops": prefix + ["call:" + m] + legal[len(prefix):]})
            out.append({"kind": "ctx", "start": 0, "stop": 2, "step": 1,
                        "ops": prefix + ["set:" + s for s in ENGINE_STATES if s not in LEGAL_NEXT_AFTER(prefix)] + legal[len(prefix):]})
            prefix = prefix + [nxt]
        ilegal = ["call:setup", "call:step", "call:step", "call:finalize", "call:report"]
        out.append({"kind": "ctx", "start": 0, "stop": 2, "step": 1, "ops": ilegal, "interactive": True})
        # every method, `run` and every direct request from every resting state of an INTERACTIVE context
        iprefix = []
        for nxt in ilegal:
            for m in METHODS:
                out.append({"kind": "ctx", "start": 0, "stop": 2, "step": 1, "interactive": True,
                            "ops": iprefix + ["call:" + m] + ilegal[len(iprefix):]})
            out.append({"kind": "ctx", "start": 0, "stop": 2, "step": 1, "interactive": True,
                        "ops": iprefix + ["set:" + s for s in ENGINE_STATES[:3] + ENGINE_STATES[5:8]] + ["run"] + ilegal[len(iprefix):]})
            iprefix = iprefix + [nxt]
        out.append({"kind": "ctx", "start": 0, "stop": 3, "step": 1, "interactive": True,
                    "ops": ["call:step", "call:setup", "call:initialize_simulants", "call:setup", "run", "run", "call:finalize", "call:step", "call:report"]})
        out.append({"kind": "lc", "phases": [["e", [], True], ["a", ["x"], True], ["b", [], False], ["c", ["y", "z"], False]],
                    "reqs": ["x", "x", "y", "z", "x"]})
        for ev in ENGINE_STATES[4:8]:
            pre = ["call:setup", "call:initialize_simulants", "call:step", "fail:" + ev, "call:step"]
            out.append({"kind": "ctx", "start": 0, "stop": 5, "step": 1,
                        "ops": pre + ["call:" + m for m in METHODS] + ["run"] + ["set:" + s for s in ENGINE_STATES]})
        out.append({"kind": "lc", "phases": [["a", ["x", "y"], True], ["b", ["z"], False]],
                    "reqs": ["x", "y", "x", "z", "y", "z", "x", "nowhere"]})
        return out

    def generate(self, rng: random.Random, i: int, tier: str):
        if rng.random() < 0.35:
            return self._gen_lc(rng)
        nsteps = rng.randint(0, 4)
        step = rng.choice([1, 1, 2, 3])
        stop = nsteps * step - (rng.randint(0, step - 1) if nsteps else 0)
        legal = ["call:setup", "call:initialize_simulants"] + ["call:step"] * nsteps + ["call:finalize", "call:report"]
        if rng.random() < 0.4:
            legal = ["call:setup", "call:initialize_simulants", "run", "call:finalize", "call:report"]
        ops, j = [], 0
        p_noise = rng.choice([0.0, 0.3, 0.5, 0.7])
        while j < len(legal) and len(ops) < 40:
            if rng.random() < p_noise:
                r = rng.random()
                if r < 0.12:
                    ops.append("fail:" + rng.choice(ENGINE_STATES[4:8] + ["post_setup", "simulation_end"]))
                elif r < 0.5:
                    ops.append("call:" + rng.choice(METHODS))
                elif r < 0.6:
                    ops.append("run")
                else:
                    ops.append("set:" + rng.choice(ENGINE_STATES + ["nonexistent"]))
            else:
                ops.append(legal[j])
                j += 1
        interactive = rng.random() < 0.35
        if interactive:
            # InteractiveContext.setup() also creates the population; a separate initialize_simulants call is then illegal
            ops = [o for k, o in enumerate(ops) if not (o == "call:initialize_simulants" and k == ops.index("call:initialize_simulants")
                                                       and "call:setup" in ops[:k])]
        return {"kind": "ctx", "start": 0, "stop": stop, "step": step, "ops": ops, "interactive": interactive}

    def _gen_lc(self, rng):
        names = [f"s{k}" for k in range(8)] + ["initialization"]
        phases, used = [], 0
        for p in range(rng.randint(1, 4)):
            k = rng.randint(1, 3)
            if rng.random() < 0.08:
                states = []                                         # empty phase (rejected: nothing to enter)
            elif rng.random() < 0.15:
                states = [rng.choice(names) for _ in range(k)]      # may duplicate (rejected)
            else:
                states = [f"s{used + q}" for q in range(k)]
                used += k
            pname = f"p{p}" if rng.random() > 0.1 else "p0"
            phases.append([pname, states, rng.random() < 0.5])
        allst = ["initialization"] + [s for _, ss, _ in phases for s in ss]
        reqs, cur = [], 0
        for _ in range(rng.randint(3, 25)):
            r = rng.random()
            if r < 0.55 and cur + 1 < len(allst):
                reqs.append(allst[cur + 1]); cur += 1          # noqa: E702  (may or may not really be legal)
            elif r < 0.85:
                reqs.append(rng.choice(allst))
            else:
                reqs.append(rng.choice(["zzz", "setup"]))
        return {"kind": "lc", "phases": phases, "reqs": reqs}

    def shrink(self, case):
        key = "ops" if case["kind"] == "ctx" else "reqs"
        xs = case[key]
        for i in range(len(xs) - 1, -1, -1):
            yield dict(case, **{key: xs[:i] + xs[i + 1:]})
        if case["kind"] == "lc":
            for i in range(len(case["phases"]) - 1, -1, -1):
                yield dict(case, phases=case["phases"][:i] + case["phases"][i + 1:])

    # ------------------------------------------------------------------ implementation
    def run_impl(self, case):
        impl.load()
        if case["kind"] == "lc":
            from vivarium.framework.lifecycle import LifeCycleManager
            m = LifeCycleManager()
            out = {"phases": [], "reqs": []}
            for name, states, loop in case["phases"]:
                try:
                    m.add_phase(name, list(states), loop=loop)
                    out["phases"].append("ok")
                except Exception as e:  # noqa: BLE001
                    out["phases"].append("err:" + type(e).__name__)
            for r in case["reqs"]:
                try:
                    m.set_state(r)
                    out["reqs"].append(["ok", m.current_state])
                except Exception as e:  # noqa: BLE001
                    out["reqs"].append(["err:" + type(e).__name__, m.current_state])
            return out
        log = []
        fail = {"on": None}
        sim = _mk_context(case, log, fail)
        res = []
        for op in case["ops"]:
            before = len(log)
            try:
                if op.startswith("fail:"):
                    fail["on"] = op[5:]        # the probe's listener of that event raises at its next emission
                elif op == "run":
                    sim.run(with_logging=False) if case.get("interactive") else sim.run()
                elif op.startswith("call:"):
                    getattr(sim, op[5:])(**({"print_results": False} if op == "call:report" else {}))
                else:
                    sim._lifecycle.set_state(op[4:])
                outcome = "ok"
            except Exception as e:  # noqa: BLE001
                outcome = "err:" + type(e).__name__
            clock = sim._clock._clock_time
            res.append([outcome, sim._lifecycle.current_state, None if clock is None else int(clock), log[before:]])
        return {"ops": res}

    # ------------------------------------------------------------------ model
    def model_lines(self, case, obs):
        if case["kind"] == "lc":
            L = ["lc new"]
            for name, states, loop in case["phases"]:
                L.append(f"lc phase {name} {','.join(states) if states else '-'} {1 if loop else 0}")
            L += [f"lc set {r}" for r in case["reqs"]]
            return L
        L = [f"ctx new {case['start']} {case['step']} {case['stop']}"]
        for op in case["ops"]:
            if op == "call:setup" and case.get("interactive"):
                L.append("ctx isetup")
                continue
            L.append("ctx run" if op == "run" else ("ctx call " + op[5:] if op.startswith("call:") else
                                                     "ctx fail " + op[5:] if op.startswith("fail:") else "ctx set " + op[4:]))
        return L

    def compare(self, case, obs, replies):
        dis = []
        if case["kind"] == "lc":
            rp = replies[1:1 + len(case["phases"])]
            for i, (a, b) in enumerate(zip(obs["phases"], rp)):
                if (a == "ok") != (b == "ok"):
                    dis.append(f"add_phase #{i} {case['phases'][i]}: impl {a}, model {b}")
            rr = replies[1 + len(case["phases"]):]
            for i, ((o, st), b) in enumerate(zip(obs["reqs"], rr)):
                t = b.split()
                mo, mst = t[0], t[-1]
                if (o == "ok") != (mo == "ok") or st != mst:
                    dis.append(f"set_state #{i} {case['reqs'][i]}: impl {o}/{st}, model {b}")
            return dis
        for i, ((o, st, clock, ev), b) in enumerate(zip(obs["ops"], replies[1:])):
            t = b.split()
            mo, mst, mclock, mev = t[0], t[1], int(t[2]), ([] if t[3] == "-" else t[3].split(","))
            if (o == "ok") != (mo == "ok") or st != mst or ev != mev or (clock is not None and clock != mclock):
                dis.append(f"op #{i} {case['ops'][i]}: impl {o} {st} clock={clock} {ev}; model {b}")
        return dis

    # ------------------------------------------------------------------ oracle (the property itself)
    def oracle(self, case, obs):
        fails = []
        if case["kind"] == "lc":
            # declared order from the accepted phases
            phases = [p for p, r in zip(case["phases"], obs["phases"]) if r == "ok"]
            order = ["initialization"] + [s for _, ss, _ in phases for s in ss]
            nxt = {a: {b} for a, b in zip(order, order[1:])}
            for _, ss, loop in phases:
                if loop and ss:
                    nxt.setdefault(ss[-1], set()).add(ss[0])
            cur = "initialization"
            for i, (r, (o, st)) in enumerate(zip(case["reqs"], obs["reqs"])):
                legal = r in nxt.get(cur, set())
                if (o == "ok") != legal:
                    fails.append({"sig": "lc-accepts-illegal" if o == "ok" else "lc-refuses-legal",
                                  "msg": f"request #{i} {cur}->{r}: outcome {o}, legal={legal}"})
                want = r if o == "ok" else cur
                if st != want:
                    fails.append({"sig": "lc-state-after", "msg": f"request #{i} {cur}->{r} ({o}): state is {st}, expected {want}"})
                cur = st
            # rejected phase definitions: duplicate names
            return fails
        cur = "initialization"
        for i, (op, (o, st, clock, ev)) in enumerate(zip(case["ops"], obs["ops"])):
            # every state visited during the op must follow the legal order; listeners only run in their own state
            visited = [e[5:] for e in ev if e.startswith("emit:")]
            if op.startswith("fail:"):
                if o != "ok" or st != cur or ev:
                    fails.append({"sig": "harness", "msg": f"op #{i} {op}: {o} {st} {ev}"})
                continue
            if op.startswith("set:"):
                tgt = op[4:]
                legal = tgt in LEGAL_NEXT.get(cur, [])
                if (o == "ok") != legal:
                    fails.append({"sig": "direct-request-outcome", "msg": f"op #{i} {op} from {cur}: {o}, legal={legal}"})
                if ev:
                    fails.append({"sig": "direct-request-ran-listener", "msg": f"op #{i} {op}: listeners ran {ev}"})
                if st != (tgt if o == "ok" else cur):
                    fails.append({"sig": "direct-request-state", "msg": f"op #{i} {op} from {cur} ({o}): state {st}"})
            else:
                # emitted events must form a legal path from cur ending at st (through setup for setup())
                if case.get("interactive") and op == "call:setup" and o == "ok" and st != "population_creation":
                    fails.append({"sig": "interactive-setup-state", "msg": f"op #{i} setup() on an InteractiveContext ended in {st}"})
                path_ok, s = True, cur
                seq = list(visited)
                for v in seq:
                    # advance s along the unique legal path until v (at most 2 silent states: setup, population_creation)
                    hops = 0
                    while s != v and hops < 3:
                        nx = LEGAL_NEXT.get(s, [])
                        if v in nx:
                            s = v
                            break
                        if len(nx) >= 1 and nx[0] in ("setup", "population_creation"):
                            s = nx[0]
                            hops += 1
                            continue
                        path_ok = False
                        break
                    if s != v:
                        path_ok = False
                    if not path_ok:
                        break
                if not path_ok:
                    fails.append({"sig": "listener-out-of-order", "msg": f"op #{i} {op} from {cur}: events {ev}"})
                refused = (op.startswith("call:") and self._first_set_illegal(op[5:], cur)) or \
                          (op == "run" and self._first_set_illegal("step", cur))
                if o != "ok" and refused and ev:
                    fails.append({"sig": "refused-call-ran-listener", "msg": f"op #{i} {op} from {cur}: refused but ran {ev}"})
                if o != "ok" and op.startswith("call:") and self._first_set_illegal(op[5:], cur) and (st != cur or ev):
                    fails.append({"sig": "refused-call-changed-state", "msg": f"op #{i} {op} from {cur}: {o}, state {st}, events {ev}"})
                if o == "ok" and op.startswith("call:") and self._first_set_illegal(op[5:], cur):
                    fails.append({"sig": "illegal-call-accepted", "msg": f"op #{i} {op} accepted from {cur}"})
            cur = st
        return fails

    FIRST_SET = {"setup": "setup", "initialize_simulants": "population_creation", "step": "time_step__prepare",
                 "finalize": "simulation_end", "report": "report"}

    def _first_set_illegal(self, method, cur):
        return self.FIRST_SET[method] not in LEGAL_NEXT.get(cur, [])

    def nontrivial(self, case, obs):
        outs = [o[0] for o in (obs["ops"] if case["kind"] == "ctx" else obs["reqs"])]
        return any(o == "ok" for o in outs) and any(o != "ok" for o in outs)

    def tags(self, case, obs):
        t = [case["kind"]]
        if case["kind"] == "ctx":
            t.append("interactive-context" if case.get("interactive") else "simulation-context")
            for op, (o, st, _, ev) in zip(case["ops"], obs["ops"]):
                t.append(("ok:" if o == "ok" else "refused:") + op.split(":")[0])
                if st in ENGINE_STATES[4:7] and op != "fail":
                    t.append("stuck-in:" + st)
                t.append("rest:" + st)
        else:
            t += ["phase-" + r.split(":")[0] for r in obs["phases"]]
            t += ["req-" + o.split(":")[0] for o, _ in obs["reqs"]]
            t += ["loop-phase"] * any(l for _, _, l in case["phases"])
        return t


def LEGAL_NEXT_AFTER(prefix):
    """legal direct targets in the resting state reached by the legal call prefix (kept out of the noise list)"""
    cur = "initialization"
    rest = {"call:setup": "post_setup", "call:initialize_simulants": "population_creation", "call:step": "collect_metrics",
            "call:finalize": "simulation_end", "call:report": "report"}
    for p in prefix:
        cur = rest[p]
    return LEGAL_NEXT[cur]


PROP = C06()
